// Shared by props/c15.rs and props/c20.rs (included inside their per-backend modules).
// A BDD key context with the *clear* secrets kept (the library's TestContext only keeps the prepared
// secret), exact GGSW cell decryption, ciphertext serialisation helpers.
#[allow(unused_imports)]
pub use poulpy_bin_fhe::bdd_arithmetic::{
    Add, And, BDDEncryptionInfos, BDDKey, BDDKeyHelper, BDDKeyInfos, BDDKeyLayout, BDDKeyPrepared, Cmux, Cswap, ExecuteBDDCircuit,
    ExecuteBDDCircuit1WTo1W, ExecuteBDDCircuit2WTo1W, FheUint, GetBitCircuitInfo, FheUintPrepare, FheUintPrepared, FromBits, GGSWBlindRotation,
    GLWEBlindRetrieval, GLWEBlindRetriever, GLWEBlindRotation, GLWEBlindSelection, GetGGSWBit, Identity, Or, Sll, Slt, Sltu, Sra,
    Srl, Sub, ToBits, UnsignedInteger, Xor,
};
#[allow(unused_imports)]
pub use poulpy_bin_fhe::blind_rotation::{BlindRotationKeyLayout, CGGI};
#[allow(unused_imports)]
pub use poulpy_bin_fhe::circuit_bootstrapping::{
    CircuitBootstrappingEncryptionInfos, CircuitBootstrappingKey, CircuitBootstrappingKeyLayout, CircuitBootstrappingKeyPrepared,
};
#[allow(unused_imports)]
pub use poulpy_core::api::*;
#[allow(unused_imports)]
pub use poulpy_core::layouts::*;
#[allow(unused_imports)]
pub use poulpy_core::{EncryptionLayout, ScratchTakeCore};
#[allow(unused_imports)]
pub use std::collections::{BTreeMap, BTreeSet, HashMap};

pub type PrepKey = BDDKeyPrepared<DeviceBuf<BE>, CGGI, BE>;
pub type Prepared<T> = FheUintPrepared<DeviceBuf<BE>, T, BE>;
pub type Packed<T> = FheUint<Vec<u8>, T>;

/// parameter sets: 0 = the suite's (N=256, rank 2, GLWE->GLWE rank reduction before LWE extraction)
///                 1 = rank 1, no intermediate GLWE key switch      2 = rank 2, no intermediate GLWE key switch
///                 3 = rank 1 with an intermediate (rank 1 -> rank 1) GLWE key switch
pub fn bdd_layouts(pset: usize) -> (GLWELayout, GGSWLayout, BDDKeyLayout) {
    let n = Degree(256);
    let ks = |rank_in: u32| Some(GLWESwitchingKeyLayout { n, base2k: Base2K(4), k: TorusPrecision(20), rank_in: Rank(rank_in), rank_out: Rank(1), dnum: Dnum(3), dsize: Dsize(1) });
    let (rank, ks_glwe, ks_lwe_rank_in) = match pset {
        0 => (Rank(2), ks(2), Rank(1)),
        1 => (Rank(1), None, Rank(1)),
        2 => (Rank(2), None, Rank(2)),
        _ => (Rank(1), ks(1), Rank(1)),
    };
    let glwe = GLWELayout { n, base2k: Base2K(13), k: TorusPrecision(26), rank };
    let ggsw = GGSWLayout { n, base2k: Base2K(13), k: TorusPrecision(39), rank, dnum: Dnum(2), dsize: Dsize(1) };
    let key = BDDKeyLayout {
        cbt_layout: CircuitBootstrappingKeyLayout {
            brk_layout: BlindRotationKeyLayout { n_glwe: n, n_lwe: Degree(77), base2k: Base2K(12), k: TorusPrecision(52), dnum: Dnum(4), rank },
            atk_layout: GLWEAutomorphismKeyLayout { n, base2k: Base2K(11), k: TorusPrecision(52), rank, dnum: Dnum(4), dsize: Dsize(1) },
            tsk_layout: GGLWEToGGSWKeyLayout { n, base2k: Base2K(10), k: TorusPrecision(52), rank, dnum: Dnum(4), dsize: Dsize(1) },
        },
        ks_glwe_layout: ks_glwe,
        ks_lwe_layout: GLWEToLWEKeyLayout { n, base2k: Base2K(4), k: TorusPrecision(16), rank_in: ks_lwe_rank_in, dnum: Dnum(3) },
    };
    (glwe, ggsw, key)
}

pub struct Ctx {
    pub pset: usize,
    pub key_seed: u64,
    pub module: Module<BE>,
    pub sk: GLWESecret<Vec<u8>>,
    pub sk_prep: GLWESecretPrepared<DeviceBuf<BE>, BE>,
    pub sk_lwe: LWESecret<Vec<u8>>,
    pub key: PrepKey,
    pub glwe_infos: GLWELayout,
    pub ggsw_infos: GGSWLayout,
    pub key_layout: BDDKeyLayout,
    pub xa: Source,
    pub xe: Source,
    pub scratch: ScratchOwned<BE>,
}

pub fn seed32(seed: u64, tag: u64) -> [u8; 32] {
    Rng::new(seed, tag).seed32()
}

impl Ctx {
    pub fn new(pset: usize, key_seed: u64) -> Ctx {
        let (glwe_infos, ggsw_infos, key_layout) = bdd_layouts(pset);
        let n = glwe_infos.n.0 as usize;
        let module: Module<BE> = Module::<BE>::new(n as u64);
        let mut xs = Source::new(seed32(key_seed, 1));
        let mut xa = Source::new(seed32(key_seed, 2));
        let mut xe = Source::new(seed32(key_seed, 3));
        let mut scratch: ScratchOwned<BE> = ScratchOwned::alloc(1 << 23);
        let mut sk: GLWESecret<Vec<u8>> = GLWESecret::alloc(glwe_infos.n, glwe_infos.rank);
        sk.fill_ternary_prob(0.5, &mut xs);
        let mut sk_prep: GLWESecretPrepared<DeviceBuf<BE>, BE> = module.glwe_secret_prepared_alloc(glwe_infos.rank);
        module.glwe_secret_prepare(&mut sk_prep, &sk);
        let mut sk_lwe: LWESecret<Vec<u8>> = LWESecret::alloc(key_layout.cbt_layout.brk_layout.n_lwe);
        sk_lwe.fill_binary_block(7, &mut xs);
        let mut key: BDDKey<Vec<u8>, CGGI> = BDDKey::alloc_from_infos(&key_layout);
        let enc = BDDEncryptionInfos::from_default_sigma(&key_layout).unwrap();
        key.encrypt_sk(&module, &sk_lwe, &sk, &enc, &mut xe, &mut xa, scratch.borrow());
        let mut key_prep: PrepKey = BDDKeyPrepared::alloc_from_infos(&module, &key_layout);
        key_prep.prepare(&module, &key, scratch.borrow());
        Ctx { pset, key_seed, module, sk, sk_prep, sk_lwe, key: key_prep, glwe_infos, ggsw_infos, key_layout, xa, xe, scratch }
    }

    pub fn n(&self) -> usize {
        self.glwe_infos.n.0 as usize
    }

    /// packed encryption of a word
    pub fn enc_packed<T: UnsignedInteger + ToBits>(&mut self, v: T) -> Packed<T> {
        let mut ct: Packed<T> = FheUint::alloc_from_infos(&self.glwe_infos);
        let enc = EncryptionLayout::new_from_default_sigma(self.glwe_infos).unwrap();
        ct.encrypt_sk(&self.module, v, &self.sk_prep, &enc, &mut self.xe, &mut self.xa, self.scratch.borrow());
        ct
    }

    /// packed encryption of a word in another ciphertext layout (same ring, rank and secret)
    pub fn enc_packed_with<T: UnsignedInteger + ToBits>(&mut self, v: T, infos: GLWELayout) -> Packed<T> {
        let mut ct: Packed<T> = FheUint::alloc_from_infos(&infos);
        let enc = EncryptionLayout::new_from_default_sigma(infos).unwrap();
        ct.encrypt_sk(&self.module, v, &self.sk_prep, &enc, &mut self.xe, &mut self.xa, self.scratch.borrow());
        ct
    }

    /// fresh per-bit GGSW encryption of a word (no bootstrapping)
    pub fn enc_prepared<T: UnsignedInteger + ToBits>(&mut self, v: T) -> Prepared<T> {
        self.enc_prepared_with(v, self.ggsw_infos)
    }

    pub fn enc_prepared_with<T: UnsignedInteger + ToBits>(&mut self, v: T, infos: GGSWLayout) -> Prepared<T> {
        let mut p: Prepared<T> = FheUintPrepared::alloc_from_infos(&self.module, &infos);
        let enc = EncryptionLayout::new_from_default_sigma(infos).unwrap();
        p.encrypt_sk(&self.module, v, &self.sk_prep, &enc, &mut self.xe, &mut self.xa, self.scratch.borrow());
        p
    }

    pub fn alloc_prepared<T: UnsignedInteger>(&self) -> Prepared<T> {
        FheUintPrepared::alloc_from_infos(&self.module, &self.ggsw_infos)
    }

    pub fn alloc_packed<T: UnsignedInteger>(&self) -> Packed<T> {
        FheUint::alloc_from_infos(&self.glwe_infos)
    }

    pub fn dec_packed<T: UnsignedInteger + FromBits>(&mut self, ct: &Packed<T>) -> T {
        ct.decrypt(&self.module, &self.sk_prep, self.scratch.borrow())
    }

    pub fn dec_prepared<T: UnsignedInteger + FromBits>(&mut self, p: &Prepared<T>) -> T {
        p.decrypt(&self.module, &self.sk_prep, &self.key, self.scratch.borrow())
    }

    /// bytes needed by one worker of the bit-preparation loop
    pub fn prepare_thread_bytes<T: UnsignedInteger>(&self) -> usize {
        let res: Prepared<T> = self.alloc_prepared();
        let bits: Packed<T> = self.alloc_packed();
        self.module.fhe_uint_prepare_tmp_bytes(7, 1, &res, &bits, &self.key)
    }

    /// every coefficient of the phase of a packed word, decoded at 2 bits of precision (values in {-2,-1,0,1}).
    /// FheUint::decrypt only looks at the 32 bit slots; this looks at all N coefficients.
    pub fn dec_all_coeffs<G: GLWEToRef + GLWEInfos>(&mut self, ct: &G) -> Vec<i64> {
        let ph = glwe_phase(ct, &self.sk);
        let w = ph.w;
        ph.coeffs.iter().map(|x| round_shift(*x, w - 2)).collect()
    }
}

// ---------------------------------------------------------------------------------------------
// exact phase of a GLWE: c_0 + sum_i c_i * s_{i-1} over Z[X]/(X^N+1), torus scaled by 2^w, w = size*base2k
// ---------------------------------------------------------------------------------------------
pub struct Phase {
    pub w: usize,
    pub coeffs: Vec<i128>,
}

/// round(x / 2^sh) to nearest (ties up)
pub fn round_shift(x: i128, sh: usize) -> i64 {
    if sh == 0 {
        return x as i64;
    }
    ((x + (1i128 << (sh - 1))) >> sh) as i64
}

pub fn centre_i128(x: i128, w: usize) -> i128 {
    let m = 1i128 << w;
    let h = m >> 1;
    ((x + h).rem_euclid(m)) - h
}

pub fn glwe_phase<G: GLWEToRef + GLWEInfos>(ct: &G, sk: &GLWESecret<Vec<u8>>) -> Phase {
    let ct = ct.to_ref();
    let d = ct.data();
    let n = d.n();
    let size = d.size();
    let b = ct.base2k().0 as usize;
    let w = size * b;
    assert!(w + 12 < 120, "phase would not fit i128");
    let rank = ct.rank().0 as usize;
    let sdat = sk.verif_data();
    let col_val = |c: usize| -> Vec<i128> {
        (0..n)
            .map(|i| {
                let mut acc = 0i128;
                for j in 0..size {
                    acc += (d.at(c, j)[i] as i128) << (w - (j + 1) * b);
                }
                acc
            })
            .collect()
    };
    let mut acc = col_val(0);
    for c in 1..=rank {
        let a = col_val(c);
        let s: &[i64] = sdat.at(c - 1, 0);
        for (j, sj) in s.iter().enumerate() {
            if *sj == 0 {
                continue;
            }
            let sj = *sj as i128;
            for i in 0..n {
                let k = i + j;
                if k < n {
                    acc[k] += a[i] * sj;
                } else {
                    acc[k - n] -= a[i] * sj;
                }
            }
        }
    }
    Phase { w, coeffs: acc.into_iter().map(|x| centre_i128(x, w)).collect() }
}

/// sigma_j as an integer polynomial: sigma_0 = 1, sigma_j = s_{j-1}
pub fn sigma(sk: &GLWESecret<Vec<u8>>, j: usize, n: usize) -> Vec<i64> {
    if j == 0 {
        let mut v = vec![0i64; n];
        v[0] = 1;
        v
    } else {
        sk.verif_data().at(j - 1, 0).to_vec()
    }
}

/// negacyclic product of two small integer polynomials
pub fn negacyclic_small(a: &[i64], b: &[i64]) -> Vec<i64> {
    let n = a.len();
    let mut r = vec![0i64; n];
    for i in 0..n {
        if a[i] == 0 {
            continue;
        }
        for j in 0..n {
            if b[j] == 0 {
                continue;
            }
            let k = i + j;
            if k < n {
                r[k] += a[i] * b[j];
            } else {
                r[k - n] -= a[i] * b[j];
            }
        }
    }
    r
}

/// Exact check of every cell of a GGSW against the plaintext polynomial `m` (small integer coefficients):
/// cell(r, j) must have phase m * sigma_j * 2^{-(r+1)*dsize*b} + e with |e| < 2^tol_log2 (torus units, the same
/// absolute tolerance for every cell; callers pass half the gadget unit of the last row when the parameters make
/// that row decodable, a calibrated noise ceiling otherwise).
/// Returns Ok(worst |e| / 2^tol_log2) or Err((row, col, coeff, got_rounded, want, |e| / 2^tol_log2)).
pub fn ggsw_cells_check<G: GGSWToRef>(g: &G, m: &[i64], sk: &GLWESecret<Vec<u8>>, tol_log2: i32) -> Result<f64, (usize, usize, usize, i64, i64, f64)> {
    let g = g.to_ref();
    let n = m.len();
    let b = g.base2k().0 as usize;
    let dsize = g.dsize().0 as usize;
    let dnum = g.dnum().0 as usize;
    let rank = g.rank().0 as usize;
    let mut worst = 0f64;
    for col in 0..=rank {
        let want = negacyclic_small(m, &sigma(sk, col, n));
        for row in 0..dnum {
            let cell = g.at(row, col);
            let ph = glwe_phase(&cell, sk);
            let sh_bits = (row + 1) * dsize * b;
            assert!(ph.w >= sh_bits);
            let unit = ph.w - sh_bits; // phase is scaled by 2^w; one gadget unit of this row = 2^(w - sh_bits)
            for i in 0..n {
                let want_scaled = centre_i128((want[i] as i128) << unit, ph.w);
                let e = centre_i128(ph.coeffs[i] - want_scaled, ph.w);
                let ratio = (e.unsigned_abs() as f64) * 2f64.powi(-(ph.w as i32) - tol_log2);
                if ratio > worst {
                    worst = ratio;
                }
                if ratio >= 1.0 {
                    let got = round_shift(ph.coeffs[i], unit);
                    return Err((row, col, i, got, want[i], ratio));
                }
            }
        }
    }
    Ok(worst)
}

/// all limbs of all columns, little endian
pub fn glwe_bytes<G: GLWEToRef>(ct: &G) -> Vec<u8> {
    let ct = ct.to_ref();
    let d = ct.data();
    let mut v = Vec::with_capacity(d.n() * d.cols() * d.size() * 8);
    for j in 0..d.size() {
        for c in 0..d.cols() {
            for x in d.at(c, j) {
                v.extend_from_slice(&x.to_le_bytes());
            }
        }
    }
    v
}

/// a scratch window of exactly `len` bytes filled with seeded garbage
pub fn garbage_scratch(len: usize, rng: &mut Rng) -> ScratchWin {
    let mut s = ScratchWin::new(len);
    s.fill(rng);
    s
}

pub fn mask_bits(start: usize, end: usize, width: usize) -> u64 {
    let mut m = 0u64;
    for i in start..end.min(width) {
        m |= 1u64 << i;
    }
    m
}

/// boundary dictionary for words of `bits` bits
pub fn boundary_words(bits: u32) -> Vec<u64> {
    let full: u64 = if bits == 64 { u64::MAX } else { (1u64 << bits) - 1 };
    let mut v = vec![0u64, 1, 2, full, full - 1, 1u64 << (bits - 1), (1u64 << (bits - 1)) - 1, (1u64 << (bits - 1)) + 1];
    v.push(0xAAAA_AAAA_AAAA_AAAA & full);
    v.push(0x5555_5555_5555_5555 & full);
    v.push(0xFF00_FF00_FF00_FF00 & full);
    v.push(0x00FF_00FF_00FF_00FF & full);
    v.push(0x0F0F_0F0F_0F0F_0F0F & full);
    v.push(0x8000_0001_8000_0001 & full | 1);
    for i in 0..bits {
        v.push(1u64 << i);
        v.push(full ^ (1u64 << i));
    }
    v.sort_unstable();
    v.dedup();
    v
}

// ---------------------------------------------------------------------------------------------
// panic messages of library worker threads (std::thread::scope only reports "a scoped thread panicked")
// ---------------------------------------------------------------------------------------------
pub static WORKER_PANICS: std::sync::Mutex<Vec<String>> = std::sync::Mutex::new(Vec::new());

pub fn install_worker_panic_capture() {
    static ONCE: std::sync::Once = std::sync::Once::new();
    ONCE.call_once(|| {
        let prev = std::panic::take_hook();
        std::panic::set_hook(Box::new(move |info| {
            if std::thread::current().name() != Some("main") {
                let payload = info.payload();
                let m = if let Some(s) = payload.downcast_ref::<&str>() {
                    s.to_string()
                } else if let Some(s) = payload.downcast_ref::<String>() {
                    s.clone()
                } else {
                    "<non-string panic>".to_string()
                };
                let loc = info.location().map(|l| format!("{}:{}", l.file(), l.line())).unwrap_or_default();
                if let Ok(mut v) = WORKER_PANICS.lock() {
                    if v.len() < 64 {
                        v.push(format!("{} @ {}", m.lines().next().unwrap_or(""), loc));
                    }
                }
            }
            prev(info)
        }));
    });
}

/// `guarded`, with the messages of panicking worker threads appended to the error
pub fn guarded_mt<R>(f: impl FnOnce() -> R) -> Result<R, String> {
    if let Ok(mut v) = WORKER_PANICS.lock() {
        v.clear();
    }
    match guarded(f) {
        Ok(r) => Ok(r),
        Err(p) => {
            let w = WORKER_PANICS.lock().map(|v| v.clone()).unwrap_or_default();
            if w.is_empty() { Err(p) } else { Err(format!("{p}; worker: {}", w.join(" || "))) }
        }
    }
}

/// relative work share of a backend inside one run: the reference backends are several times slower than the AVX
/// ones, the NTT120 family another order of magnitude; they still run every kind of check, on fewer cases
pub fn bscale() -> f64 {
    match BE_NAME {
        "fft64avx" => 1.0,
        "fft64ref" => {
            if cfg!(feature = "avx") {
                0.35
            } else {
                1.0
            }
        }
        "ntt120avx" => 0.025,
        _ => 0.0125,
    }
}

/// grid sharding with a per-backend stride: shard `idx % nshards`, then every `stride`-th point of that shard's share
pub fn grid_take(idx: u64, cfg: &Cfg, sc: f64) -> bool {
    let stride = (1.0 / sc).round().max(1.0) as u64;
    idx % cfg.nshards == cfg.shard && (idx / cfg.nshards) % stride == (cfg.seed % stride)
}
