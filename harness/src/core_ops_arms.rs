// The per-operation arms of core_ops.rs (setup with a generous zeroed scratch, then `exec!` once per Opts entry).
// Returns false when the drawn shape is not admissible (the case is skipped).

fn arm(op: &'static str, cx: &mut Ctx) -> bool {
    match op {
        "glwe_encrypt_sk" | "glwe_encrypt_zero_sk" | "glwe_encrypt_pk" | "glwe_encrypt_zero_pk" | "glwe_decrypt" | "glwe_compressed_encrypt_sk" => arm_glwe_enc(op, cx),
        "lwe_encrypt_sk" | "lwe_decrypt" => arm_lwe_enc(op, cx),
        "ggsw_encrypt_sk" | "gglwe_encrypt_sk" | "ggsw_compressed_encrypt_sk" | "gglwe_compressed_encrypt_sk" => arm_gadget_enc(op, cx),
        o if is_noise_free(o) => arm_noise_free(op, cx),
        "ggsw_rotate" | "ggsw_rotate_assign" => arm_ggsw_rotate(op, cx),
        _ => arm2(op, cx),
    }
}

// ---------------------------------------------------------------------------------------------
// encryption / decryption
// ---------------------------------------------------------------------------------------------
fn arm_glwe_enc(op: &'static str, cx: &mut Ctx) -> bool {
    let n = pick_n(cx);
    let module = cached_module(n);
    let rank = pick_rank(cx);
    let hi = max_base2k(n, rank, 0, be_cap());
    let b = cx.rs.usize_in(3.min(hi), hi);
    let size = pick_size(cx, 5);
    let k = pick_k(&mut cx.rs, b, size);
    let lay = glwe_lay(n, b, k, rank);
    cx.p("n", n);
    cx.p("rank", rank);
    cx.p("base2k", b);
    cx.p("k", k);
    let Ok(enc) = EncryptionLayout::new_from_default_sigma(lay) else { return false };
    let pk_form = op.contains("_pk");
    held_secret!(cx, module, n, rank, pk_form => sk, skp, skref);
    let pt_size = if cx.rs.coin() { size } else { pick_size(cx, 5) };
    let pt_k = if pt_size == size { k } else { pick_k(&mut cx.rs, b, pt_size) };
    let pt = rand_pt(cx, n, b, pt_k);
    cx.p("pt_k", pt_k);
    let (s1, s2) = (cx.rd.seed32(), cx.rd.seed32());
    match op {
        "glwe_encrypt_sk" | "glwe_encrypt_zero_sk" => {
            let bytes = module.glwe_encrypt_sk_tmp_bytes(&lay);
            let zero = op == "glwe_encrypt_zero_sk";
            exec!(cx, bytes,
                dest = { dest_glwe!(cx, lay => res, rref); let (mut xe, mut xa) = (Source::new(s1), Source::new(s2)); },
                call = |sc| if zero { module.glwe_encrypt_zero_sk(&mut res, &skp, &enc, &mut xe, &mut xa, sc) } else { module.glwe_encrypt_sk(&mut res, &pt, &skp, &enc, &mut xe, &mut xa, sc) },
                ro = vec![("pt", i64_bytes(pt.data().raw())), ("sk_prepared", rdk(skref))],
                out = rd(rref), guards = vec![rref]);
        }
        "glwe_compressed_encrypt_sk" => {
            // compressed destinations expose no mutable data: they cannot be pre-filled, only the scratch fill varies
            let bytes = module.glwe_compressed_encrypt_sk_tmp_bytes(&lay);
            exec!(cx, bytes,
                dest = { let mut res: GLWECompressed<Vec<u8>> = GLWECompressed::alloc_from_infos(&lay); let mut xe = Source::new(s1); },
                call = |sc| module.glwe_compressed_encrypt_sk(&mut res, &pt, &skp, s2, &enc, &mut xe, sc),
                ro = vec![("pt", i64_bytes(pt.data().raw())), ("sk_prepared", rdk(skref))],
                out = ser(&res), guards = vec![]);
        }
        "glwe_encrypt_pk" | "glwe_encrypt_zero_pk" => {
            let mut pk = GLWEPublicKey::alloc_from_infos(&lay);
            module.glwe_public_key_generate(&mut pk, &skp, &enc, &mut Source::new(cx.rd.seed32()), &mut Source::new(cx.rd.seed32()));
            let mut hpk = Held::zeroed(module.glwe_public_key_prepared_bytes_of_from_infos(&lay));
            let pkref = cx.guard(&hpk);
            let (mut pkp, _) = hpk.sc().take_glwe_public_key_prepared(module, &lay);
            module.glwe_public_key_prepare(&mut pkp, &pk);
            let bytes = module.glwe_encrypt_pk_tmp_bytes(&lay);
            let zero = op == "glwe_encrypt_zero_pk";
            // the plaintext of the pk form must have the ciphertext's radix and fit the ciphertext
            let pt = if pt_size > size { rand_pt(cx, n, b, k) } else { pt };
            exec!(cx, bytes,
                dest = { dest_glwe!(cx, lay => res, rref); let (mut xu, mut xe) = (Source::new(s1), Source::new(s2)); },
                call = |sc| if zero { module.glwe_encrypt_zero_pk(&mut res, &pkp, &enc, &mut xu, &mut xe, sc) } else { module.glwe_encrypt_pk(&mut res, &pt, &pkp, &enc, &mut xu, &mut xe, sc) },
                ro = vec![("pt", i64_bytes(pt.data().raw())), ("pk_prepared", rdk(pkref))],
                out = rd(rref), guards = vec![rref]);
        }
        _ => {
            // glwe_decrypt: destination = plaintext (any radix / size)
            let ct = rand_glwe_lay(cx, &lay);
            let db = if cx.rs.coin() { b } else { cx.rs.usize_in(2, 52) };
            let ds = pick_size(cx, 5);
            cx.p("pt_base2k", db);
            cx.p("pt_size", ds);
            let pt_lay = glwe_lay(n, db, ds * db, 0);
            let bytes = module.glwe_decrypt_tmp_bytes(&lay);
            exec!(cx, bytes,
                dest = {
                    let mut hres = cx.dest(GLWEPlaintext::<Vec<u8>>::bytes_of_from_infos(&pt_lay));
                    let rref = hres.g.raw_ref();
                    let (mut out_pt, _) = hres.sc().take_glwe_plaintext(&pt_lay);
                },
                call = |sc| module.glwe_decrypt(&ct, &mut out_pt, &skp, sc),
                ro = vec![("ct", b_glwe(&ct)), ("sk_prepared", rdk(skref))],
                out = { let mut v = rd(rref); v.extend((out_pt.base2k().0 as u64).to_le_bytes()); v }, guards = vec![rref]);
        }
    }
    true
}

fn arm_lwe_enc(op: &'static str, cx: &mut Ctx) -> bool {
    let n = pick_n(cx);
    let module = cached_module(n);
    let n_lwe = if cx.tiny { cx.rs.usize_in(1, 8) } else { cx.rs.usize_in(1, 2 * n) };
    let b = cx.rs.usize_in(2, 52);
    let size = pick_size(cx, 5);
    let k = pick_k(&mut cx.rs, b, size);
    cx.p("n", n);
    cx.p("n_lwe", n_lwe);
    cx.p("base2k", b);
    cx.p("k", k);
    let lay = LWELayout { n: Degree(n_lwe as u32), k: TorusPrecision(k as u32), base2k: Base2K(b as u32) };
    let Ok(enc) = EncryptionLayout::new_from_default_sigma(lay) else { return false };
    let sk = new_lwe_sk(cx, n_lwe);
    if op == "lwe_encrypt_sk" {
        let pt_size = pick_size(cx, 5);
        cx.p("pt_size", pt_size);
        let mut pt: LWEPlaintext<Vec<u8>> = LWEPlaintext::alloc(Base2K(b as u32), TorusPrecision((pt_size * b) as u32));
        fill_digits(pt.data_mut().raw_mut(), 1, b, 0, &mut cx.rd);
        let (s1, s2) = (cx.rd.seed32(), cx.rd.seed32());
        let bytes = module.lwe_encrypt_sk_tmp_bytes(&lay);
        exec!(cx, bytes,
            dest = { dest_lwe!(cx, lay => res); let (mut xe, mut xa) = (Source::new(s1), Source::new(s2)); },
            call = |sc| module.lwe_encrypt_sk(&mut res, &pt, &sk, &enc, &mut xe, &mut xa, sc),
            ro = vec![("pt", i64_bytes(pt.data().raw())), ("sk", i64_bytes(sk.raw()))],
            out = b_lwe(&res), guards = vec![]);
    } else {
        let ct = rand_lwe(cx, n_lwe, b, size);
        let db = if cx.rs.coin() { b } else { cx.rs.usize_in(2, 52) };
        let ds = pick_size(cx, 5);
        cx.p("pt_base2k", db);
        cx.p("pt_size", ds);
        let bytes = module.lwe_decrypt_tmp_bytes(&lay);
        exec!(cx, bytes,
            dest = {
                let mut out_pt: LWEPlaintext<Vec<u8>> = LWEPlaintext::alloc(Base2K(db as u32), TorusPrecision((ds * db) as u32));
                for x in out_pt.data_mut().raw_mut().iter_mut() { *x = cx.rf.next_i64(); }
            },
            call = |sc| module.lwe_decrypt(&ct, &mut out_pt, &sk, sc),
            ro = vec![("ct", b_lwe(&ct)), ("sk", i64_bytes(sk.raw()))],
            out = { let mut v = i64_bytes(out_pt.data().raw()); v.extend((out_pt.base2k().0 as u64).to_le_bytes()); v }, guards = vec![]);
    }
    true
}

fn arm_gadget_enc(op: &'static str, cx: &mut Ctx) -> bool {
    let n = pick_n(cx);
    let module = cached_module(n);
    let rank = pick_rank(cx);
    let hi = max_base2k(n, rank, 0, be_cap());
    let b = cx.rs.usize_in(3.min(hi), hi);
    let dsize = cx.rs.usize_in(1, 3);
    let size = dsize + 1 + cx.rs.below(if cx.tiny { 2 } else { 4 }) as usize;
    let dnum = cx.rs.usize_in(1, size / dsize);
    let k = pick_k(&mut cx.rs, b, size).max((dnum * dsize - 1) * b + 1).max(dsize * b + 1);
    cx.p("n", n);
    cx.p("rank", rank);
    cx.p("base2k", b);
    cx.p("k", k);
    cx.p("dsize", dsize);
    cx.p("dnum", dnum);
    held_secret!(cx, module, n, rank, false => sk, skp, skref);
    let (s1, s2) = (cx.rd.seed32(), cx.rd.seed32());
    if op == "ggsw_compressed_encrypt_sk" {
        let lay = ggsw_lay(n, b, k, rank, dnum, dsize);
        let Ok(enc) = EncryptionLayout::new_from_default_sigma(lay) else { return false };
        let mut pt = ScalarZnx::alloc(n, 1);
        pt.at_mut(0, 0).iter_mut().for_each(|x| *x = cx.rd.i64_in(-2, 2));
        let bytes = module.ggsw_compressed_encrypt_sk_tmp_bytes(&lay);
        exec!(cx, bytes,
            dest = { let mut res: GGSWCompressed<Vec<u8>> = GGSWCompressed::alloc_from_infos(&lay); let mut xe = Source::new(s1); },
            call = |sc| module.ggsw_compressed_encrypt_sk(&mut res, &pt, &skp, s2, &enc, &mut xe, sc),
            ro = vec![("pt", i64_bytes(pt.raw())), ("sk_prepared", rdk(skref))],
            out = ser(&res), guards = vec![]);
    } else if op == "gglwe_compressed_encrypt_sk" {
        let rank_in = pick_rank(cx);
        cx.p("rank_in", rank_in);
        let lay = gglwe_lay(n, b, k, rank_in, rank, dnum, dsize);
        let Ok(enc) = EncryptionLayout::new_from_default_sigma(lay) else { return false };
        let mut pt = ScalarZnx::alloc(n, rank_in);
        pt.raw_mut().iter_mut().for_each(|x| *x = cx.rd.i64_in(-2, 2));
        let bytes = module.gglwe_compressed_encrypt_sk_tmp_bytes(&lay);
        exec!(cx, bytes,
            dest = { let mut res: GGLWECompressed<Vec<u8>> = GGLWECompressed::alloc_from_infos(&lay); let mut xe = Source::new(s1); },
            call = |sc| module.gglwe_compressed_encrypt_sk(&mut res, &pt, &skp, s2, &enc, &mut xe, sc),
            ro = vec![("pt", i64_bytes(pt.raw())), ("sk_prepared", rdk(skref))],
            out = ser(&res), guards = vec![]);
    } else if op == "ggsw_encrypt_sk" {
        let lay = ggsw_lay(n, b, k, rank, dnum, dsize);
        let Ok(enc) = EncryptionLayout::new_from_default_sigma(lay) else { return false };
        let mut pt = ScalarZnx::alloc(n, 1);
        pt.at_mut(0, 0).iter_mut().for_each(|x| *x = cx.rd.i64_in(-2, 2));
        let bytes = module.ggsw_encrypt_sk_tmp_bytes(&lay);
        exec!(cx, bytes,
            dest = { dest_ggsw!(cx, lay => res, rref); let (mut xe, mut xa) = (Source::new(s1), Source::new(s2)); },
            call = |sc| module.ggsw_encrypt_sk(&mut res, &pt, &skp, &enc, &mut xe, &mut xa, sc),
            ro = vec![("pt", i64_bytes(pt.raw())), ("sk_prepared", rdk(skref))],
            out = rd(rref), guards = vec![rref]);
    } else {
        let rank_in = pick_rank(cx);
        cx.p("rank_in", rank_in);
        let lay = gglwe_lay(n, b, k, rank_in, rank, dnum, dsize);
        let Ok(enc) = EncryptionLayout::new_from_default_sigma(lay) else { return false };
        let mut pt = ScalarZnx::alloc(n, rank_in);
        pt.raw_mut().iter_mut().for_each(|x| *x = cx.rd.i64_in(-2, 2));
        let bytes = module.gglwe_encrypt_sk_tmp_bytes(&lay);
        exec!(cx, bytes,
            dest = { let mut res = GGLWE::alloc_from_infos(&lay); garbage_gglwe(cx, &mut res); let (mut xe, mut xa) = (Source::new(s1), Source::new(s2)); },
            call = |sc| module.gglwe_encrypt_sk(&mut res, &pt, &skp, &enc, &mut xe, &mut xa, sc),
            ro = vec![("pt", i64_bytes(pt.raw())), ("sk_prepared", rdk(skref))],
            out = b_gglwe(&res), guards = vec![]);
    }
    true
}

// ---------------------------------------------------------------------------------------------
// noise-free operations (calling conventions and admissible rank combinations as in props/c02.rs)
// ---------------------------------------------------------------------------------------------
fn is_noise_free(op: &str) -> bool {
    matches!(
        op,
        "glwe_add_into" | "glwe_add_assign" | "glwe_sub" | "glwe_sub_assign" | "glwe_sub_negate_assign" | "glwe_negate" | "glwe_negate_assign" | "glwe_copy" | "glwe_rotate"
            | "glwe_rotate_assign" | "glwe_mul_xp_minus_one" | "glwe_mul_xp_minus_one_assign" | "glwe_rsh" | "glwe_lsh_assign" | "glwe_lsh" | "glwe_lsh_add" | "glwe_lsh_sub"
            | "glwe_normalize" | "glwe_normalize_assign"
    )
}

fn arm_noise_free(op: &'static str, cx: &mut Ctx) -> bool {
    let n = if cx.tiny { 8 } else { *cx.rs.pick(&[2usize, 4, 8, 8, 16, 16, 32, 64]) };
    let module = cached_module(n);
    let b = pick_b_any(&mut cx.rs);
    let cross = op == "glwe_normalize";
    let a_b = if cross && cx.rs.below(8) != 0 { pick_b_any(&mut cx.rs) } else { b };
    let r_size = pick_size(cx, 5);
    let (a_size, b_size) = if cx.rs.below(4) == 0 { (r_size, r_size) } else { (pick_size(cx, 5), pick_size(cx, 5)) };
    let top = if cx.tiny { 1 } else { 3 };
    let (r_rank, a_rank, b_rank);
    match op {
        "glwe_add_into" | "glwe_sub" => match cx.rs.below(4) {
            0 => {
                a_rank = 0;
                b_rank = cx.rs.usize_in(0, top);
                r_rank = b_rank;
            }
            1 => {
                b_rank = 0;
                a_rank = cx.rs.usize_in(0, top);
                r_rank = a_rank;
            }
            _ => {
                a_rank = cx.rs.usize_in(0, top);
                b_rank = a_rank;
                r_rank = a_rank;
            }
        },
        "glwe_add_assign" | "glwe_lsh" | "glwe_lsh_add" | "glwe_lsh_sub" => {
            r_rank = cx.rs.usize_in(0, top);
            a_rank = if cx.rs.coin() { r_rank } else { cx.rs.usize_in(0, r_rank) };
            b_rank = 0;
        }
        "glwe_sub_assign" | "glwe_sub_negate_assign" | "glwe_copy" | "glwe_rotate" => {
            r_rank = cx.rs.usize_in(0, top);
            a_rank = if cx.rs.below(3) == 0 { 0 } else { r_rank };
            b_rank = 0;
        }
        _ => {
            r_rank = cx.rs.usize_in(0, top);
            a_rank = r_rank;
            b_rank = 0;
        }
    }
    let rot = pick_rot(&mut cx.rs, n);
    let in_place = matches!(op, "glwe_negate_assign" | "glwe_rotate_assign" | "glwe_mul_xp_minus_one_assign" | "glwe_rsh" | "glwe_lsh_assign" | "glwe_normalize_assign");
    let uses_r = in_place || matches!(op, "glwe_add_assign" | "glwe_sub_assign" | "glwe_sub_negate_assign" | "glwe_lsh_add" | "glwe_lsh_sub");
    let sz = if in_place { r_size } else { a_size };
    let shift = match cx.rs.below(6) {
        0 => cx.rs.usize_in(0, sz + 2) * b,
        1 => (cx.rs.usize_in(0, sz + 1) * b + 1).min((sz + 2) * b),
        _ => cx.rs.usize_in(0, (sz + 2) * b),
    };
    cx.p("n", n);
    cx.p("res_base2k", b);
    cx.p("a_base2k", a_b);
    cx.p("res_size", r_size);
    cx.p("a_size", a_size);
    cx.p("b_size", b_size);
    cx.p("res_rank", r_rank);
    cx.p("a_rank", a_rank);
    cx.p("b_rank", b_rank);
    cx.p("rot", rot);
    cx.p("shift", shift);
    let a = rand_glwe(cx, n, a_b, a_size, a_rank);
    let bb = rand_glwe(cx, n, b, b_size, b_rank);
    let r0 = rand_glwe(cx, n, b, r_size, r_rank);
    let r_lay = glwe_lay(n, b, r_size * b, r_rank);
    let bytes = match op {
        "glwe_rotate_assign" => module.glwe_rotate_tmp_bytes(),
        "glwe_mul_xp_minus_one_assign" => module.vec_znx_mul_xp_minus_one_assign_tmp_bytes(),
        "glwe_rsh" | "glwe_lsh_assign" | "glwe_lsh" | "glwe_lsh_add" | "glwe_lsh_sub" => module.glwe_shift_tmp_bytes(),
        "glwe_normalize" | "glwe_normalize_assign" => module.glwe_normalize_tmp_bytes(),
        _ => 0,
    };
    exec!(cx, bytes,
        dest = {
            dest_glwe!(cx, r_lay => res, rref);
            if uses_r { res.data_mut().raw_mut().copy_from_slice(r0.data().raw()); }
        },
        call = |sc| match op {
            "glwe_add_into" => module.glwe_add_into(&mut res, &a, &bb),
            "glwe_add_assign" => module.glwe_add_assign(&mut res, &a),
            "glwe_sub" => module.glwe_sub(&mut res, &a, &bb),
            "glwe_sub_assign" => module.glwe_sub_assign(&mut res, &a),
            "glwe_sub_negate_assign" => module.glwe_sub_negate_assign(&mut res, &a),
            "glwe_negate" => module.glwe_negate(&mut res, &a),
            "glwe_negate_assign" => module.glwe_negate_assign(&mut res),
            "glwe_copy" => module.glwe_copy(&mut res, &a),
            "glwe_rotate" => module.glwe_rotate(rot, &mut res, &a),
            "glwe_rotate_assign" => module.glwe_rotate_assign(rot, &mut res, sc),
            "glwe_mul_xp_minus_one" => module.glwe_mul_xp_minus_one(rot, &mut res, &a),
            "glwe_mul_xp_minus_one_assign" => module.glwe_mul_xp_minus_one_assign(rot, &mut res, sc),
            "glwe_rsh" => module.glwe_rsh(shift, &mut res, sc),
            "glwe_lsh_assign" => module.glwe_lsh_assign(&mut res, shift, sc),
            "glwe_lsh" => module.glwe_lsh(&mut res, &a, shift, sc),
            "glwe_lsh_add" => module.glwe_lsh_add(&mut res, &a, shift, sc),
            "glwe_lsh_sub" => module.glwe_lsh_sub(&mut res, &a, shift, sc),
            "glwe_normalize" => module.glwe_normalize(&mut res, &a, sc),
            _ => module.glwe_normalize_assign(&mut res, sc),
        },
        ro = vec![("a", b_glwe(&a)), ("b", b_glwe(&bb))],
        out = rd(rref), guards = vec![rref]);
    true
}

fn arm_ggsw_rotate(op: &'static str, cx: &mut Ctx) -> bool {
    let n = if cx.tiny { 8 } else { *cx.rs.pick(&[4usize, 8, 16]) };
    let module = cached_module(n);
    let b = cx.rs.usize_in(3, 54);
    let rank = if cx.tiny { 1 } else { cx.rs.usize_in(0, 2) };
    let dsize = cx.rs.usize_in(1, 2);
    let a_size = cx.rs.usize_in(dsize + 1, 5);
    let a_dnum = cx.rs.usize_in(1, a_size / dsize);
    let assign = op == "ggsw_rotate_assign";
    let r_size = if assign || cx.rs.coin() { a_size } else { cx.rs.usize_in(dsize + 1, 5) };
    let r_dnum = if assign { a_dnum } else { cx.rs.usize_in(1, a_dnum.min(r_size / dsize)) };
    let rot = pick_rot(&mut cx.rs, n);
    cx.p("n", n);
    cx.p("base2k", b);
    cx.p("rank", rank);
    cx.p("dsize", dsize);
    cx.p("a_size", a_size);
    cx.p("a_dnum", a_dnum);
    cx.p("res_size", r_size);
    cx.p("res_dnum", r_dnum);
    cx.p("rot", rot);
    let a_lay = ggsw_lay(n, b, a_size * b, rank, a_dnum, dsize);
    let r_lay = ggsw_lay(n, b, r_size * b, rank, r_dnum, dsize);
    let a = rand_ggsw(cx, &a_lay);
    let bytes = if assign { module.ggsw_rotate_tmp_bytes() } else { 0 };
    exec!(cx, bytes,
        dest = {
            dest_ggsw!(cx, r_lay => res, rref);
            if assign { for r in 0..a_dnum { for c in 0..=rank { res.at_mut(r, c).data_mut().raw_mut().copy_from_slice(a.at(r, c).data().raw()); } } }
        },
        call = |sc| if assign { module.ggsw_rotate_assign(rot, &mut res, sc) } else { module.ggsw_rotate(rot, &mut res, &a) },
        ro = vec![("a", b_ggsw(&a))],
        out = rd(rref), guards = vec![rref]);
    true
}

fn arm2(op: &'static str, cx: &mut Ctx) -> bool {
    match op {
        "glwe_keyswitch" | "glwe_keyswitch_assign" | "gglwe_keyswitch" | "gglwe_keyswitch_assign" => arm_keyswitch(op, cx),
        o if o.starts_with("glwe_automorphism") && !o.contains("key") => arm_automorphism(op, cx),
        "lwe_keyswitch" | "glwe_from_lwe" | "lwe_from_glwe" | "lwe_sample_extract" => arm_lwe_conv(op, cx),
        _ => arm3(op, cx),
    }
}

fn swk_lay(n: usize, g: &Gadget, rank_in: usize, rank_out: usize) -> GLWESwitchingKeyLayout {
    GLWESwitchingKeyLayout {
        n: Degree(n as u32),
        base2k: Base2K(g.b as u32),
        k: TorusPrecision(g.k as u32),
        rank_in: Rank(rank_in as u32),
        rank_out: Rank(rank_out as u32),
        dnum: Dnum(g.dnum as u32),
        dsize: Dsize(g.dsize as u32),
    }
}
fn atk_lay(n: usize, g: &Gadget, rank: usize) -> GLWEAutomorphismKeyLayout {
    GLWEAutomorphismKeyLayout { n: Degree(n as u32), base2k: Base2K(g.b as u32), k: TorusPrecision(g.k as u32), rank: Rank(rank as u32), dnum: Dnum(g.dnum as u32), dsize: Dsize(g.dsize as u32) }
}

// ---------------------------------------------------------------------------------------------
// GLWE / GGLWE key switch (shapes as in props/c03.rs: three-way radix mismatch, dsize 1..4, dnum around what the input needs)
// ---------------------------------------------------------------------------------------------
fn arm_keyswitch(op: &'static str, cx: &mut Ctx) -> bool {
    let n = pick_n(cx);
    let module = cached_module(n);
    let assign = op.ends_with("_assign");
    let rank_in = pick_rank(cx);
    let rank_out = if assign || cx.rs.coin() { rank_in } else { pick_rank(cx) };
    let gg = op.starts_with("gglwe");
    let g_dsize = cx.rs.usize_in(1, 2);
    let a_size = if gg { cx.rs.usize_in(g_dsize + 1, if cx.tiny { 3 } else { 5 }) } else { pick_size(cx, 5) };
    let probe = pick_gadget(cx, n, a_size, 8, rank_in, 4);
    let a_b = pick_ct_b(cx, probe.b, 52);
    let mut g = pick_gadget(cx, n, a_size, a_b, rank_in, 4);
    g.b = probe.b;
    g.k = g.size * g.b - cx.rs.below(g.b as u64) as usize;
    let (r_b, r_size) = if assign { (a_b, a_size) } else if gg { (a_b, a_size) } else { (pick_ct_b(cx, g.b, 52), pick_size(cx, 5)) };
    cx.p("n", n);
    cx.p("rank_in", rank_in);
    cx.p("rank_out", rank_out);
    cx.p("a_base2k", a_b);
    cx.p("a_size", a_size);
    cx.p("res_base2k", r_b);
    cx.p("res_size", r_size);
    put_gadget(cx, "key", &g);
    let klay = swk_lay(n, &g, rank_in, rank_out);
    held_secret!(cx, module, n, rank_in, false => sk_in, _skp_in, _r_in);
    held_secret!(cx, module, n, rank_out, false => sk_out, _skp_out, _r_out);
    held_swk!(cx, module, klay, &sk_in, &sk_out => _key, kprep, kref);
    if !gg {
        let a = rand_glwe(cx, n, a_b, a_size, rank_in);
        let lay_a = glwe_lay(n, a_b, a_size * a_b, rank_in);
        let lay_r = glwe_lay(n, r_b, r_size * r_b, rank_out);
        let bytes = if assign { module.glwe_keyswitch_tmp_bytes(&lay_a, &lay_a, &klay) } else { module.glwe_keyswitch_tmp_bytes(&lay_r, &lay_a, &klay) };
        exec!(cx, bytes,
            dest = {
                dest_glwe!(cx, lay_r => res, rref);
                if assign { res.data_mut().raw_mut().copy_from_slice(a.data().raw()); }
            },
            call = |sc| if assign { module.glwe_keyswitch_assign(&mut res, &kprep, sc) } else { module.glwe_keyswitch(&mut res, &a, &kprep, sc) },
            ro = vec![("a", b_glwe(&a)), ("key_prepared", rdk(kref))],
            out = rd(rref), guards = vec![rref]);
    } else {
        // every cell of a GGLWE whose output rank is the key's input rank is switched like a GLWE
        let r0 = if cx.tiny { 1 } else { cx.rs.usize_in(1, 2) };
        let g_dnum = cx.rs.usize_in(1, (a_size / g_dsize).min(3));
        let res_dnum = if assign { g_dnum } else { cx.rs.usize_in(1, g_dnum) };
        cx.p("gglwe_rank_in", r0);
        cx.p("gglwe_dsize", g_dsize);
        cx.p("gglwe_dnum", g_dnum);
        cx.p("res_dnum", res_dnum);
        let a_lay = gglwe_lay(n, a_b, a_size * a_b, r0, rank_in, g_dnum, g_dsize);
        let r_lay = gglwe_lay(n, a_b, a_size * a_b, r0, rank_out, res_dnum, g_dsize);
        let a = rand_gglwe(cx, &a_lay);
        let bytes = if assign { module.gglwe_keyswitch_tmp_bytes(&a_lay, &a_lay, &klay) } else { module.gglwe_keyswitch_tmp_bytes(&r_lay, &a_lay, &klay) };
        exec!(cx, bytes,
            dest = {
                let mut res = if assign { a.clone() } else { let mut r = GGLWE::alloc_from_infos(&r_lay); garbage_gglwe(cx, &mut r); r };
            },
            call = |sc| if assign { module.gglwe_keyswitch_assign(&mut res, &kprep, sc) } else { module.gglwe_keyswitch(&mut res, &a, &kprep, sc) },
            ro = vec![("a", b_gglwe(&a)), ("key_prepared", rdk(kref))],
            out = b_gglwe(&res), guards = vec![]);
    }
    true
}

// ---------------------------------------------------------------------------------------------
// the eight GLWE automorphism forms
// ---------------------------------------------------------------------------------------------
fn arm_automorphism(op: &'static str, cx: &mut Ctx) -> bool {
    let n = pick_n(cx);
    let module = cached_module(n);
    let assign = op.ends_with("_assign");
    let rank = pick_rank(cx);
    let a_size = pick_size(cx, 5);
    let probe = pick_gadget(cx, n, a_size, 8, rank, 4);
    let a_b = pick_ct_b(cx, probe.b, 52);
    let mut g = pick_gadget(cx, n, a_size, a_b, rank, 4);
    g.b = probe.b;
    g.k = g.size * g.b - cx.rs.below(g.b as u64) as usize;
    let (r_b, r_size) = if assign { (a_b, a_size) } else { (pick_ct_b(cx, g.b, 52), pick_size(cx, 5)) };
    let p = if cx.rs.below(3) == 0 { module.galois_element(cx.rs.i64_in(-(n as i64) / 2, n as i64 / 2)) } else { pick_galois(&mut cx.rs, n) };
    cx.p("n", n);
    cx.p("rank", rank);
    cx.p("a_base2k", a_b);
    cx.p("a_size", a_size);
    cx.p("res_base2k", r_b);
    cx.p("res_size", r_size);
    cx.p("galois", p);
    put_gadget(cx, "key", &g);
    cx.desc.put("cross_radix_a_key", a_b != g.b);
    let klay = atk_lay(n, &g, rank);
    held_secret!(cx, module, n, rank, false => sk, _skp, _skref);
    held_atk!(cx, module, klay, p, &sk => _key, kprep, kref);
    let a = rand_glwe(cx, n, a_b, a_size, rank);
    let r0 = rand_glwe(cx, n, r_b, r_size, rank);
    let lay_a = glwe_lay(n, a_b, a_size * a_b, rank);
    let lay_r = glwe_lay(n, r_b, r_size * r_b, rank);
    let bytes = if assign { module.glwe_automorphism_tmp_bytes(&lay_a, &lay_a, &klay) } else { module.glwe_automorphism_tmp_bytes(&lay_r, &lay_a, &klay) };
    // the out-of-place add / sub forms combine sigma(a) with a (not with the previous result): the destination is pure output
    let _ = &r0;
    exec!(cx, bytes,
        dest = {
            dest_glwe!(cx, lay_r => res, rref);
            if assign { res.data_mut().raw_mut().copy_from_slice(a.data().raw()); }
        },
        call = |sc| match op {
            "glwe_automorphism" => module.glwe_automorphism(&mut res, &a, &kprep, sc),
            "glwe_automorphism_assign" => module.glwe_automorphism_assign(&mut res, &kprep, sc),
            "glwe_automorphism_add" => module.glwe_automorphism_add(&mut res, &a, &kprep, sc),
            "glwe_automorphism_add_assign" => module.glwe_automorphism_add_assign(&mut res, &kprep, sc),
            "glwe_automorphism_sub" => module.glwe_automorphism_sub(&mut res, &a, &kprep, sc),
            "glwe_automorphism_sub_negate" => module.glwe_automorphism_sub_negate(&mut res, &a, &kprep, sc),
            "glwe_automorphism_sub_assign" => module.glwe_automorphism_sub_assign(&mut res, &kprep, sc),
            _ => module.glwe_automorphism_sub_negate_assign(&mut res, &kprep, sc),
        },
        ro = vec![("a", b_glwe(&a)), ("key_prepared", rdk(kref))],
        out = rd(rref), guards = vec![rref]);
    true
}

// ---------------------------------------------------------------------------------------------
// LWE key switch, LWE <-> GLWE conversion, sample extraction (LWE keys have dsize 1)
// ---------------------------------------------------------------------------------------------
fn arm_lwe_conv(op: &'static str, cx: &mut Ctx) -> bool {
    let n = pick_n(cx);
    let module = cached_module(n);
    let a_size = pick_size(cx, 5);
    cx.p("n", n);
    cx.p("a_size", a_size);
    if op == "lwe_sample_extract" {
        let n_lwe = if cx.rs.coin() { n } else { cx.rs.usize_in(1, n) };
        let b = cx.rs.usize_in(2, 52);
        let r_size = pick_size(cx, 5);
        cx.p("n_lwe", n_lwe);
        cx.p("base2k", b);
        cx.p("res_size", r_size);
        let a = rand_glwe(cx, n, b, a_size, 1);
        let lay = LWELayout { n: Degree(n_lwe as u32), k: TorusPrecision((r_size * b) as u32), base2k: Base2K(b as u32) };
        exec!(cx, 0,
            dest = { dest_lwe!(cx, lay => res); },
            call = |_sc| module.lwe_sample_extract(&mut res, &a),
            ro = vec![("a", b_glwe(&a))],
            out = b_lwe(&res), guards = vec![]);
        return true;
    }
    let rank = pick_rank(cx);
    let (rank_in, rank_out) = match op {
        "glwe_from_lwe" => (1, rank),
        "lwe_from_glwe" => (rank, 1),
        _ => (1, 1),
    };
    let kb = pick_key_b(cx, n, 3, 1);
    let a_b = pick_ct_b(cx, kb, 52);
    let acs = conv_size(a_size, a_b, kb);
    let dnum = match cx.rs.below(4) {
        0 => acs.saturating_sub(1).max(1),
        1 => acs + 1,
        _ => acs,
    }
    .clamp(1, 6);
    let size = dnum.max(2) + cx.rs.below(3) as usize;
    let g = Gadget { b: kb, size, k: size * kb - cx.rs.below(kb as u64) as usize, dsize: 1, dnum };
    let r_b = pick_ct_b(cx, kb, 52);
    let r_size = pick_size(cx, 5);
    cx.p("rank_in", rank_in);
    cx.p("rank_out", rank_out);
    cx.p("a_base2k", a_b);
    cx.p("res_base2k", r_b);
    cx.p("res_size", r_size);
    put_gadget(cx, "key", &g);
    let gl = gglwe_lay(n, g.b, g.k, rank_in, rank_out, g.dnum, 1);
    let (s1, s2) = (cx.rd.seed32(), cx.rd.seed32());
    let mut hk = Held::zeroed(module.glwe_switching_key_prepared_bytes_of_from_infos(&gl));
    let kref = cx.guard(&hk);
    let (mut kprep, _) = hk.sc().take_glwe_switching_key_prepared(module, &gl);
    match op {
        "lwe_keyswitch" => {
            let n_in = cx.rs.usize_in(1, n);
            let n_out = cx.rs.usize_in(1, n);
            cx.p("n_lwe_in", n_in);
            cx.p("n_lwe_out", n_out);
            let (sk_in, sk_out) = (new_lwe_sk(cx, n_in), new_lwe_sk(cx, n_out));
            let lay = LWESwitchingKeyLayout { n: Degree(n as u32), base2k: Base2K(kb as u32), k: TorusPrecision(g.k as u32), dnum: Dnum(g.dnum as u32) };
            let enc = EncryptionLayout::new_from_default_sigma(lay).unwrap();
            let mut ksk = LWESwitchingKey::alloc_from_infos(&lay);
            let mut sw = setup_scratch(module.lwe_switching_key_encrypt_sk_tmp_bytes(&lay));
            module.lwe_switching_key_encrypt_sk(&mut ksk, &sk_in, &sk_out, &enc, &mut Source::new(s1), &mut Source::new(s2), sw.scratch());
            let mut sw = setup_scratch(module.lwe_switching_key_prepare_tmp_bytes(&lay));
            module.lwe_switching_key_prepare(&mut kprep, &ksk, sw.scratch());
            let a = rand_lwe(cx, n_in, a_b, a_size);
            let la = LWELayout { n: Degree(n_in as u32), k: TorusPrecision((a_size * a_b) as u32), base2k: Base2K(a_b as u32) };
            let lr = LWELayout { n: Degree(n_out as u32), k: TorusPrecision((r_size * r_b) as u32), base2k: Base2K(r_b as u32) };
            let bytes = module.lwe_keyswitch_tmp_bytes(&lr, &la, &lay);
            exec!(cx, bytes,
                dest = { dest_lwe!(cx, lr => res); },
                call = |sc| module.lwe_keyswitch(&mut res, &a, &kprep, sc),
                ro = vec![("a", b_lwe(&a)), ("key_prepared", rdk(kref))],
                out = b_lwe(&res), guards = vec![]);
        }
        "glwe_from_lwe" => {
            let n_lwe = cx.rs.usize_in(1, n);
            cx.p("n_lwe", n_lwe);
            let sk_lwe = new_lwe_sk(cx, n_lwe);
            held_secret!(cx, module, n, rank, false => _sk, skp, _skref);
            let lay = LWEToGLWEKeyLayout { n: Degree(n as u32), base2k: Base2K(kb as u32), k: TorusPrecision(g.k as u32), dnum: Dnum(g.dnum as u32), rank_out: Rank(rank as u32) };
            let enc = EncryptionLayout::new_from_default_sigma(lay).unwrap();
            let mut ksk = LWEToGLWEKey::alloc_from_infos(&lay);
            let mut sw = setup_scratch(module.lwe_to_glwe_key_encrypt_sk_tmp_bytes(&lay));
            module.lwe_to_glwe_key_encrypt_sk(&mut ksk, &sk_lwe, &skp, &enc, &mut Source::new(s1), &mut Source::new(s2), sw.scratch());
            let mut sw = setup_scratch(module.lwe_to_glwe_key_prepare_tmp_bytes(&lay));
            module.lwe_to_glwe_key_prepare(&mut kprep, &ksk, sw.scratch());
            let a = rand_lwe(cx, n_lwe, a_b, a_size);
            let la = LWELayout { n: Degree(n_lwe as u32), k: TorusPrecision((a_size * a_b) as u32), base2k: Base2K(a_b as u32) };
            let lr = glwe_lay(n, r_b, r_size * r_b, rank);
            let bytes = module.glwe_from_lwe_tmp_bytes(&lr, &la, &lay);
            exec!(cx, bytes,
                dest = { dest_glwe!(cx, lr => res, rref); },
                call = |sc| module.glwe_from_lwe(&mut res, &a, &kprep, sc),
                ro = vec![("a", b_lwe(&a)), ("key_prepared", rdk(kref))],
                out = rd(rref), guards = vec![rref]);
        }
        _ => {
            let n_lwe = cx.rs.usize_in(1, n);
            let idx = cx.rs.below(n as u64) as usize;
            cx.p("n_lwe", n_lwe);
            cx.p("index", idx);
            let sk_lwe = new_lwe_sk(cx, n_lwe);
            held_secret!(cx, module, n, rank, false => sk, _skp, _skref);
            let lay = GLWEToLWEKeyLayout { n: Degree(n as u32), base2k: Base2K(kb as u32), k: TorusPrecision(g.k as u32), rank_in: Rank(rank as u32), dnum: Dnum(g.dnum as u32) };
            let enc = EncryptionLayout::new_from_default_sigma(lay).unwrap();
            let mut ksk = GLWEToLWEKey::alloc_from_infos(&lay);
            let mut sw = setup_scratch(module.glwe_to_lwe_key_encrypt_sk_tmp_bytes(&lay));
            module.glwe_to_lwe_key_encrypt_sk(&mut ksk, &sk_lwe, &sk, &enc, &mut Source::new(s1), &mut Source::new(s2), sw.scratch());
            let mut sw = setup_scratch(module.glwe_to_lwe_key_prepare_tmp_bytes(&lay));
            module.glwe_to_lwe_key_prepare(&mut kprep, &ksk, sw.scratch());
            let a = rand_glwe(cx, n, a_b, a_size, rank);
            let la = glwe_lay(n, a_b, a_size * a_b, rank);
            let lr = LWELayout { n: Degree(n_lwe as u32), k: TorusPrecision((r_size * r_b) as u32), base2k: Base2K(r_b as u32) };
            let bytes = module.lwe_from_glwe_tmp_bytes(&lr, &la, &lay);
            exec!(cx, bytes,
                dest = { dest_lwe!(cx, lr => res); },
                call = |sc| module.lwe_from_glwe(&mut res, &a, idx, &kprep, sc),
                ro = vec![("a", b_glwe(&a)), ("key_prepared", rdk(kref))],
                out = b_lwe(&res), guards = vec![]);
        }
    }
    true
}

fn arm3(op: &'static str, cx: &mut Ctx) -> bool {
    match op {
        "ggsw_keyswitch" | "ggsw_keyswitch_assign" | "ggsw_automorphism" | "ggsw_automorphism_assign" => arm_ggsw_ks(op, cx),
        "glwe_trace" | "glwe_trace_assign" | "glwe_pack" | "glwe_packer" => arm_trace(op, cx),
        _ => arm4(op, cx),
    }
}

fn tsk_lay(n: usize, g: &Gadget, rank: usize) -> GGLWEToGGSWKeyLayout {
    GGLWEToGGSWKeyLayout { n: Degree(n as u32), base2k: Base2K(g.b as u32), k: TorusPrecision(g.k as u32), rank: Rank(rank as u32), dnum: Dnum(g.dnum as u32), dsize: Dsize(g.dsize as u32) }
}

/// gadget sized so that its rows cover `size` limbs of radix `a_b` (trace / packing / row expansion: chains of key switches)
fn covering_gadget(cx: &mut Ctx, n: usize, size: usize, a_b: usize, rank: usize, max_dsize: usize) -> Gadget {
    let mut g = pick_gadget(cx, n, size, a_b, rank, max_dsize);
    let acs = conv_size(size, a_b, g.b);
    g.dnum = acs.div_ceil(g.dsize).clamp(1, 6);
    g.size = (g.dnum * g.dsize).max(g.dsize + 1) + cx.rs.below(2) as usize;
    g.k = g.size * g.b - cx.rs.below(g.b as u64) as usize;
    g
}

// ---------------------------------------------------------------------------------------------
// GGSW key switch / automorphism: column 0 of every row is key-switched, the other columns are rebuilt with the GGLWE-to-GGSW key
// ---------------------------------------------------------------------------------------------
fn arm_ggsw_ks(op: &'static str, cx: &mut Ctx) -> bool {
    let n = pick_n(cx);
    let module = cached_module(n);
    let rank = if cx.tiny { 1 } else { cx.rs.usize_in(1, 2) };
    let auto = op.starts_with("ggsw_automorphism");
    let assign = op.ends_with("_assign");
    let g_dsize = cx.rs.usize_in(1, 2);
    let a_size = cx.rs.usize_in(g_dsize + 1, if cx.tiny { 3 } else { 5 });
    let a_dnum = cx.rs.usize_in(1, (a_size / g_dsize).min(3));
    let probe = pick_gadget(cx, n, a_size, 8, rank, 3);
    let a_b = pick_ct_b(cx, probe.b, be_cap()).max(3);
    let mut kg = pick_gadget(cx, n, a_size, a_b, rank, 3);
    kg.b = probe.b;
    kg.k = kg.size * kg.b - cx.rs.below(kg.b as u64) as usize;
    let r_size = if assign { a_size } else { cx.rs.usize_in(g_dsize + 1, if cx.tiny { 3 } else { 5 }) };
    let r_dnum = if assign { a_dnum } else { cx.rs.usize_in(1, a_dnum.min(r_size / g_dsize)) };
    let tg = covering_gadget(cx, n, r_size, a_b, rank, 3);
    let p = if auto { pick_galois(&mut cx.rs, n) } else { 1 };
    cx.p("n", n);
    cx.p("rank", rank);
    cx.p("a_base2k", a_b);
    cx.p("a_size", a_size);
    cx.p("a_dnum", a_dnum);
    cx.p("ggsw_dsize", g_dsize);
    cx.p("res_size", r_size);
    cx.p("res_dnum", r_dnum);
    cx.p("galois", p);
    put_gadget(cx, "key", &kg);
    put_gadget(cx, "tsk", &tg);
    held_secret!(cx, module, n, rank, false => sk_in, _skp_in, _r1);
    held_secret!(cx, module, n, rank, false => sk_out, _skp_out, _r2);
    let tlay = tsk_lay(n, &tg, rank);
    owned_tsk!(cx, module, tlay, if auto { &sk_in } else { &sk_out } => _tsk, tprep);
    let a_lay = ggsw_lay(n, a_b, a_size * a_b, rank, a_dnum, g_dsize);
    let r_lay = ggsw_lay(n, a_b, r_size * a_b, rank, r_dnum, g_dsize);
    let a = rand_ggsw(cx, &a_lay);
    if auto {
        let klay = atk_lay(n, &kg, rank);
        held_atk!(cx, module, klay, p, &sk_in => _key, kprep, kref);
        let bytes = if assign { module.ggsw_automorphism_tmp_bytes(&a_lay, &a_lay, &klay, &tlay) } else { module.ggsw_automorphism_tmp_bytes(&r_lay, &a_lay, &klay, &tlay) };
        exec!(cx, bytes,
            dest = {
                dest_ggsw!(cx, r_lay => res, rref);
                if assign { for r in 0..a_dnum { for c in 0..=rank { res.at_mut(r, c).data_mut().raw_mut().copy_from_slice(a.at(r, c).data().raw()); } } }
            },
            call = |sc| if assign { module.ggsw_automorphism_assign(&mut res, &kprep, &tprep, sc) } else { module.ggsw_automorphism(&mut res, &a, &kprep, &tprep, sc) },
            ro = vec![("a", b_ggsw(&a)), ("key_prepared", rdk(kref))],
            out = rd(rref), guards = vec![rref]);
    } else {
        let klay = swk_lay(n, &kg, rank, rank);
        held_swk!(cx, module, klay, &sk_in, &sk_out => _key, kprep, kref);
        let bytes = if assign { module.ggsw_keyswitch_tmp_bytes(&a_lay, &a_lay, &klay, &tlay) } else { module.ggsw_keyswitch_tmp_bytes(&r_lay, &a_lay, &klay, &tlay) };
        exec!(cx, bytes,
            dest = {
                dest_ggsw!(cx, r_lay => res, rref);
                if assign { for r in 0..a_dnum { for c in 0..=rank { res.at_mut(r, c).data_mut().raw_mut().copy_from_slice(a.at(r, c).data().raw()); } } }
            },
            call = |sc| if assign { module.ggsw_keyswitch_assign(&mut res, &kprep, &tprep, sc) } else { module.ggsw_keyswitch(&mut res, &a, &kprep, &tprep, sc) },
            ro = vec![("a", b_ggsw(&a)), ("key_prepared", rdk(kref))],
            out = rd(rref), guards = vec![rref]);
    }
    true
}

// ---------------------------------------------------------------------------------------------
// trace, packing, packer: one automorphism key per Galois element of the trace
// ---------------------------------------------------------------------------------------------
fn arm_trace(op: &'static str, cx: &mut Ctx) -> bool {
    let n = if cx.tiny { 8 } else { *cx.rs.pick(&[8usize, 8, 16, 16, 32]) };
    let module = cached_module(n);
    let log_n = log2u(n);
    let rank = if cx.tiny { 1 } else { cx.rs.usize_in(1, 2) };
    let a_size = cx.rs.usize_in(2, if cx.tiny { 3 } else { 4 });
    let a_b_hint = cx.rs.usize_in(4, 20);
    let g = covering_gadget(cx, n, a_size, a_b_hint, rank, 4);
    let a_b = if cx.rs.coin() { g.b } else { a_b_hint };
    cx.p("n", n);
    cx.p("rank", rank);
    cx.p("a_base2k", a_b);
    cx.p("a_size", a_size);
    put_gadget(cx, "key", &g);
    let klay = atk_lay(n, &g, rank);
    held_secret!(cx, module, n, rank, false => sk, _skp, _skref);
    // one prepared key per Galois element, each inside its own guarded buffer; the map the API asks for borrows them
    let gal = module.glwe_trace_galois_elements();
    let mut helds: Vec<Held> = gal.iter().map(|_| Held::zeroed(module.glwe_automorphism_key_prepared_bytes_of_from_infos(&klay))).collect();
    let krefs: Vec<GuardRef> = helds.iter().map(|h| cx.guard(h)).collect();
    let mut keys: HashMap<i64, GLWEAutomorphismKeyPrepared<&mut [u8], BE>> = HashMap::new();
    for (h, &p) in helds.iter_mut().zip(&gal) {
        let enc = EncryptionLayout::new_from_default_sigma(klay).unwrap();
        let mut key = GLWEAutomorphismKey::alloc_from_infos(&klay);
        let mut sw = setup_scratch(module.glwe_automorphism_key_encrypt_sk_tmp_bytes(&klay));
        module.glwe_automorphism_key_encrypt_sk(&mut key, p, &sk, &enc, &mut Source::new(cx.rd.seed32()), &mut Source::new(cx.rd.seed32()), sw.scratch());
        let (mut prep, _) = h.sc().take_glwe_automorphism_key_prepared(module, &klay);
        let mut sw = setup_scratch(module.glwe_automorphism_key_prepare_tmp_bytes(&klay));
        module.glwe_automorphism_key_prepare(&mut prep, &key, sw.scratch());
        keys.insert(p, prep);
    }
    let keys_bytes = || -> Vec<u8> { krefs.iter().flat_map(|r| rdk(*r)).collect() };
    match op {
        "glwe_trace" | "glwe_trace_assign" => {
            let assign = op == "glwe_trace_assign";
            let skip = cx.rs.usize_in(0, log_n);
            let (r_b, r_size) = if assign { (a_b, a_size) } else { (if cx.rs.coin() { a_b } else { pick_ct_b(cx, g.b, 52) }, pick_size(cx, 5)) };
            cx.p("skip", skip);
            cx.p("res_base2k", r_b);
            cx.p("res_size", r_size);
            let a = rand_glwe(cx, n, a_b, a_size, rank);
            let lay_a = glwe_lay(n, a_b, a_size * a_b, rank);
            let lay_r = glwe_lay(n, r_b, r_size * r_b, rank);
            let bytes = if assign { module.glwe_trace_tmp_bytes(&lay_a, &lay_a, &klay) } else { module.glwe_trace_tmp_bytes(&lay_r, &lay_a, &klay) };
            exec!(cx, bytes,
                dest = {
                    dest_glwe!(cx, lay_r => res, rref);
                    if assign { res.data_mut().raw_mut().copy_from_slice(a.data().raw()); }
                },
                call = |sc| if assign { module.glwe_trace_assign(&mut res, skip, &keys, sc) } else { module.glwe_trace(&mut res, skip, &a, &keys, sc) },
                ro = vec![("a", b_glwe(&a)), ("keys_prepared", keys_bytes())],
                out = rd(rref), guards = vec![rref]);
        }
        "glwe_pack" => {
            let log_gap = cx.rs.usize_in(0, log_n.min(2));
            let gap = 1usize << log_gap;
            let mut slots: Vec<usize> = (0..n / gap).map(|j| j * gap).filter(|_| cx.rs.below(3) != 0).collect();
            if slots.is_empty() {
                slots.push(gap * cx.rs.below((n / gap) as u64) as usize);
            }
            let (r_b, r_size) = if cx.rs.coin() { (a_b, a_size) } else { (pick_ct_b(cx, g.b, 52), cx.rs.usize_in(2, 4)) };
            cx.p("log_gap_out", log_gap);
            cx.p("slots", slots.iter().map(|x| *x as i64).collect::<Vec<i64>>());
            cx.p("res_base2k", r_b);
            cx.p("res_size", r_size);
            let template: Vec<GLWE<Vec<u8>>> = slots.iter().map(|_| rand_glwe(cx, n, a_b, a_size, rank)).collect();
            let lay_ct = glwe_lay(n, a_b, a_size * a_b, rank);
            let lay_r = glwe_lay(n, r_b, r_size * r_b, rank);
            let bytes = module.glwe_pack_tmp_bytes(&lay_r, &klay).max(module.glwe_pack_tmp_bytes(&lay_ct, &klay));
            // the inputs are consumed (`&mut`): they are part of the output here
            exec!(cx, bytes,
                dest = {
                    dest_glwe!(cx, lay_r => res, rref);
                    let mut cts = template.clone();
                },
                call = |sc| {
                    let mut map: HashMap<usize, &mut GLWE<Vec<u8>>> = HashMap::new();
                    for (t, ct) in cts.iter_mut().enumerate() {
                        map.insert(slots[t], ct);
                    }
                    module.glwe_pack(&mut res, map, log_gap, &keys, sc)
                },
                ro = vec![("keys_prepared", keys_bytes())],
                out = { let mut v = rd(rref); for ct in &cts { v.extend(b_glwe(ct)); } v }, guards = vec![rref]);
        }
        _ => {
            let log_batch = cx.rs.usize_in(0, (log_n - 1).min(2));
            let count = n >> log_batch;
            let (r_b, r_size) = if cx.rs.coin() { (a_b, a_size) } else { (pick_ct_b(cx, g.b, 52), cx.rs.usize_in(2, 4)) };
            let inputs: Vec<Option<GLWE<Vec<u8>>>> = (0..count).map(|_| if cx.rs.below(3) != 0 { Some(rand_glwe(cx, n, a_b, a_size, rank)) } else { None }).collect();
            cx.p("log_batch", log_batch);
            cx.p("present", inputs.iter().map(|x| x.is_some() as i64).collect::<Vec<i64>>());
            cx.p("res_base2k", r_b);
            cx.p("res_size", r_size);
            let lay_ct = glwe_lay(n, a_b, a_size * a_b, rank);
            let lay_r = glwe_lay(n, r_b, r_size * r_b, rank);
            let bytes = poulpy_core::glwe_packer_tmp_bytes(module, &lay_ct, &klay);
            exec!(cx, bytes,
                dest = { dest_glwe!(cx, lay_r => res, rref); },
                call = |sc| {
                    let mut packer = poulpy_core::GLWEPacker::alloc(&lay_ct, log_batch);
                    for inp in inputs.iter() {
                        poulpy_core::glwe_packer_add(module, &mut packer, inp.as_ref(), &keys, sc);
                    }
                    poulpy_core::glwe_packer_flush(module, &mut packer, &mut res, sc);
                },
                ro = vec![("inputs", inputs.iter().flatten().flat_map(b_glwe).collect()), ("keys_prepared", keys_bytes())],
                out = rd(rref), guards = vec![rref]);
        }
    }
    true
}

fn arm4(op: &'static str, cx: &mut Ctx) -> bool {
    match op {
        "glwe_external_product" | "glwe_external_product_assign" | "gglwe_external_product" | "gglwe_external_product_assign" | "ggsw_external_product"
        | "ggsw_external_product_assign" | "cmux" | "cmux_assign" | "cmux_assign_neg" | "cswap" => arm_xp(op, cx),
        "ggsw_from_gglwe" => arm_ggsw_from_gglwe(op, cx),
        _ => arm5(op, cx),
    }
}

// ---------------------------------------------------------------------------------------------
// external products and CMux (shapes as in props/c04.rs)
// ---------------------------------------------------------------------------------------------
fn arm_xp(op: &'static str, cx: &mut Ctx) -> bool {
    let n = pick_n(cx);
    let module = cached_module(n);
    let rank = pick_rank(cx);
    let dsize = *cx.rs.pick(&[1usize, 1, 2, 2, 3, 3, 4]);
    let size = dsize + 1 + cx.rs.below(if cx.tiny { 3 } else { 6 }) as usize;
    let dnum_max = size / dsize;
    let dnum = match cx.rs.below(4) {
        0 => 1,
        1 => dnum_max,
        _ => cx.rs.usize_in(1, dnum_max),
    };
    let hi = max_base2k(n, (rank + 1) * dnum, 1, be_cap());
    let b = match cx.rs.below(4) {
        0 => hi,
        _ => cx.rs.usize_in(4.min(hi), hi),
    };
    let k = pick_k(&mut cx.rs, b, size).max((dnum * dsize - 1) * b + 1).max(dsize * b + 1);
    let lay = ggsw_lay(n, b, k, rank, dnum, dsize);
    cx.p("n", n);
    cx.p("rank", rank);
    cx.p("ggsw_base2k", b);
    cx.p("ggsw_k", k);
    cx.p("dnum", dnum);
    cx.p("dsize", dsize);
    held_secret!(cx, module, n, rank, false => _sk, skp, _skref);
    held_ggsw!(cx, module, lay, &skp => _ggsw, gprep, gref);
    let in_cap = if IS_FFT64 { max_base2k(n, rank, 0, 26) } else { 52 };
    let inplace = op.ends_with("_assign");
    match op {
        "glwe_external_product" | "glwe_external_product_assign" => {
            let a_b = match cx.rs.below(3) {
                0 => b,
                _ => cx.rs.usize_in(4, in_cap),
            };
            let a_size = pick_size(cx, 5);
            let (r_b, r_size) = if inplace { (a_b, a_size) } else { (if cx.rs.coin() { a_b } else { cx.rs.usize_in(4, be_cap()) }, pick_size(cx, 6)) };
            cx.p("a_base2k", a_b);
            cx.p("a_size", a_size);
            cx.p("res_base2k", r_b);
            cx.p("res_size", r_size);
            let a = rand_glwe(cx, n, a_b, a_size, rank);
            let a_lay = glwe_lay(n, a_b, a_size * a_b, rank);
            let r_lay = glwe_lay(n, r_b, r_size * r_b, rank);
            let bytes = if inplace { module.glwe_external_product_tmp_bytes(&a_lay, &a_lay, &lay) } else { module.glwe_external_product_tmp_bytes(&r_lay, &a_lay, &lay) };
            exec!(cx, bytes,
                dest = {
                    dest_glwe!(cx, r_lay => res, rref);
                    if inplace { res.data_mut().raw_mut().copy_from_slice(a.data().raw()); }
                },
                call = |sc| if inplace { module.glwe_external_product_assign(&mut res, &gprep, sc) } else { module.glwe_external_product(&mut res, &a, &gprep, sc) },
                ro = vec![("a", b_glwe(&a)), ("ggsw_prepared", rdk(gref))],
                out = rd(rref), guards = vec![rref]);
        }
        "cswap" => {
            // conditional swap of two ciphertexts (bin-fhe `Cswap`): both are inputs and outputs; all radices agree
            let a_size = pick_size(cx, 5);
            let b_size = if cx.rs.below(3) == 0 { pick_size(cx, 5) } else { a_size };
            cx.p("a_size", a_size);
            cx.p("b_size", b_size);
            // both ciphertexts share one radix, which differs from the selector's in a third of the cases
            let ct_b = if cx.rs.below(3) == 0 { cx.rs.usize_in(4, in_cap) } else { b };
            cx.p("ct_base2k", ct_b);
            let a = rand_glwe(cx, n, ct_b, a_size, rank);
            let bb = rand_glwe(cx, n, ct_b, b_size, rank);
            let (a_lay, b_lay) = (glwe_lay(n, ct_b, a_size * ct_b, rank), glwe_lay(n, ct_b, b_size * ct_b, rank));
            let bytes = module.cswap_tmp_bytes(&a_lay, &b_lay, &lay);
            exec!(cx, bytes,
                dest = {
                    let mut ha = cx.dest(GLWE::<Vec<u8>>::bytes_of_from_infos(&a_lay));
                    let aref = ha.g.raw_ref();
                    let (mut ra, _) = ha.sc().take_glwe(&a_lay);
                    let mut hb = cx.dest(GLWE::<Vec<u8>>::bytes_of_from_infos(&b_lay));
                    let bref = hb.g.raw_ref();
                    let (mut rb, _) = hb.sc().take_glwe(&b_lay);
                    ra.data_mut().raw_mut().copy_from_slice(a.data().raw());
                    rb.data_mut().raw_mut().copy_from_slice(bb.data().raw());
                },
                call = |sc| module.cswap(&mut ra, &mut rb, &gprep, sc),
                ro = vec![("ggsw_prepared", rdk(gref))],
                out = { let mut v = rd(aref); v.extend(rd(bref)); v }, guards = vec![aref, bref]);
        }
        "cmux" | "cmux_assign" | "cmux_assign_neg" => {
            // all radices agree (glwe_sub + product + add_small of f)
            let t_size = pick_size(cx, 5);
            let f_size = if cx.rs.below(3) == 0 { pick_size(cx, 5) } else { t_size };
            let r_size = match op {
                "cmux" => if cx.rs.below(3) == 0 { pick_size(cx, 6) } else { t_size.max(f_size) },
                "cmux_assign" => t_size,
                _ => f_size,
            };
            cx.p("t_size", t_size);
            cx.p("f_size", f_size);
            cx.p("res_size", r_size);
            let t = rand_glwe(cx, n, b, t_size, rank);
            let f = rand_glwe(cx, n, b, f_size, rank);
            let (t_lay, f_lay, r_lay) = (glwe_lay(n, b, t_size * b, rank), glwe_lay(n, b, f_size * b, rank), glwe_lay(n, b, r_size * b, rank));
            let bytes = match op {
                "cmux" => module.cmux_tmp_bytes(&r_lay, &r_lay, &lay),
                "cmux_assign" => module.cmux_tmp_bytes(&t_lay, &t_lay, &lay),
                _ => {
                    // no companion query: the temporary (a - res) is taken on top of what cmux_tmp_bytes declares for `cmux`
                    let tmp_lay = glwe_lay(n, b, t_size.max(f_size) * b, rank);
                    cx.desc.put("scratch_query", "cmux_tmp_bytes(res, tmp, ggsw) + bytes_of(tmp GLWE) (cmux_assign_neg has no companion query)");
                    module.cmux_tmp_bytes(&f_lay, &tmp_lay, &lay) + GLWE::<Vec<u8>>::bytes_of_from_infos(&tmp_lay)
                }
            };
            exec!(cx, bytes,
                dest = {
                    dest_glwe!(cx, r_lay => res, rref);
                    if op == "cmux_assign" { res.data_mut().raw_mut().copy_from_slice(t.data().raw()); }
                    if op == "cmux_assign_neg" { res.data_mut().raw_mut().copy_from_slice(f.data().raw()); }
                },
                call = |sc| match op {
                    "cmux" => module.cmux(&mut res, &t, &f, &gprep, sc),
                    "cmux_assign" => module.cmux_assign(&mut res, &f, &gprep, sc),
                    _ => module.cmux_assign_neg(&mut res, &t, &gprep, sc),
                },
                ro = vec![("t", b_glwe(&t)), ("f", b_glwe(&f)), ("ggsw_prepared", rdk(gref))],
                out = rd(rref), guards = vec![rref]);
        }
        _ => {
            // GGSW x GGSW and GGLWE x GGSW: the product is applied to every cell
            let gg = op.starts_with("gglwe");
            let a_b = match cx.rs.below(3) {
                0 => b,
                _ => cx.rs.usize_in(4, in_cap),
            };
            let a_dsize = cx.rs.usize_in(1, 2);
            let a_size = a_dsize + cx.rs.usize_in(1, if cx.tiny { 2 } else { 3 });
            let a_dnum = cx.rs.usize_in(1, a_size / a_dsize);
            let rank_in = pick_rank(cx);
            let (r_size, r_dnum) = if inplace {
                (a_size, a_dnum)
            } else {
                let s = a_dsize + cx.rs.usize_in(1, if cx.tiny { 2 } else { 4 });
                (s, cx.rs.usize_in(1, s / a_dsize))
            };
            cx.p("a_base2k", a_b);
            cx.p("a_size", a_size);
            cx.p("a_dnum", a_dnum);
            cx.p("a_dsize", a_dsize);
            cx.p("res_size", r_size);
            cx.p("res_dnum", r_dnum);
            if gg {
                cx.p("a_rank_in", rank_in);
                let a_lay = gglwe_lay(n, a_b, a_size * a_b, rank_in, rank, a_dnum, a_dsize);
                let r_lay = gglwe_lay(n, a_b, r_size * a_b, rank_in, rank, r_dnum, a_dsize);
                let a = rand_gglwe(cx, &a_lay);
                let bytes = if inplace { module.gglwe_external_product_tmp_bytes(&a_lay, &a_lay, &lay) } else { module.gglwe_external_product_tmp_bytes(&r_lay, &a_lay, &lay) };
                exec!(cx, bytes,
                    dest = { let mut res = if inplace { a.clone() } else { let mut r = GGLWE::alloc_from_infos(&r_lay); garbage_gglwe(cx, &mut r); r }; },
                    call = |sc| if inplace { module.gglwe_external_product_assign(&mut res, &gprep, sc) } else { module.gglwe_external_product(&mut res, &a, &gprep, sc) },
                    ro = vec![("a", b_gglwe(&a)), ("ggsw_prepared", rdk(gref))],
                    out = b_gglwe(&res), guards = vec![]);
            } else {
                let a_lay = ggsw_lay(n, a_b, a_size * a_b, rank, a_dnum, a_dsize);
                let r_lay = ggsw_lay(n, a_b, r_size * a_b, rank, r_dnum, a_dsize);
                let a = rand_ggsw(cx, &a_lay);
                let bytes = if inplace { module.ggsw_external_product_tmp_bytes(&a_lay, &a_lay, &lay) } else { module.ggsw_external_product_tmp_bytes(&r_lay, &a_lay, &lay) };
                exec!(cx, bytes,
                    dest = {
                        dest_ggsw!(cx, r_lay => res, rref);
                        if inplace { for r in 0..a_dnum { for c in 0..=rank { res.at_mut(r, c).data_mut().raw_mut().copy_from_slice(a.at(r, c).data().raw()); } } }
                    },
                    call = |sc| if inplace { module.ggsw_external_product_assign(&mut res, &gprep, sc) } else { module.ggsw_external_product(&mut res, &a, &gprep, sc) },
                    ro = vec![("a", b_ggsw(&a)), ("ggsw_prepared", rdk(gref))],
                    out = rd(rref), guards = vec![rref]);
            }
        }
    }
    true
}

fn arm_ggsw_from_gglwe(_op: &'static str, cx: &mut Ctx) -> bool {
    let n = pick_n(cx);
    let module = cached_module(n);
    let rank = pick_rank(cx);
    let cap = if IS_FFT64 { max_base2k(n, rank, 0, 26) } else { 52 };
    let a_b = cx.rs.usize_in(5.min(cap), cap);
    let a_dsize = cx.rs.usize_in(1, 2);
    let a_size = a_dsize + cx.rs.usize_in(1, if cx.tiny { 2 } else { 3 });
    let a_dnum = cx.rs.usize_in(1, a_size / a_dsize);
    let r_size = match cx.rs.below(4) {
        0 if a_size > a_dnum * a_dsize && a_size - 1 > a_dsize => a_size - 1,
        1 => a_size + 1,
        _ => a_size,
    };
    let tg = covering_gadget(cx, n, a_size, a_b, rank, 3);
    cx.p("n", n);
    cx.p("rank", rank);
    cx.p("a_base2k", a_b);
    cx.p("a_size", a_size);
    cx.p("a_dnum", a_dnum);
    cx.p("a_dsize", a_dsize);
    cx.p("res_size", r_size);
    put_gadget(cx, "tsk", &tg);
    held_secret!(cx, module, n, rank, false => sk, _skp, _skref);
    let tlay = tsk_lay(n, &tg, rank);
    owned_tsk!(cx, module, tlay, &sk => _tsk, tprep);
    let a_lay = gglwe_lay(n, a_b, a_size * a_b, 1, rank, a_dnum, a_dsize);
    let r_lay = ggsw_lay(n, a_b, r_size * a_b, rank, a_dnum, a_dsize);
    let a = rand_gglwe(cx, &a_lay);
    let bytes = module.ggsw_from_gglwe_tmp_bytes(&r_lay, &tlay);
    exec!(cx, bytes,
        dest = { dest_ggsw!(cx, r_lay => res, rref); },
        call = |sc| module.ggsw_from_gglwe(&mut res, &a, &tprep, sc),
        ro = vec![("a", b_gglwe(&a))],
        out = rd(rref), guards = vec![rref]);
    true
}

fn arm5(op: &'static str, cx: &mut Ctx) -> bool {
    match op {
        "glwe_mul_plain" | "glwe_mul_plain_assign" | "glwe_mul_const" | "glwe_mul_const_assign" | "glwe_tensor_apply" | "glwe_tensor_square_apply"
        | "glwe_tensor_apply_add_assign" | "glwe_tensor_relinearize" | "glwe_tensor_decrypt" => arm_mul(op, cx),
        _ => arm6(op, cx),
    }
}

/// every limb multiple up to (a_size+b_size)*b and the intra-limb remainders 1, b/2, b-1 (cnv_offset is in bits)
fn cnv_offsets(a_size: usize, b_size: usize, b: usize) -> Vec<usize> {
    let max = (a_size + b_size) * b;
    let mut v = Vec::new();
    for q in 0..=(a_size + b_size) {
        for r in [0usize, 1, b / 2, b - 1] {
            let o = q * b + r;
            if o <= max && r < b {
                v.push(o);
            }
        }
    }
    v.sort_unstable();
    v.dedup();
    v
}
fn pick_res_radix(rs: &mut Rng, b: usize) -> usize {
    let cap = be_cap();
    match rs.below(5) {
        0..=2 => b,
        3 => (b + 1 + rs.below(3) as usize).min(cap.max(b)),
        _ => b.saturating_sub(1 + rs.below(3) as usize).max(3),
    }
}

// ---------------------------------------------------------------------------------------------
// plaintext / constant / tensor products and relinearisation (shapes as in props/c05.rs)
// ---------------------------------------------------------------------------------------------
fn arm_mul(op: &'static str, cx: &mut Ctx) -> bool {
    let n = if cx.tiny { 8 } else { *cx.rs.pick(&[8usize, 8, 16, 16, 32]) };
    let module = cached_module(n);
    let rank = if cx.tiny { 1 } else if cx.rs.below(8) == 0 { 3 } else { cx.rs.usize_in(1, 2) };
    let cap = if IS_FFT64 { 24 } else { 52 };
    let hi_b = max_base2k(n, 4, 2, cap);
    let b = match cx.rs.below(5) {
        0 => hi_b,
        1 => hi_b - 1,
        2 => cx.rs.usize_in(4, 8).min(hi_b),
        _ => cx.rs.usize_in(4, hi_b),
    };
    let a_size = pick_size(cx, 4);
    let a_k = pick_k(&mut cx.rs, b, a_size);
    cx.p("n", n);
    cx.p("rank", rank);
    cx.p("base2k", b);
    cx.p("a_k", a_k);
    let a_lay = glwe_lay(n, b, a_k, rank);
    let a = rand_glwe_lay(cx, &a_lay);
    let inplace = op.ends_with("_assign") && op != "glwe_tensor_apply_add_assign";
    match op {
        "glwe_mul_plain" | "glwe_mul_plain_assign" | "glwe_mul_const" | "glwe_mul_const_assign" => {
            let is_const = op.contains("const");
            let p_size = cx.rs.usize_in(1, if cx.tiny { 2 } else { 3 });
            let p_k = pick_k(&mut cx.rs, b, p_size);
            let ptb = rand_pt(cx, n, b, p_k);
            let cst: Vec<i64> = (0..p_size).map(|_| cx.rd.signed_bits(b)).collect();
            let res_b = pick_res_radix(&mut cx.rs, b);
            let res_size = cx.rs.usize_in(1, a_size + p_size + 2);
            let res_k = pick_k(&mut cx.rs, res_b, res_size);
            let cnv = *cx.rs.pick(&cnv_offsets(a_size, p_size, b));
            cx.p("b_size", p_size);
            cx.p("b_k", p_k);
            cx.p("res_base2k", if inplace { b } else { res_b });
            cx.p("res_k", if inplace { a_k } else { res_k });
            cx.p("cnv_offset", cnv);
            let r_lay = if inplace { a_lay } else { glwe_lay(n, res_b, res_k, rank) };
            let bytes = if is_const { module.glwe_mul_const_tmp_bytes(&r_lay, &a_lay, p_size) } else { module.glwe_mul_plain_tmp_bytes(&r_lay, &a_lay, &ptb) };
            exec!(cx, bytes,
                dest = {
                    dest_glwe!(cx, r_lay => res, rref);
                    if inplace { res.data_mut().raw_mut().copy_from_slice(a.data().raw()); }
                },
                call = |sc| match op {
                    "glwe_mul_plain" => module.glwe_mul_plain(cnv, &mut res, &a, a_k, &ptb, p_k, sc),
                    "glwe_mul_plain_assign" => module.glwe_mul_plain_assign(cnv, &mut res, a_k, &ptb, p_k, sc),
                    "glwe_mul_const" => module.glwe_mul_const(cnv, &mut res, &a, &cst, sc),
                    _ => module.glwe_mul_const_assign(cnv, &mut res, &cst, sc),
                },
                ro = vec![("a", b_glwe(&a)), ("b", i64_bytes(ptb.data().raw()))],
                out = rd(rref), guards = vec![rref]);
        }
        "glwe_tensor_apply" | "glwe_tensor_square_apply" | "glwe_tensor_apply_add_assign" => {
            let square = op == "glwe_tensor_square_apply";
            let b_size = if square { a_size } else { pick_size(cx, 4) };
            let b_k = if square { a_k } else { pick_k(&mut cx.rs, b, b_size) };
            let b_lay = glwe_lay(n, b, b_k, rank);
            let bo = rand_glwe_lay(cx, &b_lay);
            let res_b = pick_res_radix(&mut cx.rs, b);
            let res_size = cx.rs.usize_in(1, a_size + b_size + 2);
            let res_k = pick_k(&mut cx.rs, res_b, res_size);
            let cnv = *cx.rs.pick(&cnv_offsets(a_size, b_size, b));
            cx.p("b_k", b_k);
            cx.p("res_base2k", res_b);
            cx.p("res_k", res_k);
            cx.p("cnv_offset", cnv);
            let t_lay = glwe_lay(n, res_b, res_k, rank);
            let acc_bits = res_b.min(40);
            let bytes = if square { module.glwe_tensor_square_apply_tmp_bytes(&t_lay, &a_lay) } else { module.glwe_tensor_apply_tmp_bytes(&t_lay, &a_lay, &b_lay) };
            let mut acc0: GLWETensor<Vec<u8>> = GLWETensor::alloc_from_infos(&t_lay);
            fill_digits(acc0.data_mut().raw_mut(), n, acc_bits, 0, &mut cx.rd);
            exec!(cx, bytes,
                dest = {
                    let mut hres = cx.dest(GLWETensor::<Vec<u8>>::bytes_of_from_infos(&t_lay));
                    let rref = hres.g.raw_ref();
                    let (mut res, _) = hres.sc().take_glwe_tensor(&t_lay);
                    if op == "glwe_tensor_apply_add_assign" { res.data_mut().raw_mut().copy_from_slice(acc0.data().raw()); }
                },
                call = |sc| match op {
                    "glwe_tensor_apply" => module.glwe_tensor_apply(cnv, &mut res, &a, a_k, &bo, b_k, sc),
                    "glwe_tensor_square_apply" => module.glwe_tensor_square_apply(cnv, &mut res, &a, a_k, sc),
                    _ => module.glwe_tensor_apply_add_assign(cnv, &mut res, &a, a_k, &bo, b_k, sc),
                },
                ro = vec![("a", b_glwe(&a)), ("b", b_glwe(&bo))],
                out = rd(rref), guards = vec![rref]);
        }
        _ => {
            // relinearise / decrypt a tensor (random normalised limbs in the tensor's radix)
            let res_b = pick_res_radix(&mut cx.rs, b);
            let res_size = cx.rs.usize_in(1, if cx.tiny { 3 } else { 2 * a_size + 2 });
            let res_k = pick_k(&mut cx.rs, res_b, res_size);
            let t_lay = glwe_lay(n, res_b, res_k, rank);
            let mut t: GLWETensor<Vec<u8>> = GLWETensor::alloc_from_infos(&t_lay);
            let class = cx.rd.below(8);
            fill_digits(t.data_mut().raw_mut(), n, res_b, class, &mut cx.rd);
            cx.p("res_base2k", res_b);
            cx.p("res_k", res_k);
            held_secret!(cx, module, n, rank, false => sk, skp, skref);
            if op == "glwe_tensor_decrypt" {
                let mut skt: GLWESecretTensor<Vec<u8>> = GLWESecretTensor::alloc(Degree(n as u32), Rank(rank as u32));
                let mut sw = setup_scratch(module.glwe_secret_tensor_prepare_tmp_bytes(Rank(rank as u32)));
                module.glwe_secret_tensor_prepare(&mut skt, &sk, sw.scratch());
                let mut skt_prep = module.glwe_secret_tensor_prepared_alloc(Rank(rank as u32));
                module.glwe_secret_tensor_prepared_prepare(&mut skt_prep, &skt);
                let bytes = module.glwe_tensor_decrypt_tmp_bytes(&t_lay);
                exec!(cx, bytes,
                    dest = {
                        let mut out_pt: GLWEPlaintext<Vec<u8>> = GLWEPlaintext::alloc_from_infos(&t_lay);
                        for x in out_pt.data_mut().raw_mut().iter_mut() { *x = cx.rf.next_i64(); }
                    },
                    call = |sc| module.glwe_tensor_decrypt(&t, &mut out_pt, &skp, &skt_prep, sc),
                    ro = vec![("tensor", i64_bytes(t.data().raw())), ("sk_prepared", rdk(skref))],
                    out = i64_bytes(out_pt.data().raw()), guards = vec![]);
                return true;
            }
            let t_dsize = cx.rs.usize_in(1, 3);
            let pairs = rank * (rank + 1) / 2;
            let want_bits = res_size * res_b;
            let mut kb = match cx.rs.below(3) {
                0 => res_b.min(cap),
                _ => cx.rs.usize_in(5, cap),
            };
            let mut k_dnum;
            loop {
                k_dnum = want_bits.div_ceil(kb * t_dsize).clamp(1, 10);
                let hi = max_base2k(n, pairs * k_dnum, 2, cap);
                if kb <= hi {
                    break;
                }
                kb = hi;
            }
            if cx.rs.below(5) == 0 {
                k_dnum = k_dnum.saturating_sub(1).max(1);
            }
            let k_size = k_dnum * t_dsize + cx.rs.usize_in(1, 2);
            let k_k = pick_k(&mut cx.rs, kb, k_size).max((k_size - 1) * kb + 1);
            let k_lay = GLWETensorKeyLayout { n: Degree(n as u32), base2k: Base2K(kb as u32), k: TorusPrecision(k_k as u32), rank: Rank(rank as u32), dnum: Dnum(k_dnum as u32), dsize: Dsize(t_dsize as u32) };
            let rl_b = match cx.rs.below(3) {
                0 => kb,
                1 => res_b,
                _ => pick_res_radix(&mut cx.rs, res_b),
            };
            let rl_size = cx.rs.usize_in(1, res_size + 1);
            let rl_k = pick_k(&mut cx.rs, rl_b, rl_size);
            let rl_lay = glwe_lay(n, rl_b, rl_k, rank);
            cx.p("tsk_base2k", kb);
            cx.p("tsk_k", k_k);
            cx.p("tsk_dnum", k_dnum);
            cx.p("tsk_dsize", t_dsize);
            cx.p("relin_base2k", rl_b);
            cx.p("relin_k", rl_k);
            let mut tsk: GLWETensorKey<Vec<u8>> = GLWETensorKey::alloc_from_infos(&k_lay);
            {
                let enc = EncryptionLayout::new_from_default_sigma(k_lay).unwrap();
                let mut sw = setup_scratch(module.glwe_tensor_key_encrypt_sk_tmp_bytes(&k_lay));
                module.glwe_tensor_key_encrypt_sk(&mut tsk, &sk, &enc, &mut Source::new(cx.rd.seed32()), &mut Source::new(cx.rd.seed32()), sw.scratch());
            }
            // the take helper derives the pair count itself from a layout with rank_in == rank_out
            let take_lay = gglwe_lay(n, kb, k_k, rank, rank, k_dnum, t_dsize);
            let mut hk = Held::zeroed(module.bytes_of_tensor_key_prepared_from_infos(&k_lay));
            let kref = cx.guard(&hk);
            let (mut tprep, _) = hk.sc().take_glwe_tensor_key_prepared(module, &take_lay);
            {
                let mut sw = setup_scratch(module.prepare_tensor_key_tmp_bytes(&k_lay));
                module.prepare_tensor_key(&mut tprep, &tsk, sw.scratch());
            }
            let size_arg = tprep.size();
            let bytes = module.glwe_tensor_relinearize_tmp_bytes(&rl_lay, &t_lay, &k_lay);
            exec!(cx, bytes,
                dest = { dest_glwe!(cx, rl_lay => res, rref); },
                call = |sc| module.glwe_tensor_relinearize(&mut res, &t, &tprep, size_arg, sc),
                ro = vec![("tensor", i64_bytes(t.data().raw())), ("tsk_prepared", rdk(kref))],
                out = rd(rref), guards = vec![rref]);
        }
    }
    true
}

fn arm6(op: &'static str, cx: &mut Ctx) -> bool {
    match op {
        "glwe_switching_key_prepare" | "glwe_automorphism_key_prepare" | "prepare_tensor_key" | "gglwe_to_ggsw_key_prepare" | "ggsw_prepare" | "gglwe_prepare"
        | "lwe_switching_key_prepare" | "lwe_to_glwe_key_prepare" | "glwe_to_lwe_key_prepare" | "glwe_secret_tensor_prepare" | "glwe_switching_key_encrypt_sk"
        | "glwe_automorphism_key_encrypt_sk" | "glwe_tensor_key_encrypt_sk" | "gglwe_to_ggsw_key_encrypt_sk" | "lwe_switching_key_encrypt_sk"
        | "glwe_to_lwe_key_encrypt_sk" | "lwe_to_glwe_key_encrypt_sk" => arm_keys(op, cx),
        _ => arm7(op, cx),
    }
}

fn garbage_key<K: GGLWEToMut>(cx: &mut Ctx, k: &mut K) {
    let mut g = k.to_mut();
    for x in g.data_mut().raw_mut().iter_mut() {
        *x = cx.rf.next_i64();
    }
}

// ---------------------------------------------------------------------------------------------
// key material: `*_encrypt_sk` (destination = the key) and `*_prepare` (destination = the prepared key, inside a guarded buffer)
// ---------------------------------------------------------------------------------------------
fn arm_keys(op: &'static str, cx: &mut Ctx) -> bool {
    let n = pick_n(cx);
    let module = cached_module(n);
    let rank = pick_rank(cx);
    let prepare = op.contains("prepare");
    cx.p("n", n);
    cx.p("rank", rank);
    if op == "glwe_secret_tensor_prepare" {
        held_secret!(cx, module, n, rank, false => sk, _skp, _skref);
        let bytes = module.glwe_secret_tensor_prepare_tmp_bytes(Rank(rank as u32));
        exec!(cx, bytes,
            dest = {
                let mut hres = cx.dest(GLWESecretTensor::<Vec<u8>>::bytes_of(Degree(n as u32), Rank(rank as u32)));
                let rref = hres.g.raw_ref();
                let (mut res, _) = hres.sc().take_glwe_secret_tensor(Degree(n as u32), Rank(rank as u32));
            },
            call = |sc| module.glwe_secret_tensor_prepare(&mut res, &sk, sc),
            ro = vec![],
            out = rd(rref), guards = vec![rref]);
        return true;
    }
    let lwe_kind = op.starts_with("lwe_") || op.starts_with("glwe_to_lwe");
    let rank_in = if op.starts_with("glwe_switching") || op == "gglwe_prepare" { pick_rank(cx) } else { rank };
    let a_size = pick_size(cx, 5);
    let mut g = pick_gadget(cx, n, a_size, 8, rank_in.max(rank), if lwe_kind { 1 } else { 4 });
    if op == "ggsw_prepare" {
        // a GGSW needs size > dsize and dnum * dsize <= size as well: already guaranteed by pick_gadget
        g.dnum = g.dnum.min(g.size / g.dsize).max(1);
    }
    put_gadget(cx, "key", &g);
    cx.p("rank_in", rank_in);
    let (s1, s2) = (cx.rd.seed32(), cx.rd.seed32());
    held_secret!(cx, module, n, rank, false => sk, skp, skref);
    match op {
        "glwe_switching_key_encrypt_sk" | "glwe_switching_key_prepare" => {
            let lay = swk_lay(n, &g, rank_in, rank);
            let Ok(enc) = EncryptionLayout::new_from_default_sigma(lay) else { return false };
            held_secret!(cx, module, n, rank_in, false => sk_in, _skp_in, _r_in);
            if prepare {
                let mut key = GLWESwitchingKey::alloc_from_infos(&lay);
                let mut sw = setup_scratch(module.glwe_switching_key_encrypt_sk_tmp_bytes(&lay));
                module.glwe_switching_key_encrypt_sk(&mut key, &sk_in, &sk, &enc, &mut Source::new(s1), &mut Source::new(s2), sw.scratch());
                let bytes = module.glwe_switching_key_prepare_tmp_bytes(&lay);
                exec!(cx, bytes,
                    dest = {
                        let mut hres = cx.dest(module.glwe_switching_key_prepared_bytes_of_from_infos(&lay));
                        let rref = hres.g.raw_ref();
                        let (mut res, _) = hres.sc().take_glwe_switching_key_prepared(module, &lay);
                    },
                    call = |sc| module.glwe_switching_key_prepare(&mut res, &key, sc),
                    ro = vec![("key", b_gglwe(&key))],
                    out = rd(rref), guards = vec![rref]);
            } else {
                let bytes = module.glwe_switching_key_encrypt_sk_tmp_bytes(&lay);
                exec!(cx, bytes,
                    dest = { let mut res = GLWESwitchingKey::alloc_from_infos(&lay); garbage_key(cx, &mut res); let (mut xe, mut xa) = (Source::new(s1), Source::new(s2)); },
                    call = |sc| module.glwe_switching_key_encrypt_sk(&mut res, &sk_in, &sk, &enc, &mut xe, &mut xa, sc),
                    ro = vec![("sk_out_prepared", rdk(skref))],
                    out = b_gglwe(&res), guards = vec![]);
            }
        }
        "glwe_automorphism_key_encrypt_sk" | "glwe_automorphism_key_prepare" => {
            let lay = atk_lay(n, &g, rank);
            let Ok(enc) = EncryptionLayout::new_from_default_sigma(lay) else { return false };
            let p = pick_galois(&mut cx.rs, n);
            cx.p("galois", p);
            if prepare {
                let mut key = GLWEAutomorphismKey::alloc_from_infos(&lay);
                let mut sw = setup_scratch(module.glwe_automorphism_key_encrypt_sk_tmp_bytes(&lay));
                module.glwe_automorphism_key_encrypt_sk(&mut key, p, &sk, &enc, &mut Source::new(s1), &mut Source::new(s2), sw.scratch());
                let bytes = module.glwe_automorphism_key_prepare_tmp_bytes(&lay);
                exec!(cx, bytes,
                    dest = {
                        let mut hres = cx.dest(module.glwe_automorphism_key_prepared_bytes_of_from_infos(&lay));
                        let rref = hres.g.raw_ref();
                        let (mut res, _) = hres.sc().take_glwe_automorphism_key_prepared(module, &lay);
                    },
                    call = |sc| module.glwe_automorphism_key_prepare(&mut res, &key, sc),
                    ro = vec![("key", b_gglwe(&key))],
                    out = { let mut v = rd(rref); v.extend(res.p().to_le_bytes()); v }, guards = vec![rref]);
            } else {
                let bytes = module.glwe_automorphism_key_encrypt_sk_tmp_bytes(&lay);
                exec!(cx, bytes,
                    dest = { let mut res = GLWEAutomorphismKey::alloc_from_infos(&lay); garbage_key(cx, &mut res); let (mut xe, mut xa) = (Source::new(s1), Source::new(s2)); },
                    call = |sc| module.glwe_automorphism_key_encrypt_sk(&mut res, p, &sk, &enc, &mut xe, &mut xa, sc),
                    ro = vec![("sk_prepared", rdk(skref))],
                    out = { let mut v = b_gglwe(&res); v.extend(res.p().to_le_bytes()); v }, guards = vec![]);
            }
        }
        "glwe_tensor_key_encrypt_sk" | "prepare_tensor_key" => {
            let lay = GLWETensorKeyLayout { n: Degree(n as u32), base2k: Base2K(g.b as u32), k: TorusPrecision(g.k as u32), rank: Rank(rank as u32), dnum: Dnum(g.dnum as u32), dsize: Dsize(g.dsize as u32) };
            let Ok(enc) = EncryptionLayout::new_from_default_sigma(lay) else { return false };
            if prepare {
                let mut key: GLWETensorKey<Vec<u8>> = GLWETensorKey::alloc_from_infos(&lay);
                let mut sw = setup_scratch(module.glwe_tensor_key_encrypt_sk_tmp_bytes(&lay));
                module.glwe_tensor_key_encrypt_sk(&mut key, &sk, &enc, &mut Source::new(s1), &mut Source::new(s2), sw.scratch());
                let take_lay = gglwe_lay(n, g.b, g.k, rank, rank, g.dnum, g.dsize);
                let bytes = module.prepare_tensor_key_tmp_bytes(&lay);
                exec!(cx, bytes,
                    dest = {
                        let mut hres = cx.dest(module.bytes_of_tensor_key_prepared_from_infos(&lay));
                        let rref = hres.g.raw_ref();
                        let (mut res, _) = hres.sc().take_glwe_tensor_key_prepared(module, &take_lay);
                    },
                    call = |sc| module.prepare_tensor_key(&mut res, &key, sc),
                    ro = vec![("key", b_gglwe(&key))],
                    out = rd(rref), guards = vec![rref]);
            } else {
                let bytes = module.glwe_tensor_key_encrypt_sk_tmp_bytes(&lay);
                exec!(cx, bytes,
                    dest = { let mut res: GLWETensorKey<Vec<u8>> = GLWETensorKey::alloc_from_infos(&lay); garbage_key(cx, &mut res); let (mut xe, mut xa) = (Source::new(s1), Source::new(s2)); },
                    call = |sc| module.glwe_tensor_key_encrypt_sk(&mut res, &sk, &enc, &mut xe, &mut xa, sc),
                    ro = vec![("sk_prepared", rdk(skref))],
                    out = b_gglwe(&res), guards = vec![]);
            }
        }
        "gglwe_to_ggsw_key_encrypt_sk" | "gglwe_to_ggsw_key_prepare" => {
            let lay = tsk_lay(n, &g, rank);
            let Ok(enc) = EncryptionLayout::new_from_default_sigma(lay) else { return false };
            if prepare {
                let mut key = GGLWEToGGSWKey::alloc_from_infos(&lay);
                let mut sw = setup_scratch(GGLWEToGGSWKeyEncryptSk::gglwe_to_ggsw_key_encrypt_sk_tmp_bytes(module, &lay));
                GGLWEToGGSWKeyEncryptSk::gglwe_to_ggsw_key_encrypt_sk(module, &mut key, &sk, &enc, &mut Source::new(s1), &mut Source::new(s2), sw.scratch());
                // the prepared container is device-owned and opaque: its content is observed through a key switch of a fixed input
                // with each of its GGLWEs (zeroed generous scratch); the destination cannot be pre-filled
                let probe_in = rand_glwe(cx, n, g.b, g.size, rank);
                let pl = glwe_lay(n, g.b, g.size * g.b, rank);
                let kl = gglwe_lay(n, g.b, g.k, rank, rank, g.dnum, g.dsize);
                cx.desc.put("output_observed_through", "glwe_keyswitch digest");
                let bytes = module.gglwe_to_ggsw_key_prepare_tmp_bytes(&lay);
                exec!(cx, bytes,
                    dest = { let mut res = module.gglwe_to_ggsw_key_prepared_alloc_from_infos(&lay); let mut done = false; },
                    call = |sc| { module.gglwe_to_ggsw_key_prepare(&mut res, &key, sc); done = true; },
                    ro = vec![("key", (0..rank).flat_map(|i| b_gglwe(key.at(i))).collect())],
                    out = {
                        let mut v = Vec::new();
                        if done {
                            for i in 0..rank {
                                let mut o = GLWE::alloc_from_infos(&pl);
                                let mut sw = setup_scratch(module.glwe_keyswitch_tmp_bytes(&pl, &pl, &kl));
                                module.glwe_keyswitch(&mut o, &probe_in, res.at(i), sw.scratch());
                                v.extend(b_glwe(&o));
                            }
                        }
                        v
                    }, guards = vec![]);
            } else {
                let bytes = GGLWEToGGSWKeyEncryptSk::gglwe_to_ggsw_key_encrypt_sk_tmp_bytes(module, &lay);
                exec!(cx, bytes,
                    dest = {
                        let mut res = GGLWEToGGSWKey::alloc_from_infos(&lay);
                        for i in 0..rank { garbage_gglwe(cx, res.at_mut(i)); }
                        let (mut xe, mut xa) = (Source::new(s1), Source::new(s2));
                    },
                    call = |sc| GGLWEToGGSWKeyEncryptSk::gglwe_to_ggsw_key_encrypt_sk(module, &mut res, &sk, &enc, &mut xe, &mut xa, sc),
                    ro = vec![("sk_prepared", rdk(skref))],
                    out = (0..rank).flat_map(|i| b_gglwe(res.at(i))).collect(), guards = vec![]);
            }
        }
        "ggsw_prepare" => {
            let lay = ggsw_lay(n, g.b, g.k, rank, g.dnum, g.dsize);
            let key = rand_ggsw(cx, &lay);
            let bytes = module.ggsw_prepare_tmp_bytes(&lay);
            exec!(cx, bytes,
                dest = {
                    let mut hres = cx.dest(module.ggsw_prepared_bytes_of_from_infos(&lay));
                    let rref = hres.g.raw_ref();
                    let (mut res, _) = hres.sc().take_ggsw_prepared(module, &lay);
                },
                call = |sc| module.ggsw_prepare(&mut res, &key, sc),
                ro = vec![("ggsw", b_ggsw(&key))],
                out = rd(rref), guards = vec![rref]);
        }
        "gglwe_prepare" => {
            let lay = gglwe_lay(n, g.b, g.k, rank_in, rank, g.dnum, g.dsize);
            let key = rand_gglwe(cx, &lay);
            let bytes = module.gglwe_prepare_tmp_bytes(&lay);
            exec!(cx, bytes,
                dest = {
                    let mut hres = cx.dest(module.gglwe_prepared_bytes_of_from_infos(&lay));
                    let rref = hres.g.raw_ref();
                    let (mut res, _) = hres.sc().take_gglwe_prepared(module, &lay);
                },
                call = |sc| module.gglwe_prepare(&mut res, &key, sc),
                ro = vec![("gglwe", b_gglwe(&key))],
                out = rd(rref), guards = vec![rref]);
        }
        _ => {
            // LWE key material: GGLWEs with dsize 1 and rank_in / rank_out fixed by the kind
            let n_lwe = cx.rs.usize_in(1, n);
            let n_lwe2 = cx.rs.usize_in(1, n);
            cx.p("n_lwe", n_lwe);
            cx.p("n_lwe_out", n_lwe2);
            let (sk_l, sk_l2) = (new_lwe_sk(cx, n_lwe), new_lwe_sk(cx, n_lwe2));
            let (kb, kk, kd) = (Base2K(g.b as u32), TorusPrecision(g.k as u32), Dnum(g.dnum as u32));
            match op {
                "lwe_switching_key_encrypt_sk" | "lwe_switching_key_prepare" => {
                    let lay = LWESwitchingKeyLayout { n: Degree(n as u32), base2k: kb, k: kk, dnum: kd };
                    let Ok(enc) = EncryptionLayout::new_from_default_sigma(lay) else { return false };
                    let gl = gglwe_lay(n, g.b, g.k, 1, 1, g.dnum, 1);
                    if prepare {
                        let mut key = LWESwitchingKey::alloc_from_infos(&lay);
                        let mut sw = setup_scratch(module.lwe_switching_key_encrypt_sk_tmp_bytes(&lay));
                        module.lwe_switching_key_encrypt_sk(&mut key, &sk_l, &sk_l2, &enc, &mut Source::new(s1), &mut Source::new(s2), sw.scratch());
                        let bytes = module.lwe_switching_key_prepare_tmp_bytes(&lay);
                        exec!(cx, bytes,
                            dest = {
                                let mut hres = cx.dest(module.glwe_switching_key_prepared_bytes_of_from_infos(&gl));
                                let rref = hres.g.raw_ref();
                                let (mut res, _) = hres.sc().take_glwe_switching_key_prepared(module, &gl);
                            },
                            call = |sc| module.lwe_switching_key_prepare(&mut res, &key, sc),
                            ro = vec![("key", b_gglwe(&key))],
                            out = rd(rref), guards = vec![rref]);
                    } else {
                        let bytes = module.lwe_switching_key_encrypt_sk_tmp_bytes(&lay);
                        exec!(cx, bytes,
                            dest = { let mut res = LWESwitchingKey::alloc_from_infos(&lay); garbage_key(cx, &mut res); let (mut xe, mut xa) = (Source::new(s1), Source::new(s2)); },
                            call = |sc| module.lwe_switching_key_encrypt_sk(&mut res, &sk_l, &sk_l2, &enc, &mut xe, &mut xa, sc),
                            ro = vec![("sk_in", i64_bytes(sk_l.raw())), ("sk_out", i64_bytes(sk_l2.raw()))],
                            out = b_gglwe(&res), guards = vec![]);
                    }
                }
                "lwe_to_glwe_key_encrypt_sk" | "lwe_to_glwe_key_prepare" => {
                    let lay = LWEToGLWEKeyLayout { n: Degree(n as u32), base2k: kb, k: kk, dnum: kd, rank_out: Rank(rank as u32) };
                    let Ok(enc) = EncryptionLayout::new_from_default_sigma(lay) else { return false };
                    let gl = gglwe_lay(n, g.b, g.k, 1, rank, g.dnum, 1);
                    if prepare {
                        let mut key = LWEToGLWEKey::alloc_from_infos(&lay);
                        let mut sw = setup_scratch(module.lwe_to_glwe_key_encrypt_sk_tmp_bytes(&lay));
                        module.lwe_to_glwe_key_encrypt_sk(&mut key, &sk_l, &skp, &enc, &mut Source::new(s1), &mut Source::new(s2), sw.scratch());
                        let bytes = module.lwe_to_glwe_key_prepare_tmp_bytes(&lay);
                        exec!(cx, bytes,
                            dest = {
                                let mut hres = cx.dest(module.glwe_switching_key_prepared_bytes_of_from_infos(&gl));
                                let rref = hres.g.raw_ref();
                                let (mut res, _) = hres.sc().take_glwe_switching_key_prepared(module, &gl);
                            },
                            call = |sc| module.lwe_to_glwe_key_prepare(&mut res, &key, sc),
                            ro = vec![("key", b_gglwe(&key))],
                            out = rd(rref), guards = vec![rref]);
                    } else {
                        let bytes = module.lwe_to_glwe_key_encrypt_sk_tmp_bytes(&lay);
                        exec!(cx, bytes,
                            dest = { let mut res = LWEToGLWEKey::alloc_from_infos(&lay); garbage_key(cx, &mut res); let (mut xe, mut xa) = (Source::new(s1), Source::new(s2)); },
                            call = |sc| module.lwe_to_glwe_key_encrypt_sk(&mut res, &sk_l, &skp, &enc, &mut xe, &mut xa, sc),
                            ro = vec![("sk_lwe", i64_bytes(sk_l.raw())), ("sk_prepared", rdk(skref))],
                            out = b_gglwe(&res), guards = vec![]);
                    }
                }
                _ => {
                    let lay = GLWEToLWEKeyLayout { n: Degree(n as u32), base2k: kb, k: kk, rank_in: Rank(rank as u32), dnum: kd };
                    let Ok(enc) = EncryptionLayout::new_from_default_sigma(lay) else { return false };
                    let gl = gglwe_lay(n, g.b, g.k, rank, 1, g.dnum, 1);
                    if prepare {
                        let mut key = GLWEToLWEKey::alloc_from_infos(&lay);
                        let mut sw = setup_scratch(module.glwe_to_lwe_key_encrypt_sk_tmp_bytes(&lay));
                        module.glwe_to_lwe_key_encrypt_sk(&mut key, &sk_l, &sk, &enc, &mut Source::new(s1), &mut Source::new(s2), sw.scratch());
                        let bytes = module.glwe_to_lwe_key_prepare_tmp_bytes(&lay);
                        exec!(cx, bytes,
                            dest = {
                                let mut hres = cx.dest(module.glwe_switching_key_prepared_bytes_of_from_infos(&gl));
                                let rref = hres.g.raw_ref();
                                let (mut res, _) = hres.sc().take_glwe_switching_key_prepared(module, &gl);
                            },
                            call = |sc| module.glwe_to_lwe_key_prepare(&mut res, &key, sc),
                            ro = vec![("key", b_gglwe(&key))],
                            out = rd(rref), guards = vec![rref]);
                    } else {
                        let bytes = module.glwe_to_lwe_key_encrypt_sk_tmp_bytes(&lay);
                        exec!(cx, bytes,
                            dest = { let mut res = GLWEToLWEKey::alloc_from_infos(&lay); garbage_key(cx, &mut res); let (mut xe, mut xa) = (Source::new(s1), Source::new(s2)); },
                            call = |sc| module.glwe_to_lwe_key_encrypt_sk(&mut res, &sk_l, &sk, &enc, &mut xe, &mut xa, sc),
                            ro = vec![("sk_lwe", i64_bytes(sk_l.raw()))],
                            out = b_gglwe(&res), guards = vec![]);
                    }
                }
            }
        }
    }
    true
}

fn arm7(op: &'static str, cx: &mut Ctx) -> bool {
    match op {
        "ckks_add_into" | "ckks_mul_into" | "ckks_square_into" | "ckks_rotate_into" | "ckks_rescale_into" | "ckks_add_many" | "ckks_mul_many" | "ckks_mul_add_ct_into"
        | "ckks_mul_sub_ct_into" | "ckks_dot_product_ct" => arm_ckks(op, cx),
        _ => panic!("core_ops: unknown op {op}"),
    }
}

// ---------------------------------------------------------------------------------------------
// a few CKKS evaluator operations (parameter families of props/c16.rs; ciphertexts are random limb vectors with hand-set metadata,
// which `CKKSCiphertext::set_meta_checked` is documented for)
// ---------------------------------------------------------------------------------------------
fn arm_ckks(op: &'static str, cx: &mut Ctx) -> bool {
    use poulpy_ckks::{CKKSInfos, CKKSMeta, layouts::CKKSCiphertext, leveled::*};
    let (n, b, k, delta) = if IS_FFT64 { *cx.rs.pick(&[(64usize, 19usize, 152usize, 30usize), (32, 18, 150, 30), (16, 17, 136, 28)]) } else { *cx.rs.pick(&[(64usize, 52usize, 364usize, 45usize), (16, 52, 312, 40), (32, 52, 260, 36)]) };
    let module = cached_module(n);
    cx.p("n", n);
    cx.p("base2k", b);
    cx.p("k", k);
    cx.p("log_delta", delta);
    let glwe = glwe_lay(n, b, k, 1);
    let kk = k + b;
    let dnum = kk.div_ceil(b);
    let mk_ct = |cx: &mut Ctx, k_eff: usize| -> CKKSCiphertext<Vec<u8>> {
        let mut ct = CKKSCiphertext::alloc(Degree(n as u32), TorusPrecision(k as u32), Base2K(b as u32));
        fill_digits(ct.data_mut().raw_mut(), n, b, 0, &mut cx.rd);
        ct.set_meta_checked(CKKSMeta { log_delta: delta, log_budget: k_eff - delta }).unwrap();
        ct
    };
    let k_a = if cx.rs.coin() { k } else { k - cx.rs.usize_in(1, k / 3) };
    let k_b = if cx.rs.coin() { k_a } else { k - cx.rs.usize_in(1, k / 3) };
    cx.p("a_effective_k", k_a);
    cx.p("b_effective_k", k_b);
    let a = mk_ct(cx, k_a);
    let bo = mk_ct(cx, k_b);
    let dst_k = if cx.rs.coin() { k } else { k - cx.rs.usize_in(0, k / 2) };
    cx.p("dst_k", dst_k);
    held_secret!(cx, module, n, 1, false => sk, _skp, _skref);
    macro_rules! ckks_exec {
        ($bytes:expr, |$sc:ident, $dst:ident| $call:expr, $ro:expr, $guards:expr) => {
            exec!(cx, $bytes,
                dest = {
                    let mut $dst = CKKSCiphertext::alloc(Degree(n as u32), TorusPrecision(dst_k as u32), Base2K(b as u32));
                    for x in $dst.data_mut().raw_mut().iter_mut() { *x = cx.rf.next_i64(); }
                    let mut status = String::new();
                },
                call = |$sc| { status = match $call { Ok(()) => "ok".to_string(), Err(e) => format!("err: {e}") }; },
                ro = $ro,
                out = {
                    // on a composition error the destination is unspecified: only the error itself is compared
                    let mut v = status.clone().into_bytes();
                    if status == "ok" {
                        v.extend(b_glwe(&$dst));
                        v.extend(($dst.log_delta() as u64).to_le_bytes());
                        v.extend(($dst.log_budget() as u64).to_le_bytes());
                    }
                    v
                }, guards = $guards);
        };
    }
    match op {
        "ckks_add_into" => {
            let bytes = module.ckks_add_tmp_bytes();
            ckks_exec!(bytes, |sc, dst| module.ckks_add_into(&mut dst, &a, &bo, sc), vec![("a", b_glwe(&a)), ("b", b_glwe(&bo))], vec![]);
        }
        "ckks_rescale_into" => {
            let kbits = cx.rs.usize_in(0, (k_a - delta).min(3 * b));
            cx.p("rescale_bits", kbits);
            let bytes = module.ckks_rescale_tmp_bytes();
            ckks_exec!(bytes, |sc, dst| module.ckks_rescale_into(&mut dst, kbits, &a, sc), vec![("a", b_glwe(&a))], vec![]);
        }
        "ckks_add_many" => {
            let cnt = cx.rs.usize_in(1, 5);
            cx.p("inputs", cnt);
            let ins: Vec<CKKSCiphertext<Vec<u8>>> = (0..cnt).map(|i| if i == 0 { mk_ct(cx, k_a) } else { mk_ct(cx, k_b) }).collect();
            let refs: Vec<&CKKSCiphertext<Vec<u8>>> = ins.iter().collect();
            let bytes = module.ckks_add_many_tmp_bytes();
            ckks_exec!(bytes, |sc, dst| module.ckks_add_many(&mut dst, &refs, sc), ins.iter().map(|c| ("input", b_glwe(c))).collect::<Vec<_>>(), vec![]);
        }
        "ckks_mul_into" | "ckks_square_into" | "ckks_mul_many" | "ckks_mul_add_ct_into" | "ckks_mul_sub_ct_into" | "ckks_dot_product_ct" => {
            let k_lay = GLWETensorKeyLayout { n: Degree(n as u32), base2k: Base2K(b as u32), k: TorusPrecision(kk as u32), rank: Rank(1), dnum: Dnum(dnum as u32), dsize: Dsize(1) };
            let mut tsk: GLWETensorKey<Vec<u8>> = GLWETensorKey::alloc_from_infos(&k_lay);
            {
                let enc = EncryptionLayout::new_from_default_sigma(k_lay).unwrap();
                let mut sw = setup_scratch(module.glwe_tensor_key_encrypt_sk_tmp_bytes(&k_lay));
                module.glwe_tensor_key_encrypt_sk(&mut tsk, &sk, &enc, &mut Source::new(cx.rd.seed32()), &mut Source::new(cx.rd.seed32()), sw.scratch());
            }
            let take_lay = gglwe_lay(n, b, kk, 1, 1, dnum, 1);
            let mut hk = Held::zeroed(module.bytes_of_tensor_key_prepared_from_infos(&k_lay));
            let kref = cx.guard(&hk);
            let (mut tprep, _) = hk.sc().take_glwe_tensor_key_prepared(module, &take_lay);
            {
                let mut sw = setup_scratch(module.prepare_tensor_key_tmp_bytes(&k_lay));
                module.prepare_tensor_key(&mut tprep, &tsk, sw.scratch());
            }
            // the queries see one ciphertext layout: the context's full one (operands and destination never exceed it)
            let dst_lay = glwe;
            if op == "ckks_mul_many" || op == "ckks_dot_product_ct" {
                let cnt = cx.rs.usize_in(1, 5);
                cx.p("inputs", cnt);
                let xs: Vec<CKKSCiphertext<Vec<u8>>> = (0..cnt).map(|i| if i % 2 == 0 { mk_ct(cx, k_a) } else { mk_ct(cx, k_b) }).collect();
                let ys: Vec<CKKSCiphertext<Vec<u8>>> = (0..cnt).map(|i| if i % 2 == 1 { mk_ct(cx, k_a) } else { mk_ct(cx, k_b) }).collect();
                let xr: Vec<&CKKSCiphertext<Vec<u8>>> = xs.iter().collect();
                let yr: Vec<&CKKSCiphertext<Vec<u8>>> = ys.iter().collect();
                let mut ro: Vec<(&'static str, Vec<u8>)> = xs.iter().map(|c| ("input", b_glwe(c))).collect();
                ro.push(("tsk_prepared", rdk(kref)));
                if op == "ckks_mul_many" {
                    let bytes = module.ckks_mul_many_tmp_bytes(cnt, &dst_lay, &k_lay);
                    ckks_exec!(bytes, |sc, dst| module.ckks_mul_many(&mut dst, &xr, &tprep, sc), ro.clone(), vec![]);
                } else {
                    let bytes = module.ckks_dot_product_ct_tmp_bytes(cnt, &dst_lay, &k_lay);
                    ckks_exec!(bytes, |sc, dst| module.ckks_dot_product_ct(&mut dst, &xr, &yr, &tprep, sc), ro.clone(), vec![]);
                }
            } else if op == "ckks_mul_add_ct_into" || op == "ckks_mul_sub_ct_into" {
                // the destination is an accumulator, i.e. an input: it gets the same (data-stream) content in every run
                let mut acc = CKKSCiphertext::alloc(Degree(n as u32), TorusPrecision(dst_k as u32), Base2K(b as u32));
                fill_digits(acc.data_mut().raw_mut(), n, b, 0, &mut cx.rd);
                let acc_budget = dst_k.saturating_sub(delta + cx.rs.usize_in(0, b));
                cx.p("acc_log_budget", acc_budget);
                macro_rules! load_acc {
                    ($dst:ident) => {{
                        $dst.data_mut().raw_mut().copy_from_slice(acc.data().raw());
                        $dst.set_meta_checked(CKKSMeta { log_delta: delta, log_budget: acc_budget }).ok();
                    }};
                }
                if op == "ckks_mul_add_ct_into" {
                    let bytes = module.ckks_mul_add_ct_tmp_bytes(&dst_lay, &k_lay);
                    ckks_exec!(bytes, |sc, dst| { load_acc!(dst); module.ckks_mul_add_ct_into(&mut dst, &a, &bo, &tprep, sc) }, vec![("a", b_glwe(&a)), ("b", b_glwe(&bo)), ("tsk_prepared", rdk(kref))], vec![]);
                } else {
                    let bytes = module.ckks_mul_sub_ct_tmp_bytes(&dst_lay, &k_lay);
                    ckks_exec!(bytes, |sc, dst| { load_acc!(dst); module.ckks_mul_sub_ct_into(&mut dst, &a, &bo, &tprep, sc) }, vec![("a", b_glwe(&a)), ("b", b_glwe(&bo)), ("tsk_prepared", rdk(kref))], vec![]);
                }
            } else if op == "ckks_mul_into" {
                let bytes = module.ckks_mul_tmp_bytes(&dst_lay, &k_lay);
                ckks_exec!(bytes, |sc, dst| module.ckks_mul_into(&mut dst, &a, &bo, &tprep, sc), vec![("a", b_glwe(&a)), ("b", b_glwe(&bo)), ("tsk_prepared", rdk(kref))], vec![]);
            } else {
                let bytes = module.ckks_square_tmp_bytes(&dst_lay, &k_lay);
                ckks_exec!(bytes, |sc, dst| module.ckks_square_into(&mut dst, &a, &tprep, sc), vec![("a", b_glwe(&a)), ("tsk_prepared", rdk(kref))], vec![]);
            }
        }
        _ => {
            let rot = cx.rs.i64_in(1, n as i64 / 2 - 1);
            cx.p("rotation", rot);
            let g = Gadget { b, size: kk.div_ceil(b), k: kk, dsize: 1, dnum };
            let klay = atk_lay(n, &g, 1);
            let gal = module.galois_element(rot);
            held_atk!(cx, module, klay, gal, &sk => _key, kprep, kref);
            let mut keys = HashMap::new();
            keys.insert(rot, kprep);
            let bytes = module.ckks_rotate_tmp_bytes(&glwe, &klay);
            ckks_exec!(bytes, |sc, dst| module.ckks_rotate_into(&mut dst, &a, rot, &keys, sc), vec![("a", b_glwe(&a)), ("atk_prepared", rdk(kref))], vec![]);
        }
    }
    true
}
