// Shared by props/c01.rs, props/c06.rs and props/c19.rs (included inside their per-backend modules, `BE` is concrete).
//
//  * key generation that keeps the *clear* secrets (GLWE through the `verif-hooks` accessor, LWE through `raw()`),
//    for the six samplable secret distributions (the seventh variant, `NONE`, is the "not initialised" marker and is
//    rejected by every encryption routine — it is not an admissible input);
//  * owned copies of ciphertext limbs (`Ct`) and the exact phase  c_0 + sum_i c_i * s_{i-1}  over Z[X]/(X^N+1) as big
//    integers scaled by 2^W, for ANY (base2k, size) — written from the definition, no library arithmetic involved;
//  * plaintext encoders (message classes) and exact plaintext values;
//  * error extraction (`phase - plaintext`, centred) in units of the last limb;
//  * exact-size scratch windows with the "declared scratch too small" classification.
#[allow(unused_imports)]
pub use poulpy_bin_fhe::blind_rotation::{
    BlindRotationKey, BlindRotationKeyCompressed, BlindRotationKeyCompressedEncryptSk, BlindRotationKeyEncryptSk, BlindRotationKeyLayout, CGGI,
};
#[allow(unused_imports)]
pub use poulpy_bin_fhe::circuit_bootstrapping::{
    CircuitBootstrappingEncryptionInfos, CircuitBootstrappingKey, CircuitBootstrappingKeyEncryptSk, CircuitBootstrappingKeyLayout,
};
#[allow(unused_imports)]
pub use poulpy_core::api::*;
#[allow(unused_imports)]
pub use poulpy_core::layouts::compressed::*;
#[allow(unused_imports)]
pub use poulpy_core::layouts::*;
#[allow(unused_imports)]
pub use poulpy_core::{Distribution, EncryptionLayout, GetDistribution, ScratchTakeCore};
#[allow(unused_imports)]
pub use std::collections::{BTreeMap, BTreeSet, HashMap};

pub const SIGMA: f64 = 3.2;
pub const BOUND: f64 = 6.0 * 3.2;

// ---------------------------------------------------------------------------------------------
// admissible magnitude domain per backend
// ---------------------------------------------------------------------------------------------

/// largest limb radix for which every DFT product `digit (b bits) x small secret (|s| <= 2^sbits-ish, n terms)` is exact.
/// FFT64: n * 2^(b + sbits - 2) * 13 * log2(n) < 2^52 (DESIGN §3.3, 4–5 bits conservative); NTT120: 52.
pub fn max_base2k(n: usize, sbits: usize) -> usize {
    max_base2k_for(n, sbits, IS_FFT64)
}
pub fn max_base2k_for(n: usize, sbits: usize, fft64: bool) -> usize {
    if fft64 {
        let logn = (n.max(2) as f64).log2();
        let budget = 52.0 - (n as f64 * 13.0 * logn).log2() + 2.0 - sbits as f64;
        (budget.floor() as usize).min(50) - 1
    } else {
        52
    }
}

// ---------------------------------------------------------------------------------------------
// secret distributions
// ---------------------------------------------------------------------------------------------
#[derive(Clone, Copy, Debug, PartialEq)]
pub enum SDist {
    TernaryProb(f64),
    TernaryFixed(usize),
    BinaryProb(f64),
    BinaryFixed(usize),
    BinaryBlock(usize),
    Zero,
}

pub const SDIST_KINDS: usize = 6;

impl SDist {
    pub fn name(&self) -> String {
        match self {
            SDist::TernaryProb(p) => format!("ternary_prob({p})"),
            SDist::TernaryFixed(h) => format!("ternary_hw({h})"),
            SDist::BinaryProb(p) => format!("binary_prob({p})"),
            SDist::BinaryFixed(h) => format!("binary_hw({h})"),
            SDist::BinaryBlock(b) => format!("binary_block({b})"),
            SDist::Zero => "zero".into(),
        }
    }
    pub fn kind(&self) -> &'static str {
        match self {
            SDist::TernaryProb(_) => "ternary_prob",
            SDist::TernaryFixed(_) => "ternary_hw",
            SDist::BinaryProb(_) => "binary_prob",
            SDist::BinaryFixed(_) => "binary_hw",
            SDist::BinaryBlock(_) => "binary_block",
            SDist::Zero => "zero",
        }
    }
    /// a distribution of kind `kind` (0..6) with random admissible parameters for ring degree `n`
    pub fn pick(kind: usize, n: usize, rng: &mut Rng) -> SDist {
        match kind % SDIST_KINDS {
            0 => SDist::TernaryProb(*rng.pick(&[0.5, 0.5, 0.1, 0.9, 1.0])),
            1 => SDist::TernaryFixed(*rng.pick(&[n / 2, n / 4, n, 1, rng.clone().usize_in(0, n)])),
            2 => SDist::BinaryProb(*rng.pick(&[0.5, 0.5, 0.2, 1.0])),
            3 => SDist::BinaryFixed(*rng.pick(&[n / 2, n, 1, rng.clone().usize_in(0, n)])),
            4 => {
                let lg = (n as f64).log2() as usize;
                SDist::BinaryBlock(1 << rng.usize_in(0, lg))
            }
            _ => SDist::Zero,
        }
    }
    /// largest possible 1-norm of one polynomial drawn from this distribution
    pub fn max_l1(&self, n: usize) -> u64 {
        match self {
            SDist::TernaryProb(_) | SDist::BinaryProb(_) => n as u64,
            SDist::TernaryFixed(h) | SDist::BinaryFixed(h) => *h as u64,
            SDist::BinaryBlock(b) => (n / b) as u64,
            SDist::Zero => 0,
        }
    }
    pub fn binary(&self) -> bool {
        matches!(self, SDist::BinaryProb(_) | SDist::BinaryFixed(_) | SDist::BinaryBlock(_) | SDist::Zero)
    }
}

pub struct GKey {
    pub n: usize,
    pub rank: usize,
    pub dist: SDist,
    pub sk: GLWESecret<Vec<u8>>,
    /// clear coefficients, one vector per secret polynomial
    pub s: Vec<Vec<i64>>,
    pub prep: GLWESecretPrepared<DeviceBuf<BE>, BE>,
}

impl GKey {
    pub fn l1(&self) -> u64 {
        self.s.iter().map(|p| p.iter().map(|x| x.unsigned_abs()).sum::<u64>()).sum()
    }
}

pub fn glwe_secret_coeffs(sk: &GLWESecret<Vec<u8>>) -> Vec<Vec<i64>> {
    let d = sk.verif_data();
    (0..d.cols()).map(|c| d.at(c, 0).to_vec()).collect()
}

pub fn gen_glwe_key(module: &Module<BE>, n: usize, rank: usize, dist: SDist, seed: [u8; 32]) -> GKey {
    let mut src = Source::new(seed);
    let mut sk: GLWESecret<Vec<u8>> = GLWESecret::alloc(Degree(n as u32), Rank(rank as u32));
    match dist {
        SDist::TernaryProb(p) => sk.fill_ternary_prob(p, &mut src),
        SDist::TernaryFixed(h) => sk.fill_ternary_hw(h, &mut src),
        SDist::BinaryProb(p) => sk.fill_binary_prob(p, &mut src),
        SDist::BinaryFixed(h) => sk.fill_binary_hw(h, &mut src),
        SDist::BinaryBlock(b) => sk.fill_binary_block(b, &mut src),
        SDist::Zero => sk.fill_zero(),
    }
    let s = glwe_secret_coeffs(&sk);
    let mut prep: GLWESecretPrepared<DeviceBuf<BE>, BE> = module.glwe_secret_prepared_alloc(Rank(rank as u32));
    module.glwe_secret_prepare(&mut prep, &sk);
    GKey { n, rank, dist, sk, s, prep }
}

pub struct LKey {
    pub n: usize,
    pub dist: SDist,
    pub sk: LWESecret<Vec<u8>>,
    pub s: Vec<i64>,
}

pub fn gen_lwe_key(n: usize, dist: SDist, seed: [u8; 32]) -> LKey {
    let mut src = Source::new(seed);
    let mut sk: LWESecret<Vec<u8>> = LWESecret::alloc(Degree(n as u32));
    match dist {
        SDist::TernaryProb(p) => sk.fill_ternary_prob(p, &mut src),
        SDist::TernaryFixed(h) => sk.fill_ternary_hw(h, &mut src),
        SDist::BinaryProb(p) => sk.fill_binary_prob(p, &mut src),
        SDist::BinaryFixed(h) => sk.fill_binary_hw(h, &mut src),
        SDist::BinaryBlock(b) => sk.fill_binary_block(b, &mut src),
        SDist::Zero => sk.fill_zero(),
    }
    let s = sk.raw().to_vec();
    LKey { n, dist, sk, s }
}

// ---------------------------------------------------------------------------------------------
// owned ciphertext limbs
// ---------------------------------------------------------------------------------------------
#[derive(Clone, PartialEq, Eq)]
pub struct Ct {
    pub n: usize,
    pub cols: usize,
    pub size: usize,
    pub b: usize,
    /// ((limb * cols) + col) * n + i  — the VecZnx memory order
    pub d: Vec<i64>,
}

impl Ct {
    pub fn from_znx<D: DataRef>(v: &VecZnx<D>, b: usize) -> Ct {
        let (n, cols, size) = (v.n(), v.cols(), v.size());
        let mut d = Vec::with_capacity(n * cols * size);
        for j in 0..size {
            for c in 0..cols {
                d.extend_from_slice(v.at(c, j));
            }
        }
        Ct { n, cols, size, b, d }
    }
    pub fn poly(&self, col: usize, limb: usize) -> &[i64] {
        let o = (limb * self.cols + col) * self.n;
        &self.d[o..o + self.n]
    }
    pub fn bits(&self) -> usize {
        self.size * self.b
    }
    /// all digits of column `col`
    pub fn col_digits(&self, col: usize) -> Vec<i64> {
        let mut v = Vec::with_capacity(self.size * self.n);
        for j in 0..self.size {
            v.extend_from_slice(self.poly(col, j));
        }
        v
    }
    /// columns `from..cols` as one flat vector (mask of a GLWE)
    pub fn cols_from(&self, from: usize) -> Vec<i64> {
        let mut v = Vec::new();
        for c in from..self.cols {
            v.extend(self.col_digits(c));
        }
        v
    }
    pub fn hash(&self) -> u64 {
        let bytes: &[u8] = unsafe { std::slice::from_raw_parts(self.d.as_ptr() as *const u8, self.d.len() * 8) };
        fnv_bytes(bytes)
    }
    /// first digit outside [-2^(b-1), 2^(b-1)) if any: (col, limb, i, value)
    pub fn digit_out_of_range(&self) -> Option<(usize, usize, usize, i64)> {
        let lo = -(1i64 << (self.b - 1));
        let hi = 1i64 << (self.b - 1);
        for j in 0..self.size {
            for c in 0..self.cols {
                for (i, x) in self.poly(c, j).iter().enumerate() {
                    if *x < lo || *x >= hi {
                        return Some((c, j, i, *x));
                    }
                }
            }
        }
        None
    }
}

pub fn glwe_ct<G: GLWEToRef>(g: &G) -> Ct {
    let r = g.to_ref();
    let b = r.base2k().as_usize();
    Ct::from_znx(r.data(), b)
}

/// sparse form of a small polynomial: (index, coefficient) of its non-zero entries
pub fn sparse(s: &[i64]) -> Vec<(usize, i64)> {
    s.iter().enumerate().filter(|(_, x)| **x != 0).map(|(i, x)| (i, *x)).collect()
}

/// exact negacyclic product of two small polynomials (i128 accumulation)
pub fn negacyclic_i64(a: &[i64], b: &[i64]) -> Vec<i64> {
    let n = a.len();
    let mut r = vec![0i128; n];
    for (j, bj) in sparse(b) {
        for i in 0..n {
            let p = a[i] as i128 * bj as i128;
            let k = i + j;
            if k < n {
                r[k] += p;
            } else {
                r[k - n] -= p;
            }
        }
    }
    r.into_iter().map(|x| x as i64).collect()
}

/// Exact phase of a GLWE-shaped limb matrix: column 0 + sum_k column_k * s[k-1], every coefficient as an integer
/// multiple of 2^-(size*b), centred modulo 1, i.e. the returned values v satisfy phase = v * 2^-(size*b) (mod 1),
/// -2^(W-1) <= v < 2^(W-1), W = size*b. Columns beyond s.len()+1 are ignored; missing columns count as zero.
pub fn phase_glwe(ct: &Ct, s: &[Vec<i64>]) -> Vec<Big> {
    let n = ct.n;
    let w = ct.bits();
    let sp: Vec<Vec<(usize, i64)>> = s.iter().map(|p| sparse(p)).collect();
    let mut acc: Vec<Big> = vec![Big::from(0); n];
    let mut limb = vec![0i128; n];
    for j in 0..ct.size {
        for (i, x) in ct.poly(0, j).iter().enumerate() {
            limb[i] = *x as i128;
        }
        for (k, spk) in sp.iter().enumerate() {
            if k + 1 >= ct.cols {
                break;
            }
            let a = ct.poly(k + 1, j);
            for &(t, st) in spk {
                // a * (st X^t)
                for i in 0..n - t {
                    limb[i + t] += a[i] as i128 * st as i128;
                }
                for i in n - t..n {
                    limb[i + t - n] -= a[i] as i128 * st as i128;
                }
            }
        }
        for i in 0..n {
            // Horner: acc = acc * 2^b + limb
            acc[i] = (&acc[i] << ct.b) + Big::from(limb[i]);
        }
    }
    acc.iter().map(|x| centre(x, w)).collect()
}

/// Exact phase of an LWE ciphertext (one column, n_lwe+1 coefficients per limb: body then mask)
pub fn phase_lwe(ct: &Ct, s: &[i64]) -> Big {
    let w = ct.bits();
    let mut acc = Big::from(0);
    for j in 0..ct.size {
        let p = ct.poly(0, j);
        let mut l = p[0] as i128;
        for (a, si) in p[1..].iter().zip(s) {
            l += *a as i128 * *si as i128;
        }
        acc = (acc << ct.b) + Big::from(l);
    }
    centre(&acc, w)
}

/// value of coefficient `i` of column `col` scaled by 2^w (w >= size*b)
pub fn col_value(ct: &Ct, col: usize, i: usize, w: usize) -> Big {
    let mut acc = Big::from(0);
    for j in 0..ct.size {
        acc = (acc << ct.b) + Big::from(ct.poly(col, j)[i]);
    }
    acc << (w - ct.bits())
}

/// rescale a value given in units of 2^-from to units of 2^-to (to >= from)
pub fn upscale(x: &Big, from: usize, to: usize) -> Big {
    x << (to - from)
}

/// saturating conversion (errors of a broken implementation are huge; statistics only need "huge")
pub fn big_to_i64_sat(x: &Big) -> i64 {
    let lim = Big::from(i64::MAX / 4);
    if *x > lim {
        i64::MAX / 4
    } else if *x < -&lim {
        -(i64::MAX / 4)
    } else {
        i64::try_from(x.clone()).unwrap_or(i64::MAX / 4)
    }
}

/// Errors of a GLWE-shaped cell whose plaintext is the small polynomial `m` placed on limb `pt_limb`
/// (value m * 2^-(pt_limb+1)b), folded into column `pt_col` (0: as is; j>0: multiplied by s[j-1]).
/// Returned in units of the last limb 2^-(size*b), saturated to i64.
pub fn cell_errors(ct: &Ct, s: &[Vec<i64>], m: Option<(&[i64], usize, usize)>) -> Vec<i64> {
    let w = ct.bits();
    let ph = phase_glwe(ct, s);
    let mut out = Vec::with_capacity(ct.n);
    let mpoly: Option<(Vec<i64>, usize)> = m.map(|(m, limb, col)| if col == 0 { (m.to_vec(), limb) } else { (negacyclic_i64(m, &s[col - 1]), limb) });
    for i in 0..ct.n {
        let e = match &mpoly {
            Some((mp, limb)) => {
                let sh = w - (limb + 1) * ct.b;
                centre(&(&ph[i] - (Big::from(mp[i]) << sh)), w)
            }
            None => ph[i].clone(),
        };
        out.push(big_to_i64_sat(&e));
    }
    out
}

// ---------------------------------------------------------------------------------------------
// noise parameters
// ---------------------------------------------------------------------------------------------
#[derive(Clone, Copy, Debug)]
pub struct NoiseP {
    pub k: usize,
    pub sigma: f64,
    pub bound: f64,
}

impl NoiseP {
    pub fn default_at(k: usize) -> NoiseP {
        NoiseP { k, sigma: SIGMA, bound: BOUND }
    }
    pub fn infos(&self) -> NoiseInfos {
        NoiseInfos::new(self.k, self.sigma, self.bound).expect("noise infos")
    }
    /// (limb, log2 scale): the error is an integer on limb `limb`, sampled as round(N(0, sigma*2^ls)) with |.| <= bound*2^ls
    pub fn limb_scale(&self, b: usize) -> (usize, usize) {
        let limb = self.k.div_ceil(b) - 1;
        (limb, (limb + 1) * b - self.k)
    }
    /// hard bound on |e| in units of the noise limb: the sampler rejects |x| > bound*scale and then rounds
    pub fn hard_int(&self, b: usize) -> i128 {
        let (_, ls) = self.limb_scale(b);
        (self.bound * (ls as f64).exp2()).round() as i128
    }
    /// hard bound in units of the last limb of a `size`-limb ciphertext
    pub fn hard_units(&self, b: usize, size: usize) -> Big {
        let (limb, _) = self.limb_scale(b);
        Big::from(self.hard_int(b)) << ((size - 1 - limb) * b)
    }
}

// ---------------------------------------------------------------------------------------------
// plaintext encoders
// ---------------------------------------------------------------------------------------------
#[derive(Clone, Copy, Debug, PartialEq, Eq)]
pub enum Msg {
    Zero,
    Uniform,
    MaxPos,
    MaxNeg,
    Alternate,
    Single,
    TopBit,
}

pub const MSGS: [Msg; 7] = [Msg::Zero, Msg::Uniform, Msg::MaxPos, Msg::MaxNeg, Msg::Alternate, Msg::Single, Msg::TopBit];

impl Msg {
    pub fn name(self) -> &'static str {
        match self {
            Msg::Zero => "zero",
            Msg::Uniform => "uniform",
            Msg::MaxPos => "all_digits_max",
            Msg::MaxNeg => "all_digits_min",
            Msg::Alternate => "alternate_extremes",
            Msg::Single => "single_coefficient",
            Msg::TopBit => "top_bit",
        }
    }
}

/// fill column 0 of a plaintext vector (normalised digits of radix 2^b) according to the message class
pub fn fill_message<D: DataMut>(v: &mut VecZnx<D>, b: usize, msg: Msg, rng: &mut Rng) {
    let (n, size) = (v.n(), v.size());
    let hi = (1i64 << (b - 1)) - 1;
    let lo = -(1i64 << (b - 1));
    let pos = rng.below(n as u64) as usize;
    let plimb = rng.below(size as u64) as usize;
    for j in 0..size {
        let p = v.at_mut(0, j);
        for i in 0..n {
            p[i] = match msg {
                Msg::Zero => 0,
                Msg::Uniform => rng.signed_bits(b),
                Msg::MaxPos => hi,
                Msg::MaxNeg => lo,
                Msg::Alternate => {
                    if (i + j) % 2 == 0 {
                        hi
                    } else {
                        lo
                    }
                }
                Msg::Single => {
                    if i == pos && j == plimb {
                        let x = rng.signed_bits(b);
                        if x == 0 { 1 } else { x }
                    } else {
                        0
                    }
                }
                Msg::TopBit => {
                    if j == 0 {
                        lo
                    } else {
                        0
                    }
                }
            };
        }
    }
}

// ---------------------------------------------------------------------------------------------
// exact-size scratch windows
// ---------------------------------------------------------------------------------------------
thread_local! {
    static SCRATCH_CTR: std::cell::Cell<u64> = const { std::cell::Cell::new(0) };
}

pub fn is_scratch_panic(p: &str) -> bool {
    p.contains("Attempted to take") || p.contains("scratch.available()")
}

/// Run `f` with a scratch of exactly `need` bytes (garbage-filled, flush against the end of its allocation). If the call
/// dies from scratch exhaustion the declared size was too small: that is reported (class = scratch_query_too_small) and `f`
/// is run again with a generous window so that the functional checks still happen. `f` must be re-runnable.
pub fn exact_scratch<R>(rep: &mut Report, _prop_op: &str, op: &str, need: usize, desc: &J, mut f: impl FnMut(&mut Scratch<BE>) -> R) -> Result<R, String> {
    let ctr = SCRATCH_CTR.with(|c| {
        c.set(c.get() + 1);
        c.get()
    });
    let mut sw = ScratchWin::new(need);
    sw.fill(&mut Rng::new(0x5c7a7c4, ctr));
    match guarded(|| f(sw.scratch())) {
        Ok(r) => {
            if !sw.g.guards_intact() {
                let mut d = desc.clone();
                d.put("class", "scratch_guard_overwritten");
                d.put("scratch_op", op);
                d.put("declared_bytes", need);
                rep.violate(&format!("scratch:{op}"), d, format!("{op}: guard bytes in front of the exact scratch window were overwritten"));
            }
            Ok(r)
        }
        Err(p) if is_scratch_panic(&p) => {
            let mut d = desc.clone();
            d.put("class", "scratch_query_too_small");
            d.put("scratch_op", op);
            d.put("declared_bytes", need);
            rep.violate(&format!("scratch:{op}"), d, format!("{op} with exactly the declared {need} scratch bytes: {p}"));
            rep.count("scratch_query_too_small", 1);
            let mut big = ScratchWin::new(need * 4 + (1 << 16));
            big.fill(&mut Rng::new(0x5c7a7c5, ctr));
            guarded(|| f(big.scratch()))
        }
        Err(p) => Err(p),
    }
}

/// a generous scratch for calls that are not under test (oracle-side replays, preparation of auxiliary objects)
pub fn roomy_scratch(bytes: usize) -> ScratchWin {
    ScratchWin::new(bytes * 2 + (1 << 16))
}

pub fn seed_hex(s: &[u8; 32]) -> String {
    hex(&s[..8])
}

/// deterministic 32-byte seed derived from (master, tag)
pub fn seed_from(master: u64, tag: u64) -> [u8; 32] {
    Rng::new(master, tag).seed32()
}

/// independent re-statement of the uniform-digit sampler: digits = (next_u64 & (2^b-1)) - 2^(b-1), limb-major
pub fn model_uniform_column(seed_src: &mut Source, b: usize, n: usize, size: usize) -> Vec<i64> {
    let mask: u64 = if b >= 64 { u64::MAX } else { (1u64 << b) - 1 };
    let half: i64 = 1i64 << (b - 1);
    let mut out = Vec::with_capacity(n * size);
    for _ in 0..size * n {
        out.push((seed_src.next_i64() as u64 & mask) as i64 - half);
    }
    out
}

// =============================================================================================
// Generic "encryptable object" builder shared by C06 (statistics, seed separation) and C19 (compressed forms)
// =============================================================================================

#[derive(Clone, Copy, Debug, PartialEq, Eq, PartialOrd, Ord)]
pub enum Kind {
    Glwe,
    GlweZero,
    GlweC,
    Pk,
    Lwe,
    Gglwe,
    GglweC,
    Ggsw,
    GgswC,
    Ksk,
    KskC,
    Atk,
    AtkC,
    Tsk,
    TskC,
    G2g,
    G2gC,
    LweKsk,
    Glwe2Lwe,
    Lwe2Glwe,
    Brk,
    BrkC,
    Cbt,
}

pub const ALL_KINDS: [Kind; 23] = [
    Kind::Glwe, Kind::GlweZero, Kind::GlweC, Kind::Pk, Kind::Lwe, Kind::Gglwe, Kind::GglweC, Kind::Ggsw, Kind::GgswC, Kind::Ksk, Kind::KskC,
    Kind::Atk, Kind::AtkC, Kind::Tsk, Kind::TskC, Kind::G2g, Kind::G2gC, Kind::LweKsk, Kind::Glwe2Lwe, Kind::Lwe2Glwe, Kind::Brk, Kind::BrkC, Kind::Cbt,
];

impl Kind {
    pub fn name(self) -> &'static str {
        match self {
            Kind::Glwe => "glwe_sk",
            Kind::GlweZero => "glwe_zero_sk",
            Kind::GlweC => "glwe_compressed",
            Kind::Pk => "glwe_public_key",
            Kind::Lwe => "lwe_sk",
            Kind::Gglwe => "gglwe",
            Kind::GglweC => "gglwe_compressed",
            Kind::Ggsw => "ggsw",
            Kind::GgswC => "ggsw_compressed",
            Kind::Ksk => "glwe_switching_key",
            Kind::KskC => "glwe_switching_key_compressed",
            Kind::Atk => "glwe_automorphism_key",
            Kind::AtkC => "glwe_automorphism_key_compressed",
            Kind::Tsk => "glwe_tensor_key",
            Kind::TskC => "glwe_tensor_key_compressed",
            Kind::G2g => "gglwe_to_ggsw_key",
            Kind::G2gC => "gglwe_to_ggsw_key_compressed",
            Kind::LweKsk => "lwe_switching_key",
            Kind::Glwe2Lwe => "glwe_to_lwe_key",
            Kind::Lwe2Glwe => "lwe_to_glwe_key",
            Kind::Brk => "blind_rotation_key",
            Kind::BrkC => "blind_rotation_key_compressed",
            Kind::Cbt => "circuit_bootstrapping_key",
        }
    }
    pub fn compressed(self) -> bool {
        matches!(self, Kind::GlweC | Kind::GglweC | Kind::GgswC | Kind::KskC | Kind::AtkC | Kind::TskC | Kind::G2gC | Kind::BrkC)
    }
    pub fn from_name(s: &str) -> Option<Kind> {
        ALL_KINDS.iter().copied().find(|k| k.name() == s)
    }
}

#[derive(Clone, Copy, Debug)]
pub struct Lay {
    pub n: usize,
    pub rank: usize,    // rank of the encrypting secret (rank_out)
    pub rank_in: usize, // GGLWE / switching key input rank
    pub b: usize,
    pub size: usize,
    pub k: usize,
    pub dnum: usize,
    pub dsize: usize,
    pub n_lwe: usize,
    pub p: i64, // Galois element of automorphism keys
    pub dist: usize,
    /// configured sigma of the fresh noise
    pub sigma: f64,
    /// truncation bound / sigma: 6 (the library's default ratio) for the pooled statistics; tighter admissible ratios
    /// (bound >= sigma) only feed the deterministic "no coefficient beyond the bound" check
    pub bf: f64,
}

impl Lay {
    /// random layout admissible for `kind` on this backend; `big` asks for N = 256
    pub fn random(kind: Kind, rng: &mut Rng, big: bool) -> Lay {
        Lay::random_with(kind, rng, big, IS_FFT64)
    }
    /// `fft_cap`: keep the radix inside the FFT64 magnitude domain (layouts that must run on every backend)
    pub fn random_with(kind: Kind, rng: &mut Rng, big: bool, fft_cap: bool) -> Lay {
        let n = if big { 256 } else { *rng.pick(&[8usize, 16, 32, 64, 64]) };
        let bmax = if fft_cap { max_base2k_for(n, 2, true) } else { 52 };
        let b = match rng.below(8) {
            0 => *rng.pick(&[1usize, 2, 3, 4]),
            1 => bmax,
            _ => rng.usize_in(1, bmax),
        };
        let rank = rng.usize_in(1, 3);
        let rank_in = rng.usize_in(1, 3);
        let dsize = *rng.pick(&[1usize, 1, 1, 2, 3]);
        let dnum = rng.usize_in(1, 3);
        // size >= dnum*dsize and size > dsize; k >= 10 so that the centred error does not wrap
        let mut size = dnum * dsize + rng.usize_in(0, 1);
        if size <= dsize {
            size = dsize + 1;
        }
        while size * b < 12 {
            size += 1;
        }
        let klo = ((size - 1) * b + 1).max(10);
        let k = rng.usize_in(klo, size * b);
        let n_lwe = match kind {
            Kind::Brk | Kind::BrkC | Kind::Cbt => rng.usize_in(2, 12),
            Kind::LweKsk | Kind::Glwe2Lwe | Kind::Lwe2Glwe => rng.usize_in(1, n),
            _ => *rng.pick(&[1usize, 3, 22, 64, 130]),
        };
        let p = {
            let g = rng.i64_in(1, n as i64);
            let e = pow_mod(5, g as u64, 2 * n as u64) as i64;
            if rng.coin() { e } else { -e }
        };
        let sigma = *rng.pick(&[SIGMA, SIGMA, SIGMA, SIGMA, SIGMA, SIGMA, SIGMA, 8.0, 1.0, 25.0]);
        let mut l = Lay { n, rank, rank_in, b, size, k, dnum, dsize, n_lwe, p, dist: rng.usize_in(0, SDIST_KINDS - 1), sigma, bf: 6.0 };
        match kind {
            Kind::Glwe | Kind::GlweZero | Kind::GlweC | Kind::Pk | Kind::Lwe => {
                l.rank = rng.usize_in(0, 3);
                l.size = rng.usize_in(1, 4);
                while l.size * b < 12 {
                    l.size += 1;
                }
                l.k = rng.usize_in(((l.size - 1) * b + 1).max(10), l.size * b);
                l.dnum = 1;
                l.dsize = 1;
            }
            Kind::Atk | Kind::AtkC | Kind::Tsk | Kind::TskC | Kind::G2g | Kind::G2gC => l.rank_in = l.rank,
            Kind::LweKsk => {
                l.rank = 1;
                l.rank_in = 1;
                l.dsize = 1;
            }
            Kind::Glwe2Lwe => {
                l.rank = 1;
                l.dsize = 1;
            }
            Kind::Lwe2Glwe => {
                l.rank_in = 1;
                l.dsize = 1;
            }
            Kind::Brk | Kind::BrkC | Kind::Cbt => l.dsize = 1,
            _ => {}
        }
        if matches!(kind, Kind::LweKsk | Kind::Glwe2Lwe | Kind::Lwe2Glwe | Kind::Brk | Kind::BrkC | Kind::Cbt) {
            // dsize = 1: recompute the limb count
            l.size = l.dnum + rng.usize_in(0, 1);
            if l.size < 2 {
                l.size = 2;
            }
            while l.size * b < 12 {
                l.size += 1;
            }
            l.k = rng.usize_in(((l.size - 1) * b + 1).max(10), l.size * b);
        }
        if matches!(kind, Kind::Brk | Kind::BrkC | Kind::Cbt) {
            // the LWE secret of a blind-rotation key must be binary
            l.dist = *rng.pick(&[2usize, 3, 4, 5, 2, 3, 4]);
        }
        l
    }
    pub fn desc(&self, kind: Kind) -> J {
        jo! {"backend" => BE_NAME, "kind" => kind.name(), "n" => self.n, "rank" => self.rank, "rank_in" => self.rank_in, "base2k" => self.b, "size" => self.size,
        "k" => self.k, "dnum" => self.dnum, "dsize" => self.dsize, "n_lwe" => self.n_lwe, "p" => self.p, "dist" => self.dist, "sigma" => self.sigma, "bound_over_sigma" => self.bf}
    }
    pub fn key(&self, kind: Kind) -> String {
        format!("{BE_NAME}|{}|{}|{}|{}|{}|{}|{}|{}|{}|{}|{}|{}", kind.name(), self.n, self.rank, self.rank_in, self.b, self.k, self.dnum, self.dsize, self.n_lwe, self.p, self.dist, self.sigma)
    }
    pub fn noise(&self) -> NoiseP {
        NoiseP { k: self.k, sigma: self.sigma, bound: self.bf * self.sigma }
    }
    pub fn gglwe_layout(&self, rank_in: usize) -> GGLWELayout {
        GGLWELayout {
            n: Degree(self.n as u32),
            base2k: Base2K(self.b as u32),
            k: TorusPrecision(self.k as u32),
            rank_in: Rank(rank_in as u32),
            rank_out: Rank(self.rank as u32),
            dnum: Dnum(self.dnum as u32),
            dsize: Dsize(self.dsize as u32),
        }
    }
    pub fn ggsw_layout(&self) -> GGSWLayout {
        GGSWLayout { n: Degree(self.n as u32), base2k: Base2K(self.b as u32), k: TorusPrecision(self.k as u32), rank: Rank(self.rank as u32), dnum: Dnum(self.dnum as u32), dsize: Dsize(self.dsize as u32) }
    }
    pub fn glwe_layout(&self) -> GLWELayout {
        GLWELayout { n: Degree(self.n as u32), base2k: Base2K(self.b as u32), k: TorusPrecision(self.k as u32), rank: Rank(self.rank as u32) }
    }
}

/// every input of an encryption, so that metamorphic checks can change exactly one of them
#[derive(Clone, Copy, Debug)]
pub struct Inputs {
    pub sk: u64,  // secret(s)
    pub pt: u64,  // plaintext (where the object has a free plaintext)
    pub xa: u64,  // mask seed
    pub xe: u64,  // error seed
}

impl Inputs {
    pub fn from(master: u64) -> Inputs {
        let mut r = Rng::new(master, 0x1197);
        Inputs { sk: r.next_u64(), pt: r.next_u64(), xa: r.next_u64(), xe: r.next_u64() }
    }
    pub fn seed_xa(&self) -> [u8; 32] {
        seed_from(self.xa, 0xa)
    }
    pub fn seed_xe(&self) -> [u8; 32] {
        seed_from(self.xe, 0xe)
    }
}

pub struct Cell {
    /// (sub-key, row, col)
    pub tag: (usize, usize, usize),
    pub ct: Ct,
    /// which entry of `Obj::secrets` decrypts this cell
    pub sec: usize,
    /// plaintext: small polynomial, limb it sits on, column it is folded into
    pub m: Option<(Vec<i64>, usize, usize)>,
    /// stored seed of the cell (compressed objects)
    pub seed: Option<[u8; 32]>,
}

pub struct Obj {
    pub kind: Kind,
    pub cells: Vec<Cell>,
    pub secrets: Vec<Vec<Vec<i64>>>,
    /// noise parameters per secret index (all cells of one sub-key share them)
    pub noise: Vec<NoiseP>,
    pub lwe: bool,
    /// serialised compressed object, when there is one
    pub compressed_bytes: Option<Vec<u8>>,
}

impl Obj {
    pub fn errors(&self, cell: &Cell) -> Vec<i64> {
        if self.lwe {
            let s = &self.secrets[cell.sec][0];
            let ph = phase_lwe(&cell.ct, s);
            let w = cell.ct.bits();
            let e = match &cell.m {
                Some((m, limb, _)) => centre(&(ph - (Big::from(m[0]) << (w - (limb + 1) * cell.ct.b))), w),
                None => ph,
            };
            vec![big_to_i64_sat(&e)]
        } else {
            cell_errors(&cell.ct, &self.secrets[cell.sec], cell.m.as_ref().map(|(m, l, c)| (m.as_slice(), *l, *c)))
        }
    }
    /// mask digits of a cell (GLWE: columns 1..; LWE: coefficients 1..)
    pub fn mask(&self, cell: &Cell) -> Vec<i64> {
        if self.lwe {
            let mut v = Vec::new();
            for j in 0..cell.ct.size {
                v.extend_from_slice(&cell.ct.poly(0, j)[1..]);
            }
            v
        } else {
            cell.ct.cols_from(1)
        }
    }
    pub fn body(&self, cell: &Cell) -> Vec<i64> {
        if self.lwe {
            (0..cell.ct.size).map(|j| cell.ct.poly(0, j)[0]).collect()
        } else {
            cell.ct.col_digits(0)
        }
    }
}

fn small_poly(rng: &mut Rng, n: usize, class: u64) -> Vec<i64> {
    let mut m = vec![0i64; n];
    match class % 4 {
        0 => m[rng.below(n as u64) as usize] = if rng.coin() { 1 } else { -1 },
        1 => {
            for x in m.iter_mut() {
                *x = rng.i64_in(-1, 1);
            }
        }
        2 => {
            for x in m.iter_mut() {
                *x = rng.i64_in(-7, 7);
            }
        }
        _ => {}
    }
    m
}

pub fn scalar_from(cols: &[Vec<i64>], n: usize) -> ScalarZnx<Vec<u8>> {
    let mut s = ScalarZnx::alloc(n, cols.len());
    for (c, p) in cols.iter().enumerate() {
        s.at_mut(c, 0).copy_from_slice(p);
    }
    s
}

/// embed an LWE secret into Z[X]/(X^N+1) and apply X -> X^-1 (the library's LWE <-> GLWE convention)
pub fn lwe_as_glwe(s: &[i64], n: usize) -> Vec<i64> {
    let mut p = vec![0i64; n];
    p[..s.len()].copy_from_slice(s);
    automorphism_i64(&p, -1)
}

/// inverse of the odd residue `p` modulo 2n, as a representative in (0, 2n)
pub fn inv_mod_2n(p: i64, n: usize) -> i64 {
    let m = 2 * n as i64;
    let pm = p.rem_euclid(m);
    (1..m).step_by(2).find(|q| (pm * q) % m == 1).expect("odd residue has an inverse")
}

pub fn gglwe_cells<G: GGLWEToRef>(g: &G, sub: usize, sec: usize, pt_cols: &[Vec<i64>], dsize: usize, seeds: Option<&Vec<[u8; 32]>>) -> Vec<Cell> {
    let r = g.to_ref();
    let (dnum, rank_in) = (r.dnum().as_usize(), r.rank_in().as_usize());
    let mut v = Vec::new();
    for row in 0..dnum {
        for col in 0..rank_in {
            let cell = r.at(row, col);
            v.push(Cell {
                tag: (sub, row, col),
                ct: glwe_ct(&cell),
                sec,
                m: Some((pt_cols[col].clone(), (dsize - 1) + row * dsize, 0)),
                seed: seeds.map(|s| s[row * rank_in + col]),
            });
        }
    }
    v
}

pub fn ggsw_cells<G: GGSWToRef>(g: &G, sub: usize, sec: usize, m: &[i64], dsize: usize, seeds: Option<&Vec<[u8; 32]>>) -> Vec<Cell> {
    let r = g.to_ref();
    let (dnum, rank) = (r.dnum().as_usize(), r.rank().as_usize());
    let mut v = Vec::new();
    for row in 0..dnum {
        for col in 0..rank + 1 {
            let cell = r.at(row, col);
            v.push(Cell {
                tag: (sub, row, col),
                ct: glwe_ct(&cell),
                sec,
                m: Some((m.to_vec(), (dsize - 1) + row * dsize, col)),
                seed: seeds.map(|s| s[row * (rank + 1) + col]),
            });
        }
    }
    v
}

pub fn ser<W: WriterTo>(w: &W) -> Vec<u8> {
    let mut v = Vec::new();
    w.write_to(&mut v).expect("write_to into a Vec");
    v
}

fn tensor_pairs(s: &[Vec<i64>]) -> Vec<Vec<i64>> {
    let r = s.len();
    let mut v = Vec::new();
    for i in 0..r {
        for j in i..r {
            v.push(negacyclic_i64(&s[i], &s[j]));
        }
    }
    v
}

/// the GLWE secret every object of `build` is encrypted under
pub fn main_key(module: &Module<BE>, l: &Lay, inp: &Inputs) -> GKey {
    let mut srng = Rng::new(inp.sk, 0x5ec7);
    let dist = SDist::pick(l.dist, l.n, &mut srng);
    gen_glwe_key(module, l.n, l.rank, dist, seed_from(inp.sk, 1))
}

/// the message `build` encrypts in the GLWE kinds
pub fn glwe_message(l: &Lay, inp: &Inputs) -> GLWEPlaintext<Vec<u8>> {
    let mut prng = Rng::new(inp.pt, 0x9717);
    let mut pt: GLWEPlaintext<Vec<u8>> = GLWEPlaintext::alloc_from_infos(&l.glwe_layout());
    fill_message(&mut pt.data, l.b, Msg::Uniform, &mut prng);
    pt
}

/// Plaintext of a GGLWE / GGSW cell written from the definition: the small polynomial `m` times 2^-(limb+1)b, as
/// normalised digits in [-2^(b-1), 2^(b-1)) (carries propagate towards limb 0 and vanish past it: the torus is mod 1).
pub fn cell_plaintext(n: usize, b: usize, size: usize, m: &[i64], limb: usize) -> GLWEPlaintext<Vec<u8>> {
    let mut pt: GLWEPlaintext<Vec<u8>> = GLWEPlaintext::alloc(Degree(n as u32), Base2K(b as u32), TorusPrecision((size * b) as u32));
    let half = 1i128 << (b - 1);
    let modulus = 1i128 << b;
    for i in 0..n {
        let mut carry = m[i] as i128;
        let mut j = limb as isize;
        while j >= 0 && carry != 0 {
            let d = (carry + half).rem_euclid(modulus) - half;
            carry = (carry - d) >> b;
            pt.data.at_mut(0, j as usize)[i] = d as i64;
            j -= 1;
        }
    }
    pt
}

/// Encrypt one object of kind `kind` with layout `l` from the inputs `inp` (every library call under an exact-size scratch
/// window) and return its cells together with everything the exact oracle needs. `Err` = the library panicked.
pub fn build(module: &Module<BE>, kind: Kind, l: &Lay, inp: &Inputs, rep: &mut Report, prop_op: &str) -> Result<Obj, String> {
    let n = l.n;
    let desc = l.desc(kind);
    let mut prng = Rng::new(inp.pt, 0x9717);
    let mut srng = Rng::new(inp.sk, 0x5ec7);
    let dist = SDist::pick(l.dist, n, &mut srng);
    let noise = l.noise();
    let enc = noise.infos();
    let (sxa, sxe) = (inp.seed_xa(), inp.seed_xe());
    let lwe_kinds = matches!(kind, Kind::Lwe | Kind::LweKsk | Kind::Glwe2Lwe | Kind::Lwe2Glwe | Kind::Brk | Kind::BrkC | Kind::Cbt);
    // LWE secrets: parameters relative to n_lwe
    let mk_lwe = |tag: u64| -> LKey {
        let mut r = Rng::new(inp.sk, 0x17e0 + tag);
        let d = match SDist::pick(l.dist, l.n_lwe, &mut r) {
            SDist::BinaryBlock(_) => {
                let divs: Vec<usize> = (1..=l.n_lwe).filter(|d| l.n_lwe % d == 0).collect();
                SDist::BinaryBlock(*r.pick(&divs))
            }
            d => d,
        };
        gen_lwe_key(l.n_lwe, d, seed_from(inp.sk, 0x1e + tag))
    };
    let _ = lwe_kinds;
    let key = main_key(module, l, inp);
    let mut obj = Obj { kind, cells: Vec::new(), secrets: vec![key.s.clone()], noise: vec![noise], lwe: false, compressed_bytes: None };
    match kind {
        Kind::Glwe | Kind::GlweZero | Kind::GlweC | Kind::Pk => {
            let layout = l.glwe_layout();
            let mut pt: GLWEPlaintext<Vec<u8>> = GLWEPlaintext::alloc_from_infos(&layout);
            let zero = matches!(kind, Kind::GlweZero | Kind::Pk);
            if !zero {
                fill_message(&mut pt.data, l.b, Msg::Uniform, &mut prng);
            }
            let mut ct: GLWE<Vec<u8>> = GLWE::alloc_from_infos(&layout);
            let mut seed = None;
            match kind {
                Kind::Glwe => {
                    let need = module.glwe_encrypt_sk_tmp_bytes(&layout);
                    exact_scratch(rep, prop_op, "glwe_encrypt_sk", need, &desc, |sc| {
                        module.glwe_encrypt_sk(&mut ct, &pt, &key.prep, &enc, &mut Source::new(sxe), &mut Source::new(sxa), sc)
                    })?;
                }
                Kind::GlweZero => {
                    let need = module.glwe_encrypt_sk_tmp_bytes(&layout);
                    exact_scratch(rep, prop_op, "glwe_encrypt_zero_sk", need, &desc, |sc| {
                        module.glwe_encrypt_zero_sk(&mut ct, &key.prep, &enc, &mut Source::new(sxe), &mut Source::new(sxa), sc)
                    })?;
                }
                Kind::Pk => {
                    let mut pk: GLWEPublicKey<Vec<u8>> = GLWEPublicKey::alloc_from_infos(&layout);
                    guarded(|| module.glwe_public_key_generate(&mut pk, &key.prep, &enc, &mut Source::new(sxe), &mut Source::new(sxa)))?;
                    let src = glwe_ct(&pk);
                    // copy the key limbs (the Ct of the public key is what is analysed)
                    obj.cells.push(Cell { tag: (0, 0, 0), ct: src, sec: 0, m: None, seed: None });
                    return Ok(obj);
                }
                _ => {
                    let mut ctc: GLWECompressed<Vec<u8>> = GLWECompressed::alloc_from_infos(&layout);
                    let need = module.glwe_compressed_encrypt_sk_tmp_bytes(&layout);
                    exact_scratch(rep, prop_op, "glwe_compressed_encrypt_sk", need, &desc, |sc| {
                        module.glwe_compressed_encrypt_sk(&mut ctc, &pt, &key.prep, sxa, &enc, &mut Source::new(sxe), sc)
                    })?;
                    seed = Some(*ctc.seed());
                    obj.compressed_bytes = Some(ser(&ctc));
                    guarded(|| module.decompress_glwe(&mut ct, &ctc))?;
                }
            }
            // the plaintext of a GLWE is a full limb vector, not a scalar on one limb: fold it into the ciphertext's phase by
            // analysing ct - (pt, 0, ..) instead: subtract the plaintext digits from the body limbs (exact, un-normalised is fine)
            let mut c = glwe_ct(&ct);
            if !zero {
                for j in 0..c.size.min(pt.data.size()) {
                    let o = (j * c.cols) * c.n;
                    for i in 0..n {
                        c.d[o + i] -= pt.data.at(0, j)[i];
                    }
                }
            }
            // keep the untouched limbs for the mask / byte comparisons in `raw`
            obj.cells.push(Cell { tag: (0, 0, 0), ct: c, sec: 0, m: None, seed });
            obj.cells.push(Cell { tag: (usize::MAX, 0, 0), ct: glwe_ct(&ct), sec: 0, m: None, seed });
        }
        Kind::Lwe => {
            obj.lwe = true;
            let lk = mk_lwe(0);
            obj.secrets = vec![vec![lk.s.clone()]];
            let layout = LWELayout { n: Degree(l.n_lwe as u32), k: TorusPrecision(l.k as u32), base2k: Base2K(l.b as u32) };
            let need = module.lwe_encrypt_sk_tmp_bytes(&layout);
            // one object = a batch of ciphertexts drawn from the same two streams
            let mut xe = Source::new(sxe);
            let mut xa = Source::new(sxa);
            let batch = 64usize;
            for t in 0..batch {
                // the plaintext has as many limbs as the ciphertext, or fewer (a message on the top limbs only: the noise limb then
                // lies past the plaintext)
                let pt_size = if t % 2 == 0 { l.size } else { 1 + (prng.next_u64() as usize) % l.size };
                let mut pt: LWEPlaintext<Vec<u8>> = LWEPlaintext::alloc(Base2K(l.b as u32), TorusPrecision((pt_size * l.b) as u32));
                fill_message(pt.data_mut(), l.b, Msg::Uniform, &mut prng);
                let mut ct: LWE<Vec<u8>> = LWE::alloc_from_infos(&layout);
                // the two streams advance across the batch: a generous window is used here (exact windows are C01's job; a
                // retry would replay the streams)
                let mut sw = roomy_scratch(need);
                guarded(|| module.lwe_encrypt_sk(&mut ct, &pt, &lk.sk, &enc, &mut xe, &mut xa, sw.scratch()))?;
                let mut c = Ct::from_znx(ct.data(), l.b);
                for j in 0..c.size.min(pt_size) {
                    c.d[j * c.n] -= pt.data().at(0, j)[0];
                }
                obj.cells.push(Cell { tag: (0, t, 0), ct: c, sec: 0, m: None, seed: None });
            }
        }
        Kind::Gglwe | Kind::GglweC => {
            let layout = l.gglwe_layout(l.rank_in);
            let cols: Vec<Vec<i64>> = (0..l.rank_in).map(|c| small_poly(&mut prng, n, c as u64 + inp.pt)).collect();
            let pt = scalar_from(&cols, n);
            if kind == Kind::Gglwe {
                let mut g: GGLWE<Vec<u8>> = GGLWE::alloc_from_infos(&layout);
                let need = module.gglwe_encrypt_sk_tmp_bytes(&layout);
                exact_scratch(rep, prop_op, "gglwe_encrypt_sk", need, &desc, |sc| {
                    module.gglwe_encrypt_sk(&mut g, &pt, &key.prep, &enc, &mut Source::new(sxe), &mut Source::new(sxa), sc)
                })?;
                obj.cells = gglwe_cells(&g, 0, 0, &cols, l.dsize, None);
            } else {
                let mut gc: GGLWECompressed<Vec<u8>> = GGLWECompressed::alloc_from_infos(&layout);
                let need = module.gglwe_compressed_encrypt_sk_tmp_bytes(&layout);
                exact_scratch(rep, prop_op, "gglwe_compressed_encrypt_sk", need, &desc, |sc| {
                    module.gglwe_compressed_encrypt_sk(&mut gc, &pt, &key.prep, sxa, &enc, &mut Source::new(sxe), sc)
                })?;
                let mut g: GGLWE<Vec<u8>> = GGLWE::alloc_from_infos(&layout);
                guarded(|| module.decompress_gglwe(&mut g, &gc))?;
                obj.compressed_bytes = Some(ser(&gc));
                obj.cells = gglwe_cells(&g, 0, 0, &cols, l.dsize, Some(gc.seed()));
            }
        }
        Kind::Ggsw | Kind::GgswC => {
            let layout = l.ggsw_layout();
            let m = small_poly(&mut prng, n, inp.pt);
            let pt = scalar_from(&[m.clone()], n);
            if kind == Kind::Ggsw {
                let mut g: GGSW<Vec<u8>> = GGSW::alloc_from_infos(&layout);
                let need = module.ggsw_encrypt_sk_tmp_bytes(&layout);
                exact_scratch(rep, prop_op, "ggsw_encrypt_sk", need, &desc, |sc| {
                    module.ggsw_encrypt_sk(&mut g, &pt, &key.prep, &enc, &mut Source::new(sxe), &mut Source::new(sxa), sc)
                })?;
                obj.cells = ggsw_cells(&g, 0, 0, &m, l.dsize, None);
            } else {
                let mut gc: GGSWCompressed<Vec<u8>> = GGSWCompressed::alloc_from_infos(&layout);
                let need = module.ggsw_compressed_encrypt_sk_tmp_bytes(&layout);
                exact_scratch(rep, prop_op, "ggsw_compressed_encrypt_sk", need, &desc, |sc| {
                    module.ggsw_compressed_encrypt_sk(&mut gc, &pt, &key.prep, sxa, &enc, &mut Source::new(sxe), sc)
                })?;
                let mut g: GGSW<Vec<u8>> = GGSW::alloc_from_infos(&layout);
                guarded(|| module.decompress_ggsw(&mut g, &gc))?;
                obj.compressed_bytes = Some(ser(&gc));
                obj.cells = ggsw_cells(&g, 0, 0, &m, l.dsize, Some(gc.seed()));
            }
        }
        Kind::Ksk | Kind::KskC => {
            let layout = l.gglwe_layout(l.rank_in);
            let mut r2 = Rng::new(inp.pt, 0x11);
            let dist_in = SDist::pick(r2.usize_in(0, SDIST_KINDS - 1), n, &mut r2);
            // the input secret plays the role of the plaintext
            let key_in = gen_glwe_key(module, n, l.rank_in, dist_in, seed_from(inp.pt, 2));
            if kind == Kind::Ksk {
                let mut g: GLWESwitchingKey<Vec<u8>> = GLWESwitchingKey::alloc_from_infos(&layout);
                let need = module.glwe_switching_key_encrypt_sk_tmp_bytes(&layout);
                exact_scratch(rep, prop_op, "glwe_switching_key_encrypt_sk", need, &desc, |sc| {
                    module.glwe_switching_key_encrypt_sk(&mut g, &key_in.sk, &key.sk, &enc, &mut Source::new(sxe), &mut Source::new(sxa), sc)
                })?;
                obj.cells = gglwe_cells(&g, 0, 0, &key_in.s, l.dsize, None);
            } else {
                let mut gc: GLWESwitchingKeyCompressed<Vec<u8>> = GLWESwitchingKeyCompressed::alloc_from_infos(&layout);
                let need = module.glwe_switching_key_compressed_encrypt_sk_tmp_bytes(&layout);
                exact_scratch(rep, prop_op, "glwe_switching_key_compressed_encrypt_sk", need, &desc, |sc| {
                    module.glwe_switching_key_compressed_encrypt_sk(&mut gc, &key_in.sk, &key.sk, sxa, &enc, &mut Source::new(sxe), sc)
                })?;
                let mut g: GLWESwitchingKey<Vec<u8>> = GLWESwitchingKey::alloc_from_infos(&layout);
                guarded(|| module.decompress_glwe_switching_key(&mut g, &gc))?;
                obj.compressed_bytes = Some(ser(&gc));
                let seeds = GGLWECompressedToRef::to_ref(&gc).seed().clone();
                obj.cells = gglwe_cells(&g, 0, 0, &key_in.s, l.dsize, Some(&seeds));
            }
        }
        Kind::Atk | Kind::AtkC => {
            let layout = l.gglwe_layout(l.rank);
            let q = inv_mod_2n(l.p, n);
            let out: Vec<Vec<i64>> = key.s.iter().map(|s| automorphism_i64(s, q)).collect();
            obj.secrets = vec![out];
            if kind == Kind::Atk {
                let mut g: GLWEAutomorphismKey<Vec<u8>> = GLWEAutomorphismKey::alloc_from_infos(&layout);
                let need = module.glwe_automorphism_key_encrypt_sk_tmp_bytes(&layout);
                exact_scratch(rep, prop_op, "glwe_automorphism_key_encrypt_sk", need, &desc, |sc| {
                    module.glwe_automorphism_key_encrypt_sk(&mut g, l.p, &key.sk, &enc, &mut Source::new(sxe), &mut Source::new(sxa), sc)
                })?;
                obj.cells = gglwe_cells(&g, 0, 0, &key.s, l.dsize, None);
            } else {
                let mut gc: GLWEAutomorphismKeyCompressed<Vec<u8>> = GLWEAutomorphismKeyCompressed::alloc_from_infos(&layout);
                let need = module.glwe_automorphism_key_compressed_encrypt_sk_tmp_bytes(&layout);
                exact_scratch(rep, prop_op, "glwe_automorphism_key_compressed_encrypt_sk", need, &desc, |sc| {
                    module.glwe_automorphism_key_compressed_encrypt_sk(&mut gc, l.p, &key.sk, sxa, &enc, &mut Source::new(sxe), sc)
                })?;
                let mut g: GLWEAutomorphismKey<Vec<u8>> = GLWEAutomorphismKey::alloc_from_infos(&layout);
                guarded(|| module.decompress_automorphism_key(&mut g, &gc))?;
                obj.compressed_bytes = Some(ser(&gc));
                let seeds = GGLWECompressedToRef::to_ref(&gc).seed().clone();
                obj.cells = gglwe_cells(&g, 0, 0, &key.s, l.dsize, Some(&seeds));
            }
        }
        Kind::Tsk | Kind::TskC => {
            let layout = l.gglwe_layout(l.rank);
            let pairs = tensor_pairs(&key.s);
            if kind == Kind::Tsk {
                let mut g: GLWETensorKey<Vec<u8>> = GLWETensorKey::alloc_from_infos(&layout);
                let need = module.glwe_tensor_key_encrypt_sk_tmp_bytes(&layout);
                exact_scratch(rep, prop_op, "glwe_tensor_key_encrypt_sk", need, &desc, |sc| {
                    module.glwe_tensor_key_encrypt_sk(&mut g, &key.sk, &enc, &mut Source::new(sxe), &mut Source::new(sxa), sc)
                })?;
                obj.cells = gglwe_cells(&g, 0, 0, &pairs, l.dsize, None);
            } else {
                let mut gc: GLWETensorKeyCompressed<Vec<u8>> = GLWETensorKeyCompressed::alloc_from_infos(&layout);
                let need = module.glwe_tensor_key_compressed_encrypt_sk_tmp_bytes(&layout);
                exact_scratch(rep, prop_op, "glwe_tensor_key_compressed_encrypt_sk", need, &desc, |sc| {
                    module.glwe_tensor_key_compressed_encrypt_sk(&mut gc, &key.sk, sxa, &enc, &mut Source::new(sxe), sc)
                })?;
                let mut g: GLWETensorKey<Vec<u8>> = GLWETensorKey::alloc_from_infos(&layout);
                guarded(|| module.decompress_tensor_key(&mut g, &gc))?;
                obj.compressed_bytes = Some(ser(&gc));
                let seeds = GGLWECompressedToRef::to_ref(&gc).seed().clone();
                obj.cells = gglwe_cells(&g, 0, 0, &pairs, l.dsize, Some(&seeds));
            }
        }
        Kind::G2g | Kind::G2gC => {
            let layout = l.gglwe_layout(l.rank);
            let prod = |i: usize| -> Vec<Vec<i64>> { (0..l.rank).map(|j| negacyclic_i64(&key.s[i], &key.s[j])).collect() };
            if kind == Kind::G2g {
                let mut g: GGLWEToGGSWKey<Vec<u8>> = GGLWEToGGSWKey::alloc_from_infos(&layout);
                let need = GGLWEToGGSWKeyEncryptSk::gglwe_to_ggsw_key_encrypt_sk_tmp_bytes(module, &layout);
                exact_scratch(rep, prop_op, "gglwe_to_ggsw_key_encrypt_sk", need, &desc, |sc| {
                    GGLWEToGGSWKeyEncryptSk::gglwe_to_ggsw_key_encrypt_sk(module, &mut g, &key.sk, &enc, &mut Source::new(sxe), &mut Source::new(sxa), sc)
                })?;
                for i in 0..l.rank {
                    obj.cells.extend(gglwe_cells(g.at(i), i, 0, &prod(i), l.dsize, None));
                }
            } else {
                let mut gc: GGLWEToGGSWKeyCompressed<Vec<u8>> = GGLWEToGGSWKeyCompressed::alloc_from_infos(&layout);
                let need = GGLWEToGGSWKeyCompressedEncryptSk::gglwe_to_ggsw_key_encrypt_sk_tmp_bytes(module, &layout);
                exact_scratch(rep, prop_op, "gglwe_to_ggsw_key_compressed_encrypt_sk", need, &desc, |sc| {
                    GGLWEToGGSWKeyCompressedEncryptSk::gglwe_to_ggsw_key_encrypt_sk(module, &mut gc, &key.sk, sxa, &enc, &mut Source::new(sxe), sc)
                })?;
                let mut g: GGLWEToGGSWKey<Vec<u8>> = GGLWEToGGSWKey::alloc_from_infos(&layout);
                // `GGLWEToGGSWKeyDecompress` has no implementation for `Module` in the pinned tree (the trait exists, the blanket
                // impl is missing), so the key is decompressed GGLWE by GGLWE — which is all the missing method would do
                for i in 0..l.rank {
                    guarded(|| module.decompress_gglwe(g.at_mut(i), gc.at(i)))?;
                }
                obj.compressed_bytes = Some(ser(&gc));
                for i in 0..l.rank {
                    let seeds = gc.at(i).seed().clone();
                    obj.cells.extend(gglwe_cells(g.at(i), i, 0, &prod(i), l.dsize, Some(&seeds)));
                }
            }
        }
        Kind::LweKsk => {
            let (lin, lout) = (mk_lwe(1), mk_lwe(2));
            let layout = LWESwitchingKeyLayout { n: Degree(n as u32), base2k: Base2K(l.b as u32), k: TorusPrecision(l.k as u32), dnum: Dnum(l.dnum as u32) };
            let mut g: LWESwitchingKey<Vec<u8>> = LWESwitchingKey::alloc_from_infos(&layout);
            let need = module.lwe_switching_key_encrypt_sk_tmp_bytes(&layout);
            exact_scratch(rep, prop_op, "lwe_switching_key_encrypt_sk", need, &desc, |sc| {
                module.lwe_switching_key_encrypt_sk(&mut g, &lin.sk, &lout.sk, &enc, &mut Source::new(sxe), &mut Source::new(sxa), sc)
            })?;
            obj.secrets = vec![vec![lwe_as_glwe(&lout.s, n)]];
            obj.cells = gglwe_cells(&g, 0, 0, &[lwe_as_glwe(&lin.s, n)], 1, None);
        }
        Kind::Glwe2Lwe => {
            let lk = mk_lwe(1);
            let layout = GLWEToLWEKeyLayout { n: Degree(n as u32), base2k: Base2K(l.b as u32), k: TorusPrecision(l.k as u32), rank_in: Rank(l.rank_in as u32), dnum: Dnum(l.dnum as u32) };
            let mut r2 = Rng::new(inp.pt, 0x12);
            let dist_in = SDist::pick(r2.usize_in(0, SDIST_KINDS - 1), n, &mut r2);
            let key_in = gen_glwe_key(module, n, l.rank_in, dist_in, seed_from(inp.pt, 2));
            let mut g: GLWEToLWEKey<Vec<u8>> = GLWEToLWEKey::alloc_from_infos(&layout);
            let need = module.glwe_to_lwe_key_encrypt_sk_tmp_bytes(&layout);
            exact_scratch(rep, prop_op, "glwe_to_lwe_key_encrypt_sk", need, &desc, |sc| {
                module.glwe_to_lwe_key_encrypt_sk(&mut g, &lk.sk, &key_in.sk, &enc, &mut Source::new(sxe), &mut Source::new(sxa), sc)
            })?;
            obj.secrets = vec![vec![lwe_as_glwe(&lk.s, n)]];
            obj.cells = gglwe_cells(&g, 0, 0, &key_in.s, 1, None);
        }
        Kind::Lwe2Glwe => {
            let lk = mk_lwe(1);
            let layout = LWEToGLWEKeyLayout { n: Degree(n as u32), base2k: Base2K(l.b as u32), k: TorusPrecision(l.k as u32), rank_out: Rank(l.rank as u32), dnum: Dnum(l.dnum as u32) };
            let mut g: LWEToGLWEKey<Vec<u8>> = LWEToGLWEKey::alloc_from_infos(&layout);
            let need = module.lwe_to_glwe_key_encrypt_sk_tmp_bytes(&layout);
            exact_scratch(rep, prop_op, "lwe_to_glwe_key_encrypt_sk", need, &desc, |sc| {
                module.lwe_to_glwe_key_encrypt_sk(&mut g, &lk.sk, &key.prep, &enc, &mut Source::new(sxe), &mut Source::new(sxa), sc)
            })?;
            obj.cells = gglwe_cells(&g, 0, 0, &[lwe_as_glwe(&lk.s, n)], 1, None);
        }
        Kind::Brk | Kind::BrkC => {
            let lk = mk_lwe(1);
            let layout = BlindRotationKeyLayout { n_glwe: Degree(n as u32), n_lwe: Degree(l.n_lwe as u32), base2k: Base2K(l.b as u32), k: TorusPrecision(l.k as u32), dnum: Dnum(l.dnum as u32), rank: Rank(l.rank as u32) };
            let ggsw_layout = l.ggsw_layout();
            let cst = |v: i64| -> Vec<i64> {
                let mut m = vec![0i64; n];
                m[0] = v;
                m
            };
            if kind == Kind::Brk {
                let mut brk: BlindRotationKey<Vec<u8>, CGGI> = BlindRotationKey::alloc(&layout);
                let need = BlindRotationKey::<Vec<u8>, CGGI>::encrypt_sk_tmp_bytes(module, &layout);
                exact_scratch(rep, prop_op, "blind_rotation_key_encrypt_sk", need, &desc, |sc| {
                    brk.encrypt_sk(module, &key.prep, &lk.sk, &enc, &mut Source::new(sxe), &mut Source::new(sxa), sc)
                })?;
                let bytes = ser(&brk);
                let mut cur = std::io::Cursor::new(&bytes[16..]);
                for i in 0..l.n_lwe {
                    let mut g: GGSW<Vec<u8>> = GGSW::alloc_from_infos(&ggsw_layout);
                    g.read_from(&mut cur).map_err(|e| format!("harness: cannot re-read GGSW {i} of the serialised blind-rotation key: {e}"))?;
                    obj.cells.extend(ggsw_cells(&g, i, 0, &cst(lk.s[i]), 1, None));
                }
            } else {
                let mut brk: BlindRotationKeyCompressed<Vec<u8>, CGGI> = BlindRotationKeyCompressed::alloc(&layout);
                let need = module.blind_rotation_key_compressed_encrypt_sk_tmp_bytes(&layout);
                exact_scratch(rep, prop_op, "blind_rotation_key_compressed_encrypt_sk", need, &desc, |sc| {
                    module.blind_rotation_key_compressed_encrypt_sk(&mut brk, &key.prep, &lk.sk, sxa, &enc, &mut Source::new(sxe), sc)
                })?;
                let bytes = ser(&brk);
                let mut cur = std::io::Cursor::new(&bytes[16..]);
                for i in 0..l.n_lwe {
                    let mut gc: GGSWCompressed<Vec<u8>> = GGSWCompressed::alloc_from_infos(&ggsw_layout);
                    gc.read_from(&mut cur).map_err(|e| format!("harness: cannot re-read compressed GGSW {i} of the serialised blind-rotation key: {e}"))?;
                    let mut g: GGSW<Vec<u8>> = GGSW::alloc_from_infos(&ggsw_layout);
                    guarded(|| module.decompress_ggsw(&mut g, &gc))?;
                    obj.cells.extend(ggsw_cells(&g, i, 0, &cst(lk.s[i]), 1, Some(gc.seed())));
                }
                obj.compressed_bytes = Some(bytes);
            }
        }
        Kind::Cbt => {
            let lk = mk_lwe(1);
            // three sub-keys with their own radices / precisions
            let mut r3 = Rng::new(inp.sk ^ 0x77, l.k as u64);
            let _ = &mut r3;
            let brk_layout = BlindRotationKeyLayout { n_glwe: Degree(n as u32), n_lwe: Degree(l.n_lwe as u32), base2k: Base2K(l.b as u32), k: TorusPrecision(l.k as u32), dnum: Dnum(l.dnum as u32), rank: Rank(l.rank as u32) };
            let atk_layout = GLWEAutomorphismKeyLayout { n: Degree(n as u32), base2k: Base2K(l.b as u32), k: TorusPrecision(l.k as u32), rank: Rank(l.rank as u32), dnum: Dnum(l.dnum as u32), dsize: Dsize(1) };
            let tsk_layout = GGLWEToGGSWKeyLayout { n: Degree(n as u32), base2k: Base2K(l.b as u32), k: TorusPrecision(l.k as u32), rank: Rank(l.rank as u32), dnum: Dnum(l.dnum as u32), dsize: Dsize(1) };
            let layout = CircuitBootstrappingKeyLayout { brk_layout, atk_layout, tsk_layout };
            let infos = CircuitBootstrappingEncryptionInfos { brk: enc, atk: enc, tsk: enc };
            let mut cbt: CircuitBootstrappingKey<Vec<u8>, CGGI> = CircuitBootstrappingKey::alloc_from_infos(&layout);
            let need = CircuitBootstrappingKeyEncryptSk::<CGGI, BE>::circuit_bootstrapping_key_encrypt_sk_tmp_bytes(module, &layout);
            exact_scratch(rep, prop_op, "circuit_bootstrapping_key_encrypt_sk", need, &desc, |sc| {
                cbt.encrypt_sk(module, &lk.sk, &key.sk, &infos, &mut Source::new(sxe), &mut Source::new(sxa), sc)
            })?;
            let bytes = ser(&cbt);
            let mut cur = std::io::Cursor::new(&bytes[16..]);
            let ggsw_layout = l.ggsw_layout();
            let cst = |v: i64| -> Vec<i64> {
                let mut m = vec![0i64; n];
                m[0] = v;
                m
            };
            let herr = |what: &str, e: std::io::Error| format!("harness: cannot re-read {what} of the serialised circuit-bootstrapping key: {e}");
            let mut sub = 0usize;
            let mut brk_cells = Vec::new();
            for i in 0..l.n_lwe {
                let mut g: GGSW<Vec<u8>> = GGSW::alloc_from_infos(&ggsw_layout);
                g.read_from(&mut cur).map_err(|e| herr("a blind-rotation GGSW", e))?;
                brk_cells.extend(ggsw_cells(&g, 1000 + i, 0, &cst(lk.s[i]), 1, None));
            }
            use std::io::Read;
            let mut w8 = [0u8; 8];
            cur.read_exact(&mut w8).map_err(|e| herr("the key count", e))?;
            let n_atk = u64::from_le_bytes(w8) as usize;
            for _ in 0..n_atk {
                cur.read_exact(&mut w8).map_err(|e| herr("a Galois element", e))?;
                let p = i64::from_le_bytes(w8);
                let mut g: GLWEAutomorphismKey<Vec<u8>> = GLWEAutomorphismKey::alloc_from_infos(&atk_layout);
                g.read_from(&mut cur).map_err(|e| herr("an automorphism key", e))?;
                let q = inv_mod_2n(p, n);
                obj.secrets.push(key.s.iter().map(|s| automorphism_i64(s, q)).collect());
                obj.noise.push(noise);
                let sec = obj.secrets.len() - 1;
                obj.cells.extend(gglwe_cells(&g, sub, sec, &key.s, 1, None));
                sub += 1;
            }
            obj.cells.extend(brk_cells);
            let mut g: GGLWEToGGSWKey<Vec<u8>> = GGLWEToGGSWKey::alloc_from_infos(&tsk_layout);
            g.read_from(&mut cur).map_err(|e| herr("the GGLWE-to-GGSW key", e))?;
            for i in 0..l.rank {
                let prod: Vec<Vec<i64>> = (0..l.rank).map(|j| negacyclic_i64(&key.s[i], &key.s[j])).collect();
                obj.cells.extend(gglwe_cells(g.at(i), 2000 + i, 0, &prod, 1, None));
            }
            rep.count("cbt_automorphism_keys", n_atk as i128);
        }
    }
    Ok(obj)
}
