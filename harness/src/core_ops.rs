// Catalogue of scheme-level operations (poulpy-core, CMux of poulpy-bin-fhe, a few poulpy-ckks operations) with a uniform
// execution interface (included once per backend). Used by c11core (determinism / read-only operands), c12core (exact scratch
// windows), c17core (sanitizer workload).
//
// A case is (op, seed): ring degree, ranks, radices, sizes, gadget shapes, keys, operands, rotation / Galois / offset
// parameters are all derived from the seed, so a case can be replayed from its descriptor. Keys and operands are generated
// with a generous zeroed scratch (setup is not under test); then the operation under test runs once per `Opts` entry with
//   (a) the destination pre-filled with garbage derived from `fill_seed` (whole data buffer; in-place forms hold their input),
//   (b) a scratch window garbage-filled from `fill_seed`: exactly the companion `*_tmp_bytes` (Exact) or 3x that + 256 KiB (Generous).
// Destinations and prepared keys live in canary-guarded harness allocations (views made with the public `ScratchTakeCore::take_*`
// helpers), so their raw bytes can be compared and overruns are seen natively.
#[allow(unused_imports)]
pub use poulpy_core::api::*;
#[allow(unused_imports)]
pub use poulpy_core::layouts::*;
#[allow(unused_imports)]
pub use poulpy_core::{EncryptionLayout, ScratchTakeCore};
use poulpy_bin_fhe::bdd_arithmetic::{Cmux, Cswap};
use std::collections::HashMap;

#[derive(Clone, Copy, Debug, PartialEq, Eq)]
pub enum ScratchMode {
    Generous,
    Exact,
    ExactUninit,
}

#[derive(Clone, Debug)]
pub struct Opts {
    pub fill_seed: u64,
    pub scratch: ScratchMode,
    /// branch on every output byte after the call (lets memcheck / Miri see outputs that depend on uninitialised scratch)
    pub fold: bool,
    /// N = 8, rank 1, small sizes (Miri / valgrind budgets); part of the case identity
    pub tiny: bool,
    /// the scratch slice starts this many bytes past a 64-byte boundary (0 = aligned window)
    pub misalign: usize,
}

impl Default for Opts {
    fn default() -> Self {
        Opts { fill_seed: 1, scratch: ScratchMode::Generous, fold: false, tiny: false, misalign: 0 }
    }
}

#[derive(Clone, Debug)]
pub struct Outcome {
    pub op: &'static str,
    pub desc: J,
    /// empty: the case was skipped (shape not admissible / setup failed)
    pub key: String,
    pub panic: Option<String>,
    /// raw bytes of the destination after the call
    pub bytes: Vec<u8>,
    /// a read-only operand (input ciphertext, plaintext, prepared key) whose bytes changed
    pub ro_changed: Option<String>,
    /// canary guards around the scratch window / destination / prepared keys
    pub guard_hit: Option<String>,
    pub tmp_bytes: usize,
    pub nontrivial: bool,
    pub folded: u64,
    pub setup_error: Option<String>,
}

/// harness-owned, canary-guarded buffer that the library's own `take_*` helpers carve an object out of
pub struct Held {
    pub g: Guarded,
}

impl Held {
    pub fn zeroed(bytes: usize) -> Held {
        Held { g: Guarded::new(bytes, true) }
    }
    pub fn sc(&mut self) -> &mut Scratch<BE> {
        Scratch::<BE>::from_bytes(self.g.bytes_mut())
    }
}

pub struct Ctx {
    pub rs: Rng,
    pub rd: Rng,
    pub rf: Rng,
    pub seed: u64,
    pub opts: Vec<Opts>,
    pub cur: usize,
    pub tiny: bool,
    pub desc: J,
    pub key: String,
    pub tmp_bytes: usize,
    pub guards: Vec<GuardRef>,
    pub nontrivial: bool,
    pub results: Vec<(Option<String>, Vec<u8>, Option<String>, Option<String>, u64)>,
}

impl Ctx {
    fn p(&mut self, k: &str, v: impl Into<J>) {
        let v: J = v.into();
        self.key.push('|');
        self.key.push_str(&v.render());
        self.desc.put(k, v);
    }
    fn guard(&mut self, h: &Held) -> GuardRef {
        let r = h.g.raw_ref();
        self.guards.push(r);
        r
    }
    fn begin(&mut self, i: usize) {
        self.cur = i;
        self.rf = Rng::new(self.opts[i].fill_seed ^ self.seed.rotate_left(17), 0xf1);
    }
    /// destination buffer: garbage-filled, guarded
    fn dest(&mut self, bytes: usize) -> Held {
        let mut h = Held::zeroed(bytes);
        h.g.fill_random(&mut self.rf);
        h
    }
    fn scratch(&mut self, bytes: usize) -> ScratchWin {
        self.tmp_bytes = bytes;
        let mut sw = match self.opts[self.cur].scratch {
            // generous = far more than any inner re-assertion can ask for (glwe_trace re-asserts its full query for a larger temporary)
            ScratchMode::Generous => ScratchWin::new_misaligned(3 * bytes + (256 << 10), self.opts[self.cur].misalign),
            ScratchMode::Exact => ScratchWin::new_misaligned(bytes, self.opts[self.cur].misalign),
            ScratchMode::ExactUninit => return ScratchWin::new_uninit(bytes),
        };
        sw.fill(&mut self.rf);
        sw
    }
    fn post(&mut self, r: Result<(), String>, sw: &ScratchWin, before: Vec<(&'static str, Vec<u8>)>, after: Vec<(&'static str, Vec<u8>)>, out: Vec<u8>, dest_guards: &[GuardRef]) {
        let ro = before.iter().zip(&after).find(|(b, a)| b.1 != a.1).map(|(b, _)| format!("read-only operand `{}` was modified", b.0));
        let mut hit = None;
        if !sw.g.guards_intact() {
            hit = Some("guard bytes in front of the scratch window were modified".to_string());
        }
        for g in self.guards.iter().chain(dest_guards) {
            if hit.is_none() && !unsafe { g.guards_intact() } {
                hit = Some("guard bytes around the destination / a prepared key were modified".to_string());
            }
        }
        let mut folded = 0u64;
        if self.opts[self.cur].fold && r.is_ok() {
            for b in &out {
                if *b & 1 == 1 {
                    folded = folded.wrapping_add(1);
                } else {
                    folded = folded.rotate_left(1);
                }
            }
        }
        self.results.push((r.err(), out, ro, hit, folded));
    }
}

fn setup_scratch(bytes: usize) -> ScratchWin {
    ScratchWin::new(bytes + (64 << 10))
}

fn i64_bytes(x: &[i64]) -> Vec<u8> {
    let mut v = Vec::with_capacity(x.len() * 8);
    for a in x {
        v.extend_from_slice(&a.to_le_bytes());
    }
    v
}
fn b_glwe<G: GLWEToRef>(g: &G) -> Vec<u8> {
    i64_bytes(g.to_ref().data().raw())
}
fn b_lwe<G: LWEToRef>(g: &G) -> Vec<u8> {
    i64_bytes(g.to_ref().data().raw())
}
fn b_gglwe<G: GGLWEToRef>(g: &G) -> Vec<u8> {
    i64_bytes(g.to_ref().data().raw())
}
fn b_ggsw<G: GGSWToRef>(g: &G) -> Vec<u8> {
    let g = g.to_ref();
    let (dnum, rank) = (g.dnum().0 as usize, g.rank().0 as usize);
    let mut v = Vec::new();
    for r in 0..dnum {
        for c in 0..=rank {
            v.extend(i64_bytes(g.at(r, c).data().raw()));
        }
    }
    v
}
/// destination bytes after the call (its view is not used afterwards)
fn ser<W: WriterTo>(w: &W) -> Vec<u8> {
    let mut v = Vec::new();
    w.write_to(&mut v).expect("write_to into a Vec");
    v
}
fn rd(g: GuardRef) -> Vec<u8> {
    unsafe { g.read() }
}
/// bytes of a read-only operand that lives in a guarded buffer. Under Miri the snapshot is skipped: reading the buffer behind a live
/// `&mut [u8]` view would be a Stacked Borrows violation of the harness itself (the view is used again by the call)
fn rdk(g: GuardRef) -> Vec<u8> {
    if cfg!(miri) { Vec::new() } else { unsafe { g.read() } }
}

// ---------------------------------------------------------------------------------------------
// shapes
// ---------------------------------------------------------------------------------------------
fn glwe_lay(n: usize, b: usize, k: usize, rank: usize) -> GLWELayout {
    GLWELayout { n: Degree(n as u32), base2k: Base2K(b as u32), k: TorusPrecision(k as u32), rank: Rank(rank as u32) }
}
fn ggsw_lay(n: usize, b: usize, k: usize, rank: usize, dnum: usize, dsize: usize) -> GGSWLayout {
    GGSWLayout { n: Degree(n as u32), base2k: Base2K(b as u32), k: TorusPrecision(k as u32), rank: Rank(rank as u32), dnum: Dnum(dnum as u32), dsize: Dsize(dsize as u32) }
}
fn gglwe_lay(n: usize, b: usize, k: usize, rank_in: usize, rank_out: usize, dnum: usize, dsize: usize) -> GGLWELayout {
    GGLWELayout {
        n: Degree(n as u32),
        base2k: Base2K(b as u32),
        k: TorusPrecision(k as u32),
        rank_in: Rank(rank_in as u32),
        rank_out: Rank(rank_out as u32),
        dnum: Dnum(dnum as u32),
        dsize: Dsize(dsize as u32),
    }
}

fn log2u(n: usize) -> usize {
    n.trailing_zeros() as usize
}

/// true iff a DFT-domain product accumulating `terms` negacyclic products with operand digit widths bits_a, bits_b is exact here
fn product_exact(n: usize, terms: usize, bits_a: usize, bits_b: usize) -> bool {
    let logn = (n.max(2) as f64).log2();
    if IS_FFT64 {
        let lhs = (terms as f64).log2() + logn + (bits_a + bits_b) as f64 - 2.0 + (13.0 * logn).log2();
        bits_a <= 50 && bits_b <= 50 && lhs < 52.0
    } else {
        (terms as f64 * n as f64).log2() + (bits_a + bits_b) as f64 - 2.0 < 118.0
    }
}
fn max_base2k(n: usize, terms: usize, extra: usize, cap: usize) -> usize {
    let mut b = cap;
    while b > 2 && !product_exact(n, terms, b + extra, b) {
        b -= 1;
    }
    b
}
fn be_cap() -> usize {
    if IS_FFT64 { 26 } else { 52 }
}

#[derive(Clone, Copy, Debug)]
struct Gadget {
    b: usize,
    size: usize,
    k: usize,
    dsize: usize,
    dnum: usize,
}

fn conv_size(a_size: usize, a_b: usize, key_b: usize) -> usize {
    if a_b == key_b { a_size } else { (a_size * a_b).div_ceil(key_b) }
}

fn pick_n(cx: &mut Ctx) -> usize {
    if cx.tiny { 8 } else { *cx.rs.pick(&[8usize, 8, 16, 16, 32, 64]) }
}
fn pick_rank(cx: &mut Ctx) -> usize {
    if cx.tiny { 1 } else { cx.rs.usize_in(1, 3) }
}
fn pick_size(cx: &mut Ctx, hi: usize) -> usize {
    if cx.tiny { cx.rs.usize_in(1, 2.min(hi)) } else { cx.rs.usize_in(1, hi) }
}
/// k in ((size-1) b, size b]
fn pick_k(rs: &mut Rng, b: usize, size: usize) -> usize {
    let slack = match rs.below(4) {
        0 => 0,
        1 => b - 1,
        _ => rs.below(b as u64) as usize,
    };
    (size * b - slack).max(1)
}
/// key radix inside the exactness domain for a gadget product of `rank_in` columns and digit size `dsize`
fn pick_key_b(cx: &mut Ctx, n: usize, rank_in: usize, dsize: usize) -> usize {
    let hi = max_base2k(n, rank_in * 6 * dsize, 1, be_cap());
    let lo = 3.min(hi);
    match cx.rs.below(4) {
        0 => hi,
        _ => cx.rs.usize_in(lo, hi),
    }
}
/// coefficient-domain radix of ciphertexts (converted to the key radix before any DFT)
fn pick_ct_b(cx: &mut Ctx, kb: usize, cap: usize) -> usize {
    match cx.rs.below(3) {
        0 => kb.min(cap),
        1 => (kb as i64 + cx.rs.i64_in(-3, 3)).clamp(2, cap as i64) as usize,
        _ => cx.rs.usize_in(2, cap),
    }
}
/// gadget shape for inputs of `a_size` limbs in radix `a_b`: dsize 1..4, dnum smaller / equal / larger than needed, key size with slack
fn pick_gadget(cx: &mut Ctx, n: usize, a_size: usize, a_b: usize, rank_in: usize, max_dsize: usize) -> Gadget {
    let mut dsize = cx.rs.usize_in(1, max_dsize);
    let b = if cx.rs.below(3) == 0 { a_b.min(max_base2k(n, rank_in * 6 * dsize, 1, be_cap())) } else { pick_key_b(cx, n, rank_in, dsize) }.max(2);
    let acs = conv_size(a_size, a_b, b);
    if acs % dsize == 0 && dsize > 1 && cx.rs.below(4) == 0 {
        dsize -= 1;
    }
    let needed = acs.div_ceil(dsize);
    let dnum = match cx.rs.below(4) {
        0 => needed.saturating_sub(1).max(1),
        1 => needed + 1,
        _ => needed,
    }
    .clamp(1, if cx.tiny { 3 } else { 6 });
    let size = (dnum * dsize).max(dsize + 1) + cx.rs.below(3) as usize;
    let k = size * b - cx.rs.below(b as u64) as usize;
    Gadget { b, size, k, dsize, dnum }
}
fn put_gadget(cx: &mut Ctx, pfx: &str, g: &Gadget) {
    cx.p(&format!("{pfx}_base2k"), g.b);
    cx.p(&format!("{pfx}_k"), g.k);
    cx.p(&format!("{pfx}_size"), g.size);
    cx.p(&format!("{pfx}_dsize"), g.dsize);
    cx.p(&format!("{pfx}_dnum"), g.dnum);
}

fn fill_digits(v: &mut [i64], n: usize, b: usize, class: u64, r: &mut Rng) {
    let bb = b.clamp(1, 62);
    let (hi, lo) = ((1i64 << (bb - 1)) - 1, -(1i64 << (bb - 1)));
    for (idx, x) in v.iter_mut().enumerate() {
        *x = match class {
            5 => hi,
            6 => lo,
            7 => {
                if (idx / n.max(1) + idx) % 2 == 0 {
                    hi
                } else {
                    lo
                }
            }
            _ => r.signed_bits(bb),
        };
    }
}
fn rand_glwe(cx: &mut Ctx, n: usize, b: usize, size: usize, rank: usize) -> GLWE<Vec<u8>> {
    let mut ct = GLWE::alloc(Degree(n as u32), Base2K(b as u32), TorusPrecision((size * b) as u32), Rank(rank as u32));
    let class = cx.rd.below(8);
    fill_digits(ct.data_mut().raw_mut(), n, b, class, &mut cx.rd);
    ct
}
fn rand_glwe_lay(cx: &mut Ctx, lay: &GLWELayout) -> GLWE<Vec<u8>> {
    let mut ct = GLWE::alloc_from_infos(lay);
    let class = cx.rd.below(8);
    fill_digits(ct.data_mut().raw_mut(), lay.n.0 as usize, lay.base2k.0 as usize, class, &mut cx.rd);
    ct
}
fn rand_lwe(cx: &mut Ctx, n_lwe: usize, b: usize, size: usize) -> LWE<Vec<u8>> {
    let mut ct = LWE::alloc(Degree(n_lwe as u32), Base2K(b as u32), TorusPrecision((size * b) as u32));
    let class = cx.rd.below(8);
    fill_digits(ct.data_mut().raw_mut(), n_lwe + 1, b, class, &mut cx.rd);
    ct
}
fn rand_ggsw(cx: &mut Ctx, lay: &GGSWLayout) -> GGSW<Vec<u8>> {
    let mut g = GGSW::alloc_from_infos(lay);
    let (n, b) = (lay.n.0 as usize, lay.base2k.0 as usize);
    for r in 0..lay.dnum.0 as usize {
        for c in 0..=lay.rank.0 as usize {
            let mut cell = g.at_mut(r, c);
            fill_digits(cell.data_mut().raw_mut(), n, b, 0, &mut cx.rd);
        }
    }
    g
}
fn rand_gglwe(cx: &mut Ctx, lay: &GGLWELayout) -> GGLWE<Vec<u8>> {
    let mut g = GGLWE::alloc_from_infos(lay);
    fill_digits(g.data_mut().raw_mut(), lay.n.0 as usize, lay.base2k.0 as usize, 0, &mut cx.rd);
    g
}
fn rand_pt(cx: &mut Ctx, n: usize, b: usize, k: usize) -> GLWEPlaintext<Vec<u8>> {
    let mut pt = GLWEPlaintext::alloc(Degree(n as u32), Base2K(b as u32), TorusPrecision(k as u32));
    let class = cx.rd.below(8);
    fill_digits(pt.data_mut().raw_mut(), n, b, class, &mut cx.rd);
    pt
}
fn fill_secret(cx: &mut Ctx, sk: &mut GLWESecret<Vec<u8>>, n: usize, allow_zero: bool) -> &'static str {
    let mut src = Source::new(cx.rd.seed32());
    match cx.rs.below(if allow_zero { 6 } else { 5 }) {
        0 => {
            sk.fill_binary_prob(0.5, &mut src);
            "binary_prob"
        }
        1 => {
            sk.fill_ternary_hw((n / 2).max(1), &mut src);
            "ternary_hw"
        }
        2 => {
            sk.fill_binary_hw((n / 2).max(1), &mut src);
            "binary_hw"
        }
        3 | 4 => {
            sk.fill_ternary_prob(0.5, &mut src);
            "ternary_prob"
        }
        _ => {
            sk.fill_zero();
            "zero"
        }
    }
}
fn new_lwe_sk(cx: &mut Ctx, n_lwe: usize) -> LWESecret<Vec<u8>> {
    let mut src = Source::new(cx.rd.seed32());
    let mut sk = LWESecret::alloc(Degree(n_lwe as u32));
    match cx.rs.below(3) {
        0 => sk.fill_binary_prob(0.5, &mut src),
        _ => sk.fill_ternary_prob(0.5, &mut src),
    }
    sk
}
fn pick_b_any(rs: &mut Rng) -> usize {
    match rs.below(6) {
        0 => *rs.pick(&[1usize, 2, 3, 17, 50, 52, 60, 62]),
        1 => rs.usize_in(1, 62),
        _ => rs.usize_in(4, 54),
    }
}
fn pick_rot(rs: &mut Rng, n: usize) -> i64 {
    match rs.below(8) {
        0 => *rs.pick(&[1i64 << 40, -(1i64 << 40), 0, 2 * n as i64, -(2 * n as i64), n as i64, -(n as i64)]),
        _ => rs.i64_in(-4 * n as i64, 4 * n as i64),
    }
}
fn pick_galois(rs: &mut Rng, n: usize) -> i64 {
    let v = 2 * rs.below(n as u64) as i64 + 1;
    if rs.coin() { v } else { -v }
}

// ---------------------------------------------------------------------------------------------
// setup macros: objects whose views must stay borrowed from a guarded buffer for the rest of the arm
// ---------------------------------------------------------------------------------------------
/// GLWE secret + its prepared form inside a guarded buffer
macro_rules! held_secret {
    ($cx:ident, $module:ident, $n:expr, $rank:expr, $zero_ok:expr => $sk:ident, $skp:ident, $skref:ident) => {
        let mut $sk = GLWESecret::alloc(Degree($n as u32), Rank($rank as u32));
        let dist_name = fill_secret(&mut *$cx, &mut $sk, $n, $zero_ok);
        $cx.p(concat!(stringify!($sk), "_dist"), dist_name);
        let mut h = Held::zeroed($module.glwe_secret_prepared_bytes_of(Rank($rank as u32)));
        let $skref = $cx.guard(&h);
        let (mut $skp, _) = h.sc().take_glwe_secret_prepared($module, Rank($rank as u32));
        $module.glwe_secret_prepare(&mut $skp, &$sk);
    };
}
/// GLWE switching key (sk_in -> sk_out) + prepared form inside a guarded buffer
macro_rules! held_swk {
    ($cx:ident, $module:ident, $lay:expr, $sk_in:expr, $sk_out:expr => $key:ident, $prep:ident, $pref:ident) => {
        let mut $key = GLWESwitchingKey::alloc_from_infos(&$lay);
        {
            let enc = EncryptionLayout::new_from_default_sigma($lay).unwrap();
            let (mut xe, mut xa) = (Source::new($cx.rd.seed32()), Source::new($cx.rd.seed32()));
            let mut sw = setup_scratch($module.glwe_switching_key_encrypt_sk_tmp_bytes(&$lay));
            $module.glwe_switching_key_encrypt_sk(&mut $key, $sk_in, $sk_out, &enc, &mut xe, &mut xa, sw.scratch());
        }
        let mut h = Held::zeroed($module.glwe_switching_key_prepared_bytes_of_from_infos(&$lay));
        let $pref = $cx.guard(&h);
        let (mut $prep, _) = h.sc().take_glwe_switching_key_prepared($module, &$lay);
        {
            let mut sw = setup_scratch($module.glwe_switching_key_prepare_tmp_bytes(&$lay));
            $module.glwe_switching_key_prepare(&mut $prep, &$key, sw.scratch());
        }
    };
}
/// automorphism key for Galois element p + prepared form inside a guarded buffer
macro_rules! held_atk {
    ($cx:ident, $module:ident, $lay:expr, $p:expr, $sk:expr => $key:ident, $prep:ident, $pref:ident) => {
        let mut $key = GLWEAutomorphismKey::alloc_from_infos(&$lay);
        {
            let enc = EncryptionLayout::new_from_default_sigma($lay).unwrap();
            let (mut xe, mut xa) = (Source::new($cx.rd.seed32()), Source::new($cx.rd.seed32()));
            let mut sw = setup_scratch($module.glwe_automorphism_key_encrypt_sk_tmp_bytes(&$lay));
            $module.glwe_automorphism_key_encrypt_sk(&mut $key, $p, $sk, &enc, &mut xe, &mut xa, sw.scratch());
        }
        let mut h = Held::zeroed($module.glwe_automorphism_key_prepared_bytes_of_from_infos(&$lay));
        let $pref = $cx.guard(&h);
        let (mut $prep, _) = h.sc().take_glwe_automorphism_key_prepared($module, &$lay);
        {
            let mut sw = setup_scratch($module.glwe_automorphism_key_prepare_tmp_bytes(&$lay));
            $module.glwe_automorphism_key_prepare(&mut $prep, &$key, sw.scratch());
        }
    };
}
/// GGLWE-to-GGSW key (device-owned: the library offers no borrowed constructor for it)
macro_rules! owned_tsk {
    ($cx:ident, $module:ident, $lay:expr, $sk:expr => $key:ident, $prep:ident) => {
        let mut $key = GGLWEToGGSWKey::alloc_from_infos(&$lay);
        {
            let enc = EncryptionLayout::new_from_default_sigma($lay).unwrap();
            let (mut xe, mut xa) = (Source::new($cx.rd.seed32()), Source::new($cx.rd.seed32()));
            let mut sw = setup_scratch(GGLWEToGGSWKeyEncryptSk::gglwe_to_ggsw_key_encrypt_sk_tmp_bytes($module, &$lay));
            GGLWEToGGSWKeyEncryptSk::gglwe_to_ggsw_key_encrypt_sk($module, &mut $key, $sk, &enc, &mut xe, &mut xa, sw.scratch());
        }
        let mut $prep = $module.gglwe_to_ggsw_key_prepared_alloc_from_infos(&$lay);
        {
            let mut sw = setup_scratch($module.gglwe_to_ggsw_key_prepare_tmp_bytes(&$lay));
            $module.gglwe_to_ggsw_key_prepare(&mut $prep, &$key, sw.scratch());
        }
    };
}
/// GGSW of a small plaintext + prepared form inside a guarded buffer
macro_rules! held_ggsw {
    ($cx:ident, $module:ident, $lay:expr, $skp:expr => $g:ident, $prep:ident, $pref:ident) => {
        let mut $g = GGSW::alloc_from_infos(&$lay);
        {
            let n = $lay.n.0 as usize;
            let mut pt = ScalarZnx::alloc(n, 1);
            match $cx.rs.below(4) {
                0 => pt.at_mut(0, 0)[0] = 1,
                1 => pt.at_mut(0, 0)[$cx.rs.below(n as u64) as usize] = -1,
                2 => {}
                _ => pt.at_mut(0, 0).iter_mut().for_each(|x| *x = $cx.rd.i64_in(-1, 1)),
            }
            let enc = EncryptionLayout::new_from_default_sigma($lay).unwrap();
            let (mut xe, mut xa) = (Source::new($cx.rd.seed32()), Source::new($cx.rd.seed32()));
            let mut sw = setup_scratch($module.ggsw_encrypt_sk_tmp_bytes(&$lay));
            $module.ggsw_encrypt_sk(&mut $g, &pt, $skp, &enc, &mut xe, &mut xa, sw.scratch());
        }
        let mut h = Held::zeroed($module.ggsw_prepared_bytes_of_from_infos(&$lay));
        let $pref = $cx.guard(&h);
        let (mut $prep, _) = h.sc().take_ggsw_prepared($module, &$lay);
        {
            let mut sw = setup_scratch($module.ggsw_prepare_tmp_bytes(&$lay));
            $module.ggsw_prepare(&mut $prep, &$g, sw.scratch());
        }
    };
}

/// run the operation once per `Opts` entry. `dest` = statements creating the (garbage-filled) destination and the per-run
/// random sources; `ro` = read-only operands as (name, bytes), evaluated before and after; `out` = destination bytes.
macro_rules! exec {
    ($cx:ident, $bytes:expr, dest = { $($dest:tt)* }, call = |$sc:ident| $call:expr, ro = $ro:expr, out = $out:expr, guards = $dg:expr) => {{
        for oi in 0..$cx.opts.len() {
            $cx.begin(oi);
            $($dest)*
            let mut sw = $cx.scratch($bytes);
            let before: Vec<(&'static str, Vec<u8>)> = $ro;
            let r = {
                let $sc = sw.scratch();
                guarded(|| $call)
            };
            let after: Vec<(&'static str, Vec<u8>)> = $ro;
            let out: Vec<u8> = $out;
            let dg: Vec<GuardRef> = $dg;
            $cx.post(r, &sw, before, after, out, &dg);
        }
    }};
}

/// GLWE destination inside a guarded buffer: `$res` is the view, `$rref` the raw handle
macro_rules! dest_glwe {
    ($cx:ident, $lay:expr => $res:ident, $rref:ident) => {
        let mut hres = $cx.dest(GLWE::<Vec<u8>>::bytes_of_from_infos(&$lay));
        let $rref = hres.g.raw_ref();
        #[allow(unused_mut)]
        let (mut $res, _) = hres.sc().take_glwe(&$lay);
    };
}
macro_rules! dest_ggsw {
    ($cx:ident, $lay:expr => $res:ident, $rref:ident) => {
        let mut hres = $cx.dest(GGSW::<Vec<u8>>::bytes_of_from_infos(&$lay));
        let $rref = hres.g.raw_ref();
        #[allow(unused_mut)]
        let (mut $res, _) = hres.sc().take_ggsw(&$lay);
    };
}
/// LWE destinations are owned vectors: ScratchTakeCore::take_lwe(infos) yields a view of dimension infos.n() - 1 (it takes n
/// coefficients per limb where LWE::alloc takes n + 1), so it cannot stand in for an allocated ciphertext
macro_rules! dest_lwe {
    ($cx:ident, $lay:expr => $res:ident) => {
        let mut $res: LWE<Vec<u8>> = LWE::alloc_from_infos(&$lay);
        for x in $res.data_mut().raw_mut().iter_mut() {
            *x = $cx.rf.next_i64();
        }
    };
}
/// GGLWE-shaped destinations are owned vectors (ScratchTakeCore::take_gglwe does not reproduce the row count of `alloc`)
fn garbage_gglwe(cx: &mut Ctx, g: &mut GGLWE<Vec<u8>>) {
    for x in g.data_mut().raw_mut().iter_mut() {
        *x = cx.rf.next_i64();
    }
}

pub const CORE_OPS: &[&str] = &[
    // encryption / decryption
    "glwe_encrypt_sk", "glwe_encrypt_zero_sk", "glwe_encrypt_pk", "glwe_encrypt_zero_pk", "lwe_encrypt_sk", "glwe_decrypt", "lwe_decrypt", "ggsw_encrypt_sk", "gglwe_encrypt_sk",
    "glwe_compressed_encrypt_sk", "ggsw_compressed_encrypt_sk", "gglwe_compressed_encrypt_sk",
    // noise-free
    "glwe_add_into", "glwe_add_assign", "glwe_sub", "glwe_sub_assign", "glwe_sub_negate_assign", "glwe_negate", "glwe_negate_assign", "glwe_copy", "glwe_rotate",
    "glwe_rotate_assign", "glwe_mul_xp_minus_one", "glwe_mul_xp_minus_one_assign", "glwe_rsh", "glwe_lsh_assign", "glwe_lsh", "glwe_lsh_add", "glwe_lsh_sub",
    "glwe_normalize", "glwe_normalize_assign", "ggsw_rotate", "ggsw_rotate_assign",
    // key switching family
    "glwe_keyswitch", "glwe_keyswitch_assign", "gglwe_keyswitch", "gglwe_keyswitch_assign", "ggsw_keyswitch", "ggsw_keyswitch_assign", "lwe_keyswitch",
    "glwe_automorphism", "glwe_automorphism_assign", "glwe_automorphism_add", "glwe_automorphism_add_assign", "glwe_automorphism_sub", "glwe_automorphism_sub_negate",
    "glwe_automorphism_sub_assign", "glwe_automorphism_sub_negate_assign", "ggsw_automorphism", "ggsw_automorphism_assign", "glwe_trace", "glwe_trace_assign", "glwe_pack",
    "glwe_packer", "glwe_from_lwe", "lwe_from_glwe", "lwe_sample_extract",
    // external products
    "glwe_external_product", "glwe_external_product_assign", "gglwe_external_product", "gglwe_external_product_assign", "ggsw_external_product",
    "ggsw_external_product_assign", "cmux", "cmux_assign", "cmux_assign_neg", "cswap", "ggsw_from_gglwe",
    // multiplications
    "glwe_mul_plain", "glwe_mul_plain_assign", "glwe_mul_const", "glwe_mul_const_assign", "glwe_tensor_apply", "glwe_tensor_square_apply", "glwe_tensor_apply_add_assign",
    "glwe_tensor_relinearize", "glwe_tensor_decrypt",
    // key preparation
    "glwe_switching_key_prepare", "glwe_automorphism_key_prepare", "prepare_tensor_key", "gglwe_to_ggsw_key_prepare", "ggsw_prepare", "gglwe_prepare",
    "lwe_switching_key_prepare", "lwe_to_glwe_key_prepare", "glwe_to_lwe_key_prepare", "glwe_secret_tensor_prepare",
    // key material encryption
    "glwe_switching_key_encrypt_sk", "glwe_automorphism_key_encrypt_sk", "glwe_tensor_key_encrypt_sk", "gglwe_to_ggsw_key_encrypt_sk", "lwe_switching_key_encrypt_sk",
    "glwe_to_lwe_key_encrypt_sk", "lwe_to_glwe_key_encrypt_sk",
    // poulpy-ckks
    "ckks_add_into", "ckks_mul_into", "ckks_square_into", "ckks_rotate_into", "ckks_rescale_into",
    // poulpy-ckks composite forms (temporaries carved out of scratch, recursion depth log2(n))
    "ckks_add_many", "ckks_mul_many", "ckks_mul_add_ct_into", "ckks_mul_sub_ct_into", "ckks_dot_product_ct",
];

/// operations whose call takes a scratch argument (the others are only meaningful for c11core / c17core)
pub fn takes_scratch(op: &str) -> bool {
    !matches!(
        op,
        "glwe_add_into" | "glwe_add_assign" | "glwe_sub" | "glwe_sub_assign" | "glwe_sub_negate_assign" | "glwe_negate" | "glwe_negate_assign" | "glwe_copy" | "glwe_rotate"
            | "glwe_mul_xp_minus_one" | "ggsw_rotate" | "lwe_sample_extract"
    )
}

/// relative cost (setup + call) used by the consumers to spend their budget evenly over the catalogue
pub fn op_weight(op: &str) -> u64 {
    match op {
        "glwe_trace" | "glwe_trace_assign" | "glwe_pack" | "glwe_packer" => 1,
        o if o.starts_with("ggsw_keyswitch") || o.starts_with("ggsw_automorphism") => 2,
        o if o.starts_with("glwe_tensor") || o.contains("tensor_key") || o.starts_with("gglwe_to_ggsw") => 3,
        o if o.starts_with("glwe_add") || o.starts_with("glwe_sub") || o.starts_with("glwe_neg") || o == "glwe_copy" || o.contains("rotate") || o.contains("sh") || o.contains("normalize") => 6,
        _ => 4,
    }
}

/// operations cheap enough for the Miri / valgrind modes
pub fn tiny_ok(op: &str) -> bool {
    !matches!(op, "glwe_trace" | "glwe_trace_assign" | "glwe_pack" | "glwe_packer") && !op.starts_with("ckks_")
}

pub fn run_case(op: &'static str, seed: u64, opts: &Opts) -> Outcome {
    run_cases(op, seed, std::slice::from_ref(opts)).pop().unwrap()
}

/// the same case under several (fill_seed, scratch mode) settings: keys and operands are generated once
pub fn run_cases(op: &'static str, seed: u64, opts: &[Opts]) -> Vec<Outcome> {
    let tiny = opts[0].tiny;
    let mut cx = Ctx {
        rs: Rng::new(seed, 0x5a),
        rd: Rng::new(seed, 0xda),
        rf: Rng::new(seed, 0xf1),
        seed,
        opts: opts.to_vec(),
        cur: 0,
        tiny,
        desc: jo! {"backend" => BE_NAME, "op" => op, "case_seed" => seed, "tiny" => tiny},
        key: format!("{BE_NAME}|{op}|{tiny}"),
        tmp_bytes: 0,
        guards: vec![],
        nontrivial: true,
        results: vec![],
    };
    let r = guarded(|| arm(op, &mut cx));
    let mut outs = Vec::new();
    let admissible = matches!(r, Ok(true));
    let setup_error = r.err();
    for i in 0..opts.len() {
        let (panic, bytes, ro_changed, guard_hit, folded) = cx.results.get(i).cloned().unwrap_or((None, vec![], None, None, 0));
        let ran = i < cx.results.len();
        outs.push(Outcome {
            op,
            desc: cx.desc.clone(),
            key: if admissible && ran { cx.key.clone() } else { String::new() },
            panic,
            bytes,
            ro_changed,
            guard_hit,
            tmp_bytes: cx.tmp_bytes,
            nontrivial: cx.nontrivial,
            folded,
            setup_error: if ran { None } else { setup_error.clone() },
        });
    }
    outs
}

include!("core_ops_arms.rs");
