#![allow(clippy::too_many_arguments, clippy::needless_range_loop, clippy::type_complexity)]
use pvm::util::{Cfg, Report, install_panic_hook};
use pvm::{arena, exact, jo, util};

#[cfg(feature = "sysalloc")]
#[global_allocator]
static GLOBAL: std::alloc::System = std::alloc::System;

mod c20_log;

/// store used by C19 to compare the same compressed object across backends byte for byte
pub mod c19_store {
    pub static STORE: std::sync::Mutex<Option<std::collections::HashMap<String, (String, u64)>>> = std::sync::Mutex::new(None);
}

macro_rules! backend_mod {
    ($m:ident, $be:ty, $name:literal, $fft:literal) => {
        #[allow(dead_code, unused_imports, unused_variables, unused_mut)]
        pub mod $m {
            use super::{arena, exact, jo, util};
            pub type BE = $be;
            pub const BE_NAME: &str = $name;
            pub const IS_FFT64: bool = $fft;
            include!("hal_common.rs");
            pub mod hal_ops {
                use super::*;
                include!("hal_ops.rs");
            }
            pub mod c11 {
                use super::*;
                include!("props/c11.rs");
            }
            pub mod core_ops {
                use super::*;
                include!("core_ops.rs");
            }
            pub mod c11core {
                use super::*;
                include!("props/c11core.rs");
            }
            pub mod c12core {
                use super::*;
                include!("props/c12core.rs");
            }
            pub mod c17core {
                use super::*;
                include!("props/c17core.rs");
            }
            pub mod c12 {
                use super::*;
                include!("props/c12.rs");
            }
            // C15 / C20 read the clear GLWE secret and the thread-loop events through the `verif-hooks` feature
            #[cfg(feature = "hooks")]
            pub mod c15 {
                use super::*;
                include!("c1520_common.rs");
                include!("props/c15.rs");
            }
            #[cfg(feature = "hooks")]
            pub mod c20 {
                use super::*;
                include!("c1520_common.rs");
                include!("props/c20.rs");
            }
            pub mod c18_be {
                use super::*;
                include!("props/c18_be.rs");
            }
            #[cfg(feature = "hooks")]
            pub mod c14 {
                use super::*;
                include!("props/c14.rs");
            }
            pub mod c16 {
                use super::*;
                include!("props/c16.rs");
            }
            pub mod c02 {
                use super::*;
                include!("c0203_common.rs");
                include!("props/c02.rs");
            }
            #[cfg(feature = "hooks")]
            pub mod c03 {
                use super::*;
                include!("c0203_common.rs");
                include!("props/c03.rs");
            }
            #[cfg(feature = "hooks")]
            pub mod c01 {
                use super::*;
                include!("c010619_common.rs");
                include!("props/c01.rs");
            }
            #[cfg(feature = "hooks")]
            pub mod c06 {
                use super::*;
                include!("c010619_common.rs");
                include!("props/c06.rs");
            }
            #[cfg(feature = "hooks")]
            pub mod c19 {
                use super::*;
                include!("c010619_common.rs");
                include!("props/c19.rs");
            }
            #[cfg(feature = "hooks")]
            pub mod c04 {
                use super::*;
                include!("c0405_common.rs");
                include!("props/c04.rs");
            }
            #[cfg(feature = "hooks")]
            pub mod c05 {
                use super::*;
                include!("c0405_common.rs");
                include!("props/c05.rs");
            }
            pub mod c17 {
                use super::*;
                include!("props/c17.rs");
            }
            pub mod c07 {
                use super::*;
                include!("props/c07.rs");
            }
            pub mod c08 {
                use super::*;
                include!("props/c08.rs");
            }
            pub mod c09 {
                use super::*;
                include!("props/c09.rs");
            }
        }
    };
}

/// C18 is backend-independent (serialisable layouts are host-side): a plain module.
#[allow(dead_code, unused_imports, unused_variables, unused_mut)]
pub mod c18 {
    use super::{jo, util};
    include!("props/c18.rs");
}

/// C13 is not backend-generic: the compiled BDD tables are plain data
#[cfg(feature = "hooks")]
#[allow(dead_code, unused_imports, unused_variables, unused_mut)]
pub mod c13 {
    use super::{jo, util};
    include!("props/c13.rs");
}

backend_mod!(fft64ref, poulpy_cpu_ref::FFT64Ref, "fft64ref", true);
backend_mod!(ntt120ref, poulpy_cpu_ref::NTT120Ref, "ntt120ref", false);
#[cfg(feature = "avx")]
backend_mod!(fft64avx, poulpy_cpu_avx::FFT64Avx, "fft64avx", true);
#[cfg(feature = "avx")]
backend_mod!(ntt120avx, poulpy_cpu_avx::NTT120Avx, "ntt120avx", false);

/// run `$p::run(cfg, rep)` on every selected backend
macro_rules! on_backends {
    ($cfg:expr, $rep:expr, $p:ident) => {{
        if $cfg.wants_backend("fft64ref") {
            fft64ref::$p::run($cfg, $rep);
        }
        if $cfg.wants_backend("ntt120ref") {
            ntt120ref::$p::run($cfg, $rep);
        }
        #[cfg(feature = "avx")]
        if $cfg.wants_backend("fft64avx") {
            fft64avx::$p::run($cfg, $rep);
        }
        #[cfg(feature = "avx")]
        if $cfg.wants_backend("ntt120avx") {
            ntt120avx::$p::run($cfg, $rep);
        }
    }};
}

/// C10 — all backends give bit-identical results: the same (op, n, seed) case is executed on two backends and the
/// coefficient-domain outputs (and the next draw of the random stream for sampling ops) are compared.
mod c10 {
    use super::*;
    use pvm::util::Rng;

    fn pairs() -> Vec<(&'static str, &'static str)> {
        let mut v = vec![("fft64ref", "ntt120ref")];
        if cfg!(feature = "avx") {
            v.push(("fft64ref", "fft64avx"));
            v.push(("ntt120ref", "ntt120avx"));
            v.push(("fft64avx", "ntt120avx"));
        }
        v
    }

    macro_rules! run_on {
        ($be:expr, $op:expr, $n:expr, $seed:expr, $opts:expr, $f:expr) => {{
            match $be {
                "fft64ref" => {
                    let o = fft64ref::hal_ops::run_case($op, $n, $seed, &fft64ref::hal_ops::Opts { fill_seed: $opts, ..Default::default() });
                    $f(o.desc, o.key, o.panic, o.coeff, o.nontrivial)
                }
                "ntt120ref" => {
                    let o = ntt120ref::hal_ops::run_case($op, $n, $seed, &ntt120ref::hal_ops::Opts { fill_seed: $opts, ..Default::default() });
                    $f(o.desc, o.key, o.panic, o.coeff, o.nontrivial)
                }
                #[cfg(feature = "avx")]
                "fft64avx" => {
                    let o = fft64avx::hal_ops::run_case($op, $n, $seed, &fft64avx::hal_ops::Opts { fill_seed: $opts, ..Default::default() });
                    $f(o.desc, o.key, o.panic, o.coeff, o.nontrivial)
                }
                #[cfg(feature = "avx")]
                "ntt120avx" => {
                    let o = ntt120avx::hal_ops::run_case($op, $n, $seed, &ntt120avx::hal_ops::Opts { fill_seed: $opts, ..Default::default() });
                    $f(o.desc, o.key, o.panic, o.coeff, o.nontrivial)
                }
                _ => unreachable!(),
            }
        }};
    }

    type Res = (util::J, String, Option<String>, Vec<i128>, bool);

    fn exec(be: &str, op: &'static str, n: usize, seed: u64, fill: u64) -> Res {
        run_on!(be, op, n, seed, fill, |d, k, p, c, nt| (d, k, p, c, nt))
    }

    pub fn run(cfg: &Cfg, rep: &mut Report) {
        let mut rng: Rng = cfg.rng("c10");
        let total = cfg.budget(400_000, 20_000_000);
        let ops = fft64ref::hal_ops::HAL_OPS;
        let prs = pairs();
        let ns_coef: &[usize] = &[1, 2, 3usize.next_power_of_two(), 8, 16, 32, 64];
        let ns_dft: &[usize] = &[8, 16, 32, 64, 128];
        for it in 0..total {
            let op = ops[(it as usize + rng.below(7) as usize) % ops.len()];
            let (a, b) = prs[rng.below(prs.len() as u64) as usize];
            let n = if fft64ref::hal_ops::op_needs_dft(op) { *rng.pick(ns_dft) } else { *rng.pick(ns_coef) };
            let seed = rng.next_u64();
            let ra = exec(a, op, n, seed, 7);
            if ra.1.is_empty() {
                continue;
            }
            let rb = exec(b, op, n, seed, 9);
            let mut desc = ra.0.clone();
            desc.put("backend_b", b);
            desc.put("pair", format!("{a}/{b}"));
            let cross_family = a.starts_with("fft64") != b.starts_with("fft64");
            desc.put("cross_family", cross_family);
            let key = format!("{}|{b}", ra.1);
            rep.case(op, &key, ra.4);
            rep.sample_for_op(&format!("{a}/{b}:{op}"), || desc.clone());
            rep.count(&format!("pair:{a}/{b}"), 1);
            match (&ra.2, &rb.2) {
                (None, None) => {
                    if ra.3 != rb.3 {
                        let pos = ra.3.iter().zip(&rb.3).position(|(x, y)| x != y).unwrap_or(ra.3.len().min(rb.3.len()));
                        rep.violate(
                            op,
                            desc,
                            format!(
                                "coefficient-domain outputs differ between {a} and {b} at flattened index {pos} of {} ({:?} vs {:?})",
                                ra.3.len(),
                                ra.3.get(pos),
                                rb.3.get(pos)
                            ),
                        );
                    }
                }
                (Some(p), None) | (None, Some(p)) => rep.violate(op, desc, format!("only one of {a}/{b} panicked: {p}")),
                (Some(_), Some(_)) => rep.count("both_panicked", 1),
            }
        }
    }
}

fn main() {
    install_panic_hook();
    let args: Vec<String> = std::env::args().skip(1).collect();
    if args.is_empty() {
        eprintln!("usage: pvm <prop> --seed S --shard i/n --tier quick|thorough --out file.json [--backend list] [--mode m]");
        std::process::exit(2);
    }
    if args[0] == "count-distinct" {
        println!("{}", util::count_distinct(&args[1]));
        return;
    }
    let cfg = Cfg::parse(&args);
    let mut rep = Report::new(&cfg.prop);
    let t0 = std::time::Instant::now();
    match cfg.prop.as_str() {
        "c07" => on_backends!(&cfg, &mut rep, c07),
        "c10" => c10::run(&cfg, &mut rep),
        "c11" => on_backends!(&cfg, &mut rep, c11),
        "c12" => on_backends!(&cfg, &mut rep, c12),
        "c11core" => on_backends!(&cfg, &mut rep, c11core),
        "c12core" => on_backends!(&cfg, &mut rep, c12core),
        "c17core" => on_backends!(&cfg, &mut rep, c17core),
        "c02" => on_backends!(&cfg, &mut rep, c02),
        #[cfg(feature = "hooks")]
        "c03" => on_backends!(&cfg, &mut rep, c03),
        #[cfg(feature = "hooks")]
        "c01" => on_backends!(&cfg, &mut rep, c01),
        #[cfg(feature = "hooks")]
        "c04" => on_backends!(&cfg, &mut rep, c04),
        #[cfg(feature = "hooks")]
        "c05" => on_backends!(&cfg, &mut rep, c05),
        #[cfg(feature = "hooks")]
        "c06" => on_backends!(&cfg, &mut rep, c06),
        #[cfg(feature = "hooks")]
        "c19" => on_backends!(&cfg, &mut rep, c19),
        "c16" => on_backends!(&cfg, &mut rep, c16),
        "c17" => on_backends!(&cfg, &mut rep, c17),
        #[cfg(feature = "hooks")]
        "c13" => c13::run(&cfg, &mut rep),
        #[cfg(feature = "hooks")]
        "c14" => on_backends!(&cfg, &mut rep, c14),
        "c18" => {
            // per-backend encryption samples for the format-identity part (name, producer)
            let mut producers: Vec<(&'static str, fn(u64) -> Vec<(String, Vec<u8>)>)> =
                vec![("fft64ref", fft64ref::c18_be::samples), ("ntt120ref", ntt120ref::c18_be::samples)];
            #[cfg(feature = "avx")]
            {
                producers.push(("fft64avx", fft64avx::c18_be::samples));
                producers.push(("ntt120avx", ntt120avx::c18_be::samples));
            }
            c18::run(&cfg, &mut rep, &producers)
        }
        #[cfg(feature = "hooks")]
        "c15" => on_backends!(&cfg, &mut rep, c15),
        #[cfg(feature = "hooks")]
        "c20" => on_backends!(&cfg, &mut rep, c20),
        "c08" => on_backends!(&cfg, &mut rep, c08),
        "c09" => on_backends!(&cfg, &mut rep, c09),
        other => {
            eprintln!("unknown property {other}");
            std::process::exit(2);
        }
    }
    rep.extra.push(("wall_s".into(), util::J::F(t0.elapsed().as_secs_f64())));
    rep.extra.push(("avx".into(), util::J::B(cfg!(feature = "avx"))));
    if cfg.out.is_empty() {
        println!("{}", rep.to_json().render());
    } else {
        rep.write(&cfg.out);
    }
    eprintln!(
        "[pvm {} shard {}/{}] evaluations={} distinct={} violations={} wall={:.1}s",
        cfg.prop,
        cfg.shard,
        cfg.nshards,
        rep.evaluations,
        rep.distinct.len(),
        rep.violation_count,
        t0.elapsed().as_secs_f64()
    );
}
