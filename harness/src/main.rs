#![allow(clippy::too_many_arguments, clippy::needless_range_loop, clippy::type_complexity)]
use pvm::util::{Cfg, Report, install_panic_hook};
use pvm::{arena, exact, jo, util};

#[cfg(feature = "sysalloc")]
#[global_allocator]
static GLOBAL: std::alloc::System = std::alloc::System;

macro_rules! backend_mod {
    ($m:ident, $be:ty, $name:literal, $fft:literal) => {
        #[allow(dead_code, unused_imports, unused_variables, unused_mut)]
        pub mod $m {
            use super::{arena, exact, jo, util};
            pub type BE = $be;
            pub const BE_NAME: &str = $name;
            pub const IS_FFT64: bool = $fft;
            include!("hal_common.rs");
            pub mod c07 {
                use super::*;
                include!("props/c07.rs");
            }
            pub mod c08 {
                use super::*;
                include!("props/c08.rs");
            }
            pub mod c09 {
                use super::*;
                include!("props/c09.rs");
            }
        }
    };
}

backend_mod!(fft64ref, poulpy_cpu_ref::FFT64Ref, "fft64ref", true);
backend_mod!(ntt120ref, poulpy_cpu_ref::NTT120Ref, "ntt120ref", false);
#[cfg(feature = "avx")]
backend_mod!(fft64avx, poulpy_cpu_avx::FFT64Avx, "fft64avx", true);
#[cfg(feature = "avx")]
backend_mod!(ntt120avx, poulpy_cpu_avx::NTT120Avx, "ntt120avx", false);

/// run `$p::run(cfg, rep)` on every selected backend
macro_rules! on_backends {
    ($cfg:expr, $rep:expr, $p:ident) => {{
        if $cfg.wants_backend("fft64ref") {
            fft64ref::$p::run($cfg, $rep);
        }
        if $cfg.wants_backend("ntt120ref") {
            ntt120ref::$p::run($cfg, $rep);
        }
        #[cfg(feature = "avx")]
        if $cfg.wants_backend("fft64avx") {
            fft64avx::$p::run($cfg, $rep);
        }
        #[cfg(feature = "avx")]
        if $cfg.wants_backend("ntt120avx") {
            ntt120avx::$p::run($cfg, $rep);
        }
    }};
}

fn main() {
    install_panic_hook();
    let args: Vec<String> = std::env::args().skip(1).collect();
    if args.is_empty() {
        eprintln!("usage: pvm <prop> --seed S --shard i/n --tier quick|thorough --out file.json [--backend list] [--mode m]");
        std::process::exit(2);
    }
    if args[0] == "count-distinct" {
        println!("{}", util::count_distinct(&args[1]));
        return;
    }
    let cfg = Cfg::parse(&args);
    let mut rep = Report::new(&cfg.prop);
    let t0 = std::time::Instant::now();
    match cfg.prop.as_str() {
        "c07" => on_backends!(&cfg, &mut rep, c07),
        "c08" => on_backends!(&cfg, &mut rep, c08),
        "c09" => on_backends!(&cfg, &mut rep, c09),
        other => {
            eprintln!("unknown property {other}");
            std::process::exit(2);
        }
    }
    rep.extra.push(("wall_s".into(), util::J::F(t0.elapsed().as_secs_f64())));
    rep.extra.push(("avx".into(), util::J::B(cfg!(feature = "avx"))));
    if cfg.out.is_empty() {
        println!("{}", rep.to_json().render());
    } else {
        rep.write(&cfg.out);
    }
    eprintln!(
        "[pvm {} shard {}/{}] evaluations={} distinct={} violations={} wall={:.1}s",
        cfg.prop,
        cfg.shard,
        cfg.nshards,
        rep.evaluations,
        rep.distinct.len(),
        rep.violation_count,
        t0.elapsed().as_secs_f64()
    );
}
