// Shared by props/c04.rs and props/c05.rs (included inside their per-backend modules, after `use super::*`).
// Clear-secret key generation, exact (big-integer) phases for any (base2k, size), exact negacyclic products,
// GGSW / GGLWE cell decryption, hard gadget-product noise bounds, exact-size scratch windows.
//
// Everything here is written from the definitions in DESIGN.md Appendix A; nothing calls the library to compute an
// expected value (the library is only used to *produce* the objects under test: encryptions, keys, products).
#[allow(unused_imports)]
pub use poulpy_core::api::*;
#[allow(unused_imports)]
pub use poulpy_core::layouts::*;
#[allow(unused_imports)]
pub use poulpy_core::{EncryptionLayout, ScratchTakeCore};

pub fn seed32(seed: u64, tag: u64) -> [u8; 32] {
    Rng::new(seed, tag).seed32()
}

// ---------------------------------------------------------------------------------------------
// exactness domains of the backends (DESIGN §3.3)
// ---------------------------------------------------------------------------------------------
/// true iff a DFT-domain product accumulating `terms` negacyclic products of degree `n` with operand digit widths
/// `bits_a`, `bits_b` (signed widths: |x| <= 2^(bits-1)) is exact on this backend
pub fn product_exact(n: usize, terms: usize, bits_a: usize, bits_b: usize) -> bool {
    let logn = (n.max(2) as f64).log2();
    if IS_FFT64 {
        let lhs = (terms as f64).log2() + logn + (bits_a + bits_b) as f64 - 2.0 + (13.0 * logn).log2();
        bits_a <= 50 && bits_b <= 50 && lhs < 52.0
    } else {
        terms < 10_000 && (terms as f64 * n as f64).log2() + (bits_a + bits_b) as f64 - 2.0 < 118.0
    }
}

/// largest radix (<= cap) for which a gadget/convolution product with `terms` terms and `extra` extra operand bits is exact
pub fn max_base2k(n: usize, terms: usize, extra: usize, cap: usize) -> usize {
    let mut b = cap;
    while b > 2 && !product_exact(n, terms, b + extra, b) {
        b -= 1;
    }
    b
}

// ---------------------------------------------------------------------------------------------
// secrets
// ---------------------------------------------------------------------------------------------
pub struct Sk {
    pub n: usize,
    pub rank: usize,
    pub dist: usize,
    pub sk: GLWESecret<Vec<u8>>,
    pub prep: GLWESecretPrepared<DeviceBuf<BE>, BE>,
    /// clear coefficients, one vector per secret polynomial
    pub s: Vec<Vec<i64>>,
    /// 1-norm of each secret polynomial
    pub l1: Vec<f64>,
}

pub const DISTS: [&str; 4] = ["ternary_prob_0.5", "binary_hw_n/2", "ternary_hw_n/4", "ternary_prob_0.9"];

pub fn gen_sk(module: &Module<BE>, n: usize, rank: usize, dist: usize, seed: u64) -> Sk {
    let mut xs = Source::new(seed32(seed, 0x5ec7e7));
    let mut sk: GLWESecret<Vec<u8>> = GLWESecret::alloc(Degree(n as u32), Rank(rank as u32));
    match dist {
        0 => sk.fill_ternary_prob(0.5, &mut xs),
        1 => sk.fill_binary_hw((n / 2).max(1), &mut xs),
        2 => sk.fill_ternary_hw((n / 4).max(1), &mut xs),
        _ => sk.fill_ternary_prob(0.9, &mut xs),
    }
    let mut prep: GLWESecretPrepared<DeviceBuf<BE>, BE> = module.glwe_secret_prepared_alloc(Rank(rank as u32));
    module.glwe_secret_prepare(&mut prep, &sk);
    let s: Vec<Vec<i64>> = (0..rank).map(|c| sk.verif_data().at(c, 0).to_vec()).collect();
    let l1 = s.iter().map(|p| p.iter().map(|x| x.unsigned_abs() as f64).sum()).collect();
    Sk { n, rank, dist, sk, prep, s, l1 }
}

impl Sk {
    /// sigma_0 = 1, sigma_j = s_{j-1}
    pub fn sigma(&self, j: usize) -> Vec<i64> {
        if j == 0 {
            let mut v = vec![0i64; self.n];
            v[0] = 1;
            v
        } else {
            self.s[j - 1].clone()
        }
    }
    /// sum_i ||s_i||_1
    pub fn l1_sum(&self) -> f64 {
        self.l1.iter().sum()
    }
    pub fn sigma_l1(&self, j: usize) -> f64 {
        if j == 0 { 1.0 } else { self.l1[j - 1] }
    }
}

// ---------------------------------------------------------------------------------------------
// small-polynomial ring helpers
// ---------------------------------------------------------------------------------------------
pub fn neg_small(a: &[i64], b: &[i64]) -> Vec<i64> {
    let n = a.len();
    let mut r = vec![0i64; n];
    for i in 0..n {
        if a[i] == 0 {
            continue;
        }
        for j in 0..n {
            if b[j] == 0 {
                continue;
            }
            let k = i + j;
            if k < n {
                r[k] += a[i] * b[j];
            } else {
                r[k - n] -= a[i] * b[j];
            }
        }
    }
    r
}

pub fn l1_small(a: &[i64]) -> f64 {
    a.iter().map(|x| x.unsigned_abs() as f64).sum()
}

pub fn small_to_big(a: &[i64], shift: usize) -> Vec<Big> {
    a.iter().map(|x| Big::from(*x) << shift).collect()
}

/// classes of the GGSW plaintext m2
#[derive(Clone, Debug)]
pub struct M2 {
    pub name: String,
    pub m: Vec<i64>,
}

pub fn gen_m2(n: usize, cls: usize, k: usize, rng: &mut Rng) -> M2 {
    let mut m = vec![0i64; n];
    let name;
    match cls {
        0 => name = "zero".to_string(),
        1 => {
            m[0] = 1;
            name = "one".to_string();
        }
        2 => {
            m[0] = -1;
            name = "minus_one".to_string();
        }
        3 => {
            m[k % n] = 1;
            name = format!("X^{}", k % n);
        }
        4 => {
            m[k % n] = -1;
            name = format!("-X^{}", k % n);
        }
        5 => {
            for x in m.iter_mut() {
                *x = rng.i64_in(-1, 1);
            }
            name = "dense_ternary".to_string();
        }
        6 => {
            for x in m.iter_mut() {
                *x = rng.i64_in(-4, 4);
            }
            name = "dense_pm4".to_string();
        }
        _ => {
            // sparse with a few larger coefficients
            for _ in 0..3 {
                let i = rng.below(n as u64) as usize;
                m[i] = rng.i64_in(-7, 7);
            }
            name = "sparse_pm7".to_string();
        }
    }
    M2 { name, m }
}

pub fn scalar_from(m: &[i64]) -> ScalarZnx<Vec<u8>> {
    let mut s = ScalarZnx::alloc(m.len(), 1);
    s.at_mut(0, 0).copy_from_slice(m);
    s
}

// ---------------------------------------------------------------------------------------------
// exact torus values: a column with limbs a_0..a_{s-1} in radix 2^b is sum_j a_j 2^{-(j+1) b}; scaled by 2^w here
// ---------------------------------------------------------------------------------------------
/// integer value of column `col` scaled by 2^w (NOT reduced modulo 2^w); requires w >= size*b
pub fn col_big(d: &VecZnx<&[u8]>, col: usize, b: usize, w: usize) -> Vec<Big> {
    let n = d.n();
    let size = d.size();
    assert!(w >= size * b, "col_big: w={w} < size*b={}", size * b);
    let mut out = vec![Big::from(0); n];
    for j in 0..size {
        let sh = w - (j + 1) * b;
        let limb: &[i64] = d.at(col, j);
        for i in 0..n {
            if limb[i] != 0 {
                out[i] += Big::from(limb[i]) << sh;
            }
        }
    }
    out
}

/// same, with the bits of the last limb below precision `eff_k` cleared first (what the multiplication functions do with
/// operands whose top... bottom limb is only partially used). Requires ceil(eff_k / b) == size.
pub fn col_big_masked(d: &VecZnx<&[u8]>, col: usize, b: usize, w: usize, eff_k: usize) -> Vec<Big> {
    let n = d.n();
    let size = d.size();
    assert_eq!(eff_k.div_ceil(b), size);
    let drop = size * b - eff_k; // low bits of the last limb that do not belong to the operand
    let mut out = vec![Big::from(0); n];
    for j in 0..size {
        let sh = w - (j + 1) * b;
        let limb: &[i64] = d.at(col, j);
        for i in 0..n {
            let mut v = limb[i];
            if j == size - 1 && drop > 0 {
                v = (v >> drop) << drop; // arithmetic shift: floor towards -inf, i.e. two's complement masking
            }
            if v != 0 {
                out[i] += Big::from(v) << sh;
            }
        }
    }
    out
}

/// un-reduced integer phase c_0 + sum_i c_i * s_{i-1} (scaled by 2^w) of a (rank+1)-column vector
pub fn phase_unreduced(cols: &[Vec<Big>], s: &[Vec<i64>]) -> Vec<Big> {
    let mut acc = cols[0].clone();
    for (i, si) in s.iter().enumerate() {
        let p = negacyclic_mul_big_small(&cols[i + 1], si);
        for (a, x) in acc.iter_mut().zip(p) {
            *a += x;
        }
    }
    acc
}

/// exact phase of a GLWE, scaled by 2^w and centred modulo 2^w
pub fn glwe_phase<G: GLWEToRef>(ct: &G, sk: &Sk, w: usize) -> Vec<Big> {
    let ct = ct.to_ref();
    let b = ct.base2k().0 as usize;
    let d = ct.data();
    let rank = d.cols() - 1;
    assert_eq!(rank, sk.rank);
    let cols: Vec<Vec<Big>> = (0..=rank).map(|c| col_big(d, c, b, w)).collect();
    poly_centre(&phase_unreduced(&cols, &sk.s), w)
}

/// bits of precision a GLWE actually carries (size * base2k)
pub fn glwe_bits<G: GLWEToRef>(ct: &G) -> usize {
    let ct = ct.to_ref();
    ct.data().size() * ct.base2k().0 as usize
}

/// max_i |x_i| / 2^w as f64 (torus fraction)
pub fn inf_torus(x: &[Big], w: usize) -> f64 {
    ratio_units(&poly_max_abs(x), w)
}

/// sum_i |x_i| / 2^w
pub fn l1_torus(x: &[Big], w: usize) -> f64 {
    let mut acc = Big::from(0);
    for v in x {
        acc += abs(v);
    }
    ratio_units(&acc, w)
}

/// centred difference a - b modulo 2^w
pub fn diff_centre(a: &[Big], b: &[Big], w: usize) -> Vec<Big> {
    a.iter().zip(b).map(|(x, y)| centre(&(x - y), w)).collect()
}

pub fn pow2f(e: i64) -> f64 {
    2f64.powi(e as i32)
}

// ---------------------------------------------------------------------------------------------
// gadget ciphertext cells
// ---------------------------------------------------------------------------------------------
/// noise of every cell of a gadget ciphertext against its ideal plaintext
pub struct CellNoise {
    /// [row][col]: max |e| (torus fraction)
    pub inf: Vec<Vec<f64>>,
    /// [row][col]: sum |e| (torus fraction)
    pub l1: Vec<Vec<f64>>,
}

impl CellNoise {
    pub fn worst(&self) -> (usize, usize, f64) {
        let mut w = (0, 0, 0f64);
        for (r, row) in self.inf.iter().enumerate() {
            for (c, v) in row.iter().enumerate() {
                if *v >= w.2 {
                    w = (r, c, *v);
                }
            }
        }
        w
    }
    /// sum of the l1 norms over rows < rows_used and all columns
    pub fn l1_rows(&self, rows_used: usize) -> f64 {
        self.l1.iter().take(rows_used).map(|r| r.iter().sum::<f64>()).sum()
    }
}

/// GGSW: cell(row, col) must have phase m * sigma_col * 2^{-(row+1)*dsize*b}; returns the deviation of every cell.
/// `m` is a small integer polynomial; `sk` the key the GGSW is under.
pub fn ggsw_cell_noise<G: GGSWToRef>(g: &G, m: &[i64], sk: &Sk) -> CellNoise {
    let g = g.to_ref();
    let b = g.base2k().0 as usize;
    let dsize = g.dsize().0 as usize;
    let dnum = g.dnum().0 as usize;
    let rank = g.rank().0 as usize;
    let w = g.size() * b;
    let mut inf = vec![vec![0f64; rank + 1]; dnum];
    let mut l1 = vec![vec![0f64; rank + 1]; dnum];
    for col in 0..=rank {
        let want = neg_small(m, &sk.sigma(col));
        for row in 0..dnum {
            let pos = (row + 1) * dsize * b;
            let ph = glwe_phase(&g.at(row, col), sk, w);
            let e: Vec<Big> = if pos <= w {
                let ideal = small_to_big(&want, w - pos);
                diff_centre(&ph, &ideal, w)
            } else {
                ph // the gadget position lies below the precision of the ciphertext: the ideal value is 0
            };
            inf[row][col] = inf_torus(&e, w);
            l1[row][col] = l1_torus(&e, w);
        }
    }
    CellNoise { inf, l1 }
}

/// GGLWE: cell(row, col) must have phase pts[col] * 2^{-(row+1)*dsize*b} under `sk`
pub fn gglwe_cell_noise<G: GGLWEToRef>(g: &G, pts: &[Vec<i64>], sk: &Sk) -> CellNoise {
    let g = g.to_ref();
    let b = g.base2k().0 as usize;
    let dsize = g.dsize().0 as usize;
    let dnum = g.dnum().0 as usize;
    let rank_in = g.rank_in().0 as usize;
    assert_eq!(pts.len(), rank_in);
    let w = g.size() * b;
    let mut inf = vec![vec![0f64; rank_in]; dnum];
    let mut l1 = vec![vec![0f64; rank_in]; dnum];
    for col in 0..rank_in {
        for row in 0..dnum {
            let pos = (row + 1) * dsize * b;
            let ph = glwe_phase(&g.at(row, col), sk, w);
            let e: Vec<Big> = if pos <= w { diff_centre(&ph, &small_to_big(&pts[col], w - pos), w) } else { ph };
            inf[row][col] = inf_torus(&e, w);
            l1[row][col] = l1_torus(&e, w);
        }
    }
    CellNoise { inf, l1 }
}

/// hard bound on a fresh secret-key encryption error (torus fraction): the Gaussian is rejected above bound*scale, rounded,
/// and added on limb ceil(k/b)-1 (Appendix A), so |e| <= (19.2*scale + 0.5) * 2^{-(limb+1) b}
pub fn fresh_bound(k: usize, b: usize) -> f64 {
    let limb = k.div_ceil(b) - 1;
    let scale = pow2f(((limb + 1) * b - k) as i64);
    (19.2 * scale + 0.5) * pow2f(-(((limb + 1) * b) as i64))
}

// ---------------------------------------------------------------------------------------------
// hard gadget-product bound (derived from the algorithm, DESIGN §3.2 / Appendix A)
//
//   res = sum_{c, r < rows} D_{c,r} * K[r][c]     D_{c,r} = sum_{p<dsize} a'_{c, r*dsize+p} 2^{(dsize-1-p) b}
//   phase(K[r][c]) = P_c 2^{-(r+1) dsize b} + e_{r,c}
//   => phase(res) = sum_c P_c * trunc_T(a'_c) + sum D*e,  T = min(size(a'), dnum*dsize) limbs
// ---------------------------------------------------------------------------------------------
pub struct GadgetShape {
    /// radix of the key (and of the decomposed input)
    pub b: usize,
    pub dsize: usize,
    pub dnum: usize,
    /// limbs of the key
    pub key_size: usize,
}

impl GadgetShape {
    /// max magnitude of a digit group when each limb is bounded by dig * 2^{b-1}
    pub fn dmax(&self, dig: f64) -> f64 {
        let q = pow2f(self.b as i64);
        dig * pow2f(self.b as i64 - 1) * (pow2f((self.dsize * self.b) as i64) - 1.0) / (q - 1.0)
    }
    /// limbs of the input that take part in the product
    pub fn limbs_used(&self, in_size: usize) -> usize {
        in_size.min(self.dnum * self.dsize)
    }
    pub fn rows_used(&self, in_size: usize) -> usize {
        in_size.div_ceil(self.dsize).min(self.dnum)
    }
    /// |value of the limbs beyond the ones used| for a column whose digits are bounded by dig * 2^{b-1} (torus fraction)
    pub fn tail(&self, in_size: usize, dig: f64) -> f64 {
        let t = self.limbs_used(in_size);
        if t >= in_size {
            return 0.0;
        }
        let q = pow2f(self.b as i64);
        dig * 0.5 * pow2f(-((t * self.b) as i64)) * q / (q - 1.0)
    }
    /// noise term: every digit group times the error of its key cell; `l1_rows` = sum over used rows and all input columns of ||e||_1
    pub fn noise(&self, l1_rows: f64, dig: f64) -> f64 {
        self.dmax(dig) * l1_rows
    }
    /// dsize > 2: the partial product of group position di keeps only key_size - max(dsize-di-2, 0) limbs; bound on what is dropped
    /// per output column (torus fraction), for `in_cols` input columns of degree n
    pub fn dropped(&self, n: usize, in_cols: usize, rows: usize, dig: f64) -> f64 {
        if self.dsize <= 2 {
            return 0.0;
        }
        let mut acc = 0.0;
        for di in 0..self.dsize - 2 {
            let dropped_limbs = self.dsize - di - 2;
            // limbs key_size-dropped_limbs .. key_size of this partial product, each a sum of in_cols*rows negacyclic products of
            // a digit (<= dig 2^{b-1}) by a key digit (<= 2^{b-1}); the partial product carries weight 2^{di*b}
            for l in (self.key_size - dropped_limbs)..self.key_size {
                acc += (in_cols * rows * n) as f64 * dig * pow2f(2 * self.b as i64 - 2) * pow2f(-(((l + 1) * self.b) as i64)) * pow2f((di * self.b) as i64);
            }
        }
        acc
    }
}

/// one unit of the last limb of a `bits`-bit ciphertext
pub fn ulp(bits: usize) -> f64 {
    pow2f(-(bits as i64))
}

/// The truncation, key-noise and dropped-limb terms are theorems (e.g. a balanced digit string cut after T limbs is off by at
/// most half a unit of limb T, times q/(q-1); |D * e| <= |D|_inf |e|_1) and adversarial inputs do reach them (hand-made
/// ciphertexts with extreme digits, N = 8: up to 0.99 observed); the margin keeps correct code at <= 0.8 of the bound.
pub const HARD_MARGIN: f64 = 1.25;
pub const TAIL_MARGIN: f64 = HARD_MARGIN;
/// final normalisation into the result, per output column, in units of the result's last limb. Measured on the pinned tree:
/// exactly 1.000 in the worst case (cross-radix, truncating), so 2 units are allowed.
pub const ROUND_UNITS: f64 = 2.0;

// ---------------------------------------------------------------------------------------------
// exact-size scratch windows
// ---------------------------------------------------------------------------------------------
pub fn is_scratch_panic(p: &str) -> bool {
    p.contains("from scratch") || p.contains("scratch.available()") || p.contains("Attempted to take")
}

/// Run `f` with a scratch window of exactly `need` bytes (garbage-filled). If the call dies asking the scratch for more
/// than the companion query promised, a `scratch_query_too_small` violation is recorded and the call is repeated with a
/// generous window so that the functional check still runs. `f` must (re-)initialise any in-place operand itself.
pub fn with_scratch<R>(rep: &mut Report, op: &str, desc: &J, need: usize, rng: &mut Rng, f: impl FnMut(&mut Scratch<BE>) -> R) -> Result<R, String> {
    with_scratch_opt(rep, op, desc, need, rng, true, f)
}

/// `dirty = false`: the window is zero-filled instead of garbage-filled (used to classify a failure as scratch-content dependent)
pub fn with_scratch_opt<R>(
    rep: &mut Report,
    op: &str,
    desc: &J,
    need: usize,
    rng: &mut Rng,
    dirty: bool,
    mut f: impl FnMut(&mut Scratch<BE>) -> R,
) -> Result<R, String> {
    let mut win = ScratchWin::new(need);
    if dirty {
        win.fill(rng);
    }
    rep.count("calls_with_exact_scratch", 1);
    match guarded(|| f(win.scratch())) {
        Ok(r) => {
            if !win.g.guards_intact() {
                let mut d = desc.clone();
                d.put("class", "scratch_overrun");
                d.put("scratch_op", op);
                d.put("declared_bytes", need);
                rep.violate(&format!("{op}:scratch"), d, "bytes outside the exact-size scratch window were modified".into());
            }
            Ok(r)
        }
        Err(p) if is_scratch_panic(&p) => {
            let mut d = desc.clone();
            d.put("class", "scratch_query_too_small");
            d.put("scratch_op", op);
            d.put("declared_bytes", need);
            rep.count("scratch_query_too_small", 1);
            rep.violate(&format!("{op}:scratch"), d, format!("panic with exactly the declared scratch ({need} bytes): {p}"));
            let mut big = ScratchWin::new(need * 4 + (1 << 20));
            if dirty {
                big.fill(rng);
            }
            guarded(|| f(big.scratch()))
        }
        Err(p) => Err(p),
    }
}

// ---------------------------------------------------------------------------------------------
// ciphertext construction
// ---------------------------------------------------------------------------------------------
pub const PT_CLASSES: [&str; 6] = ["uniform", "maxpos", "maxneg", "alternate", "single_bit", "zero"];

/// fill a plaintext (k bits of precision: the bits of the last limb below k stay clear) with one of the digit classes.
/// For "single_bit" one coefficient gets a single set bit at a random position (so a limb / bit slip is a gross error).
pub fn fill_pt(pt: &mut GLWEPlaintext<Vec<u8>>, cls: usize, k: usize, rng: &mut Rng) {
    let b = pt.base2k().0 as usize;
    let n = pt.n().0 as usize;
    let size = pt.data().size();
    let low = (size * b).saturating_sub(k); // unused low bits of the last limb
    for j in 0..size {
        let unused = if j == size - 1 { low.min(b - 1) } else { 0 };
        for i in 0..n {
            let v: i64 = match cls {
                0 => rng.signed_bits(b),
                1 => (1i64 << (b - 1)) - 1,
                2 => -(1i64 << (b - 1)),
                3 => {
                    if (i + j) % 2 == 0 {
                        (1i64 << (b - 1)) - 1
                    } else {
                        -(1i64 << (b - 1))
                    }
                }
                _ => 0,
            };
            pt.data_mut().at_mut(0, j)[i] = (v >> unused) << unused;
        }
    }
    if cls == 4 {
        let i = rng.below(n as u64) as usize;
        let bit = rng.below(k.max(1) as u64) as usize; // torus bit position 1..=k  (value 2^-(bit+1))
        let j = bit / b;
        let inside = b - 1 - (bit % b);
        // the top bit of a limb is its sign: use -2^(b-1) there (still a single non-zero digit)
        pt.data_mut().at_mut(0, j)[i] = if inside == b - 1 { -(1i64 << (b - 1)) } else { 1i64 << inside };
    }
}

/// hand-made GLWE with extreme (but normalised) digits; it has an exact phase like any other ciphertext
pub fn craft_glwe(ct: &mut GLWE<Vec<u8>>, cls: usize, rng: &mut Rng) {
    let b = ct.base2k().0 as usize;
    let n = ct.n().0 as usize;
    let size = ct.data().size();
    let cols = ct.data().cols();
    for c in 0..cols {
        for j in 0..size {
            for i in 0..n {
                let v = match cls {
                    0 => -(1i64 << (b - 1)),
                    1 => (1i64 << (b - 1)) - 1,
                    2 => {
                        if (i + j + c) % 2 == 0 {
                            (1i64 << (b - 1)) - 1
                        } else {
                            -(1i64 << (b - 1))
                        }
                    }
                    _ => rng.signed_bits(b),
                };
                ct.data_mut().at_mut(c, j)[i] = v;
            }
        }
    }
}

pub fn garbage_vec(d: &mut VecZnx<Vec<u8>>, b: usize, rng: &mut Rng) {
    let (cols, size, n) = (d.cols(), d.size(), d.n());
    for c in 0..cols {
        for j in 0..size {
            for i in 0..n {
                d.at_mut(c, j)[i] = rng.signed_bits(b.min(62));
            }
        }
    }
}

/// relative work share of a backend inside one run (the reference and NTT120 backends are slower)
pub fn bscale() -> f64 {
    match BE_NAME {
        "fft64avx" => 1.0,
        "fft64ref" => 0.6,
        "ntt120avx" => 0.6,
        _ => 0.4,
    }
}

// ---------------------------------------------------------------------------------------------
// worst passing case per operation (written to the report as calibration evidence)
// ---------------------------------------------------------------------------------------------
thread_local! {
    static WORST_CASES: std::cell::RefCell<std::collections::BTreeMap<String, (f64, J)>> = const { std::cell::RefCell::new(std::collections::BTreeMap::new()) };
}

pub fn note_worst(op: &str, ratio: f64, desc: &J, err: f64, bound: f64) {
    WORST_CASES.with(|w| {
        let mut w = w.borrow_mut();
        let e = w.entry(op.to_string()).or_insert((-1.0, J::Null));
        if ratio > e.0 {
            let mut d = desc.clone();
            d.put("ratio", ratio);
            d.put("err_log2", err.log2());
            d.put("bound_log2", bound.log2());
            *e = (ratio, d);
        }
    });
}

pub fn flush_worst(rep: &mut Report, prop: &str) {
    WORST_CASES.with(|w| {
        let mut w = w.borrow_mut();
        let o = J::O(w.iter().map(|(k, v)| (k.clone(), v.1.clone())).collect());
        rep.extra.push((format!("x_worst_passing_{prop}_{BE_NAME}"), o));
        w.clear();
    });
}
