//! Guarded buffers: every operand handed to the library lives inside a harness allocation with a
//! canary-filled guard in front (and optionally behind). Exact scratch windows end flush against
//! the end of their allocation so that the first byte past them is a sanitizer red zone.
use crate::util::Rng;
use std::alloc::{Layout, alloc, dealloc};

pub const GUARD: usize = 256;
const CANARY: u8 = 0xC5;

#[cfg(feature = "asan")]
unsafe extern "C" {
    fn __asan_poison_memory_region(addr: *const u8, size: usize);
    fn __asan_unpoison_memory_region(addr: *const u8, size: usize);
}

pub fn poison(_p: *const u8, _len: usize) {
    #[cfg(feature = "asan")]
    unsafe {
        __asan_poison_memory_region(_p, _len)
    }
}
pub fn unpoison(_p: *const u8, _len: usize) {
    #[cfg(feature = "asan")]
    unsafe {
        __asan_unpoison_memory_region(_p, _len)
    }
}
pub const ASAN: bool = cfg!(feature = "asan");

pub struct Guarded {
    ptr: *mut u8,
    layout: Layout,
    len: usize,
    tail: usize,
}

unsafe impl Send for Guarded {}

impl Guarded {
    /// `tail_guard=false`: the payload ends exactly at the end of the allocation.
    pub fn new(len: usize, tail_guard: bool) -> Self {
        let tail = if tail_guard { GUARD } else { 0 };
        let layout = Layout::from_size_align((GUARD + len + tail).max(64), 64).unwrap();
        let ptr = unsafe { alloc(layout) };
        assert!(!ptr.is_null());
        unsafe {
            std::ptr::write_bytes(ptr, CANARY, GUARD);
            std::ptr::write_bytes(ptr.add(GUARD), 0, len);
            if tail > 0 {
                std::ptr::write_bytes(ptr.add(GUARD + len), CANARY, tail);
            }
        }
        let g = Guarded { ptr, layout, len, tail };
        g.poison_guards();
        g
    }
    /// payload left uninitialised (for definedness tracking under Miri / memcheck)
    pub fn new_uninit(len: usize) -> Self {
        let layout = Layout::from_size_align((GUARD + len).max(64), 64).unwrap();
        let ptr = unsafe { alloc(layout) };
        assert!(!ptr.is_null());
        unsafe {
            std::ptr::write_bytes(ptr, CANARY, GUARD);
        }
        let g = Guarded { ptr, layout, len, tail: 0 };
        g.poison_guards();
        g
    }
    fn poison_guards(&self) {
        poison(self.ptr, GUARD);
        if self.tail > 0 {
            poison(unsafe { self.ptr.add(GUARD + self.len) }, self.tail);
        }
    }
    fn unpoison_guards(&self) {
        unpoison(self.ptr, GUARD);
        if self.tail > 0 {
            unpoison(unsafe { self.ptr.add(GUARD + self.len) }, self.tail);
        }
    }
    pub fn len(&self) -> usize {
        self.len
    }
    pub fn is_empty(&self) -> bool {
        self.len == 0
    }
    pub fn bytes(&self) -> &[u8] {
        unsafe { std::slice::from_raw_parts(self.ptr.add(GUARD), self.len) }
    }
    pub fn bytes_mut(&mut self) -> &mut [u8] {
        unsafe { std::slice::from_raw_parts_mut(self.ptr.add(GUARD), self.len) }
    }
    /// payload as a slice with an unbounded lifetime (the caller keeps `self` alive)
    ///
    /// # Safety
    /// the returned slice must not outlive `self` nor alias another live mutable view.
    pub unsafe fn bytes_mut_unbound<'a>(&mut self) -> &'a mut [u8] {
        unsafe { std::slice::from_raw_parts_mut(self.ptr.add(GUARD), self.len) }
    }
    pub fn fill_random(&mut self, rng: &mut Rng) {
        rng.fill_bytes(self.bytes_mut());
    }
    pub fn fill_byte(&mut self, b: u8) {
        self.bytes_mut().fill(b);
    }
    pub fn guards_intact(&self) -> bool {
        self.unpoison_guards();
        let ok = unsafe {
            std::slice::from_raw_parts(self.ptr, GUARD).iter().all(|b| *b == CANARY)
                && std::slice::from_raw_parts(self.ptr.add(GUARD + self.len), self.tail).iter().all(|b| *b == CANARY)
        };
        self.poison_guards();
        ok
    }
    pub fn i64s(&self) -> &[i64] {
        unsafe { std::slice::from_raw_parts(self.ptr.add(GUARD) as *const i64, self.len / 8) }
    }
    pub fn i64s_mut(&mut self) -> &mut [i64] {
        unsafe { std::slice::from_raw_parts_mut(self.ptr.add(GUARD) as *mut i64, self.len / 8) }
    }
}

/// Raw description of a guarded allocation (no borrow of the owning struct is kept).
#[derive(Clone, Copy)]
pub struct GuardRef {
    pub ptr: *mut u8,
    pub len: usize,
    pub tail: usize,
}

impl GuardRef {
    pub fn payload(&self) -> *const u8 {
        unsafe { self.ptr.add(GUARD) }
    }
    /// # Safety
    /// the allocation must still be alive
    pub unsafe fn guards_intact(&self) -> bool {
        unpoison(self.ptr, GUARD);
        if self.tail > 0 {
            unpoison(unsafe { self.ptr.add(GUARD + self.len) }, self.tail);
        }
        let ok = unsafe {
            (0..GUARD).all(|i| *self.ptr.add(i) == CANARY) && (0..self.tail).all(|i| *self.ptr.add(GUARD + self.len + i) == CANARY)
        };
        poison(self.ptr, GUARD);
        if self.tail > 0 {
            poison(unsafe { self.ptr.add(GUARD + self.len) }, self.tail);
        }
        ok
    }
    /// # Safety
    /// the allocation must still be alive and not mutably borrowed
    pub unsafe fn read(&self) -> Vec<u8> {
        unsafe { std::slice::from_raw_parts(self.payload(), self.len).to_vec() }
    }
}

impl Guarded {
    pub fn raw_ref(&self) -> GuardRef {
        GuardRef { ptr: self.ptr, len: self.len, tail: self.tail }
    }
}

impl Drop for Guarded {
    fn drop(&mut self) {
        self.unpoison_guards();
        unsafe { dealloc(self.ptr, self.layout) }
    }
}
