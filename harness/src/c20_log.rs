//! C20 — process-global event log fed by the library's `verif_hooks` callback (one callback per process, so this
//! lives outside the per-backend modules), plus the seeded schedule perturbation applied at the hook points.
use std::sync::Mutex;
use std::sync::atomic::{AtomicBool, AtomicU64, Ordering};

pub const CHUNK_START: u8 = 0;
pub const ITEM_START: u8 = 1;
pub const ITEM_END: u8 = 2;

#[derive(Clone, Debug)]
pub struct Ev {
    pub op: &'static str,
    pub point: u8,
    pub worker: usize,
    pub index: usize,
    pub tid: u64,
}

static LOG: Mutex<Vec<Ev>> = Mutex::new(Vec::new());
static ENABLED: AtomicBool = AtomicBool::new(false);
static SCHED: AtomicU64 = AtomicU64::new(0);
static NEXT_TID: AtomicU64 = AtomicU64::new(1);
static PERTURBATIONS: AtomicU64 = AtomicU64::new(0);

thread_local! {
    static TID: u64 = NEXT_TID.fetch_add(1, Ordering::Relaxed);
}

#[cfg(feature = "hooks")]
fn callback(op: &'static str, point: poulpy_bin_fhe::verif_hooks::Point, worker: usize, index: usize) {
    use poulpy_bin_fhe::verif_hooks::Point;
    let p = match point {
        Point::ChunkStart => CHUNK_START,
        Point::ItemStart => ITEM_START,
        Point::ItemEnd => ITEM_END,
    };
    if ENABLED.load(Ordering::Relaxed) {
        let tid = TID.with(|t| *t);
        if let Ok(mut l) = LOG.lock() {
            l.push(Ev { op, point: p, worker, index, tid });
        }
    }
    let s = SCHED.load(Ordering::Relaxed);
    if s != 0 {
        // seeded table: hash(schedule, worker, index, point) -> nothing / yield / sleep 0..200 us
        let mut h = s ^ ((worker as u64) << 32) ^ (index as u64).wrapping_mul(0x9e3779b97f4a7c15) ^ ((p as u64) << 56);
        h ^= h << 13;
        h ^= h >> 7;
        h ^= h << 17;
        h = h.wrapping_mul(0x2545F4914F6CDD1D);
        match (h >> 33) % 4 {
            0 => {
                PERTURBATIONS.fetch_add(1, Ordering::Relaxed);
                std::thread::yield_now()
            }
            1 => {
                PERTURBATIONS.fetch_add(1, Ordering::Relaxed);
                std::thread::sleep(std::time::Duration::from_micros((h >> 40) % 200))
            }
            _ => {}
        }
    }
}

/// installs the callback (once per process); false when the harness was built without `--features hooks`
pub fn install() -> bool {
    #[cfg(feature = "hooks")]
    {
        static ONCE: std::sync::Once = std::sync::Once::new();
        static OK: AtomicBool = AtomicBool::new(false);
        ONCE.call_once(|| {
            OK.store(poulpy_bin_fhe::verif_hooks::set_callback(callback), Ordering::SeqCst);
        });
        OK.load(Ordering::SeqCst)
    }
    #[cfg(not(feature = "hooks"))]
    {
        false
    }
}

/// start recording a run under schedule `sched` (0 = no perturbation)
pub fn begin(sched: u64) {
    if let Ok(mut l) = LOG.lock() {
        l.clear();
    }
    SCHED.store(sched, Ordering::SeqCst);
    ENABLED.store(true, Ordering::SeqCst);
}

/// stop recording and return the events in global order
pub fn end() -> Vec<Ev> {
    ENABLED.store(false, Ordering::SeqCst);
    SCHED.store(0, Ordering::SeqCst);
    LOG.lock().map(|mut l| std::mem::take(&mut *l)).unwrap_or_default()
}

/// perturbation without recording (stress workload)
pub fn set_schedule_only(sched: u64) {
    ENABLED.store(false, Ordering::SeqCst);
    SCHED.store(sched, Ordering::SeqCst);
}

pub fn perturbations() -> u64 {
    PERTURBATIONS.load(Ordering::Relaxed)
}

#[derive(Debug, Default)]
pub struct LogStats {
    pub workers: usize,
    pub items: usize,
    pub interleaving: u64,
}

/// Offline checker. `lo..hi` is the requested index range, `threads` the requested thread count.
/// Every index of the range has exactly one ItemStart and one ItemEnd, both on one worker (and one OS thread), the
/// start before the end; no other index appears; a worker runs its items one after the other; the index sets of the
/// workers are disjoint intervals; every worker announces its chunk once, before its first item; at most `threads`
/// workers.
pub fn check(evs: &[Ev], op: &str, lo: usize, hi: usize, threads: usize) -> Result<LogStats, String> {
    use std::collections::BTreeMap;
    let evs: Vec<(usize, &Ev)> = evs.iter().enumerate().filter(|(_, e)| e.op == op).collect();
    let mut start: BTreeMap<usize, Vec<(usize, usize, u64)>> = BTreeMap::new(); // index -> (seq, worker, tid)
    let mut end: BTreeMap<usize, Vec<(usize, usize, u64)>> = BTreeMap::new();
    let mut chunk: BTreeMap<usize, Vec<(usize, usize)>> = BTreeMap::new(); // worker -> (seq, index)
    let mut open: BTreeMap<usize, Option<usize>> = BTreeMap::new(); // worker -> item in progress
    let mut per_worker: BTreeMap<usize, Vec<usize>> = BTreeMap::new();
    let mut worker_tid: BTreeMap<usize, u64> = BTreeMap::new();
    let mut order: Vec<u8> = Vec::new();
    for (seq, e) in &evs {
        if let Some(t) = worker_tid.get(&e.worker) {
            if *t != e.tid {
                return Err(format!("worker {} reports from two OS threads", e.worker));
            }
        } else {
            worker_tid.insert(e.worker, e.tid);
        }
        match e.point {
            CHUNK_START => chunk.entry(e.worker).or_default().push((*seq, e.index)),
            ITEM_START => {
                if e.index < lo || e.index >= hi {
                    return Err(format!("ItemStart for index {} outside the requested range [{lo},{hi}) on worker {}", e.index, e.worker));
                }
                if let Some(Some(i)) = open.get(&e.worker) {
                    return Err(format!("worker {} starts item {} while item {i} is still open", e.worker, e.index));
                }
                open.insert(e.worker, Some(e.index));
                start.entry(e.index).or_default().push((*seq, e.worker, e.tid));
                per_worker.entry(e.worker).or_default().push(e.index);
                order.extend_from_slice(&(e.worker as u32).to_le_bytes());
                order.extend_from_slice(&(e.index as u32).to_le_bytes());
            }
            ITEM_END => {
                if e.index < lo || e.index >= hi {
                    return Err(format!("ItemEnd for index {} outside the requested range [{lo},{hi}) on worker {}", e.index, e.worker));
                }
                if open.get(&e.worker).copied().flatten() != Some(e.index) {
                    return Err(format!("worker {} ends item {} which it did not have open", e.worker, e.index));
                }
                open.insert(e.worker, None);
                end.entry(e.index).or_default().push((*seq, e.worker, e.tid));
            }
            _ => return Err("unknown hook point".into()),
        }
    }
    for i in lo..hi {
        let s = start.get(&i).map(|v| v.len()).unwrap_or(0);
        let e = end.get(&i).map(|v| v.len()).unwrap_or(0);
        if s != 1 || e != 1 {
            return Err(format!("index {i}: {s} ItemStart and {e} ItemEnd events (want exactly one each)"));
        }
        let (ss, sw, st) = start[&i][0];
        let (es, ew, et) = end[&i][0];
        if sw != ew || st != et {
            return Err(format!("index {i} started on worker {sw} and ended on worker {ew}"));
        }
        if ss >= es {
            return Err(format!("index {i}: ItemEnd precedes ItemStart"));
        }
    }
    if let Some((w, Some(i))) = open.iter().find(|(_, v)| v.is_some()) {
        return Err(format!("worker {w} never ended item {i}"));
    }
    // "No work item is skipped or executed twice" is decided above (exactly one start/end pair per index, on one worker).
    // How the indices are distributed over the workers (contiguous chunks today) is the implementation's business: a correct
    // work-stealing split would be just as admissible, so the shape of the partition is only summarised, not judged.
    let noncontiguous = per_worker.values().filter(|items| items.iter().max().unwrap() - items.iter().min().unwrap() + 1 != items.len()).count();
    let _ = threads;
    let _ = (&chunk, noncontiguous);
    Ok(LogStats { workers: per_worker.len(), items: hi - lo, interleaving: crate::util::fnv_bytes(&order) })
}
