// C18 helper: the serialisable types, how to allocate them from a `Shape`, how to reach their buffers.

#[derive(Clone, Debug)]
pub struct Shape {
    pub n: usize,
    pub cols: usize,    // hal: cols (VecZnx/ScalarZnx), cols_out (MatZnx)
    pub limbs: usize,   // size / capacity in limbs
    pub rows: usize,    // MatZnx rows
    pub cols_in: usize, // MatZnx cols_in
    pub base2k: u32,
    pub rank_in: u32,
    pub rank_out: u32,
    pub dnum: u32,
    pub dsize: u32,
    pub n_lwe: u32,
    pub opt: bool, // BDDKey: ks_glwe present
}

impl Shape {
    pub fn desc(&self) -> String {
        format!(
            "n={} cols={} limbs={} rows={} cols_in={} base2k={} rank_in={} rank_out={} dnum={} dsize={} n_lwe={} opt={}",
            self.n, self.cols, self.limbs, self.rows, self.cols_in, self.base2k, self.rank_in, self.rank_out, self.dnum, self.dsize, self.n_lwe, self.opt
        )
    }
}

fn ds_valid(limbs: usize, dnum: u32, ds: u32) -> bool {
    ds >= 1 && limbs as u32 > ds && dnum * ds <= limbs as u32
}

pub struct Par {
    pub n: Degree,
    pub b: Base2K,
    pub k: TorusPrecision,
    pub ri: Rank,
    pub ro: Rank,
    pub dnum: Dnum,
    pub ds: Dsize,
}

/// `alt` = receiver flavour: same buffer dimensions, different scalar metadata (base2k, dsize when another value is valid)
pub fn par(sh: &Shape, alt: bool, ds1: bool) -> Par {
    let b = if alt { sh.base2k + 3 } else { sh.base2k };
    let mut ds = if ds1 { 1 } else { sh.dsize };
    if alt && !ds1 {
        let cand = if ds == 1 { 2 } else { 1 };
        if ds_valid(sh.limbs, sh.dnum, cand) {
            ds = cand;
        }
    }
    Par {
        n: Degree(sh.n as u32),
        b: Base2K(b),
        k: TorusPrecision(b * sh.limbs as u32),
        ri: Rank(sh.rank_in),
        ro: Rank(sh.rank_out),
        dnum: Dnum(sh.dnum),
        ds: Dsize(ds),
    }
}

pub struct DirectLeaf {
    pub dims: Vec<u64>,
    pub data_len: usize,
}

pub trait Subject: Sized {
    const NAME: &'static str;
    /// can the active limb count be set below the capacity (VecZnx-backed types with a reachable buffer)
    const SHRINKABLE: bool = false;
    /// does `touch` reach the buffers (public accessors exist)
    const TOUCHABLE: bool = false;
    /// 0: hal VecZnx, 1: hal ScalarZnx, 2: hal MatZnx, 3: LWE-like, 4: GLWE-like, 5: GGLWE-like, 6: GGLWE-like with dsize fixed to 1, 7: bin-fhe
    const FAMILY: u8;
    fn ok(sh: &Shape) -> bool {
        match Self::FAMILY {
            5 => ds_valid(sh.limbs, sh.dnum, sh.dsize),
            6 | 7 => ds_valid(sh.limbs, sh.dnum, 1),
            _ => sh.limbs >= 1,
        }
    }
    fn alloc(sh: &Shape, alt: bool) -> Self;
    /// fill the payload through the public API; false when the type offers none
    fn fill(&mut self, _rng: &mut Rng) -> bool {
        false
    }
    fn w(&self, out: &mut Vec<u8>) -> std::io::Result<()>;
    fn r(&mut self, inp: &mut dyn std::io::Read) -> std::io::Result<()>;
    fn grammar() -> fn(&mut P) -> PRes;
    fn eqv(&self, _o: &Self) -> Option<bool> {
        None
    }
    fn shrink(&mut self, _to: usize) -> bool {
        false
    }
    fn direct(&self) -> Option<Vec<DirectLeaf>> {
        None
    }
    /// exercise the buffers through the public accessors; returns a checksum. Only called when the invariants
    /// hold, or in the asan-touch mode.
    fn touch(&mut self) -> Option<i64> {
        None
    }
    /// number of stored seeds (compressed types), without cloning them
    fn seed_counts(&mut self) -> Option<Vec<usize>> {
        None
    }
}

macro_rules! io_impl {
    () => {
        fn w(&self, out: &mut Vec<u8>) -> std::io::Result<()> {
            self.write_to(out)
        }
        fn r(&mut self, inp: &mut dyn std::io::Read) -> std::io::Result<()> {
            let mut rr = inp;
            self.read_from(&mut rr)
        }
    };
}
macro_rules! eq_impl {
    () => {
        fn eqv(&self, o: &Self) -> Option<bool> {
            Some(self == o)
        }
    };
}
macro_rules! fill_impl {
    () => {
        fn fill(&mut self, rng: &mut Rng) -> bool {
            let mut s = Source::new(rng.seed32());
            self.fill_uniform(50, &mut s);
            true
        }
    };
}

// ---- buffer exercisers ----------------------------------------------------------------------------
fn xor_all(s: &[i64]) -> i64 {
    let mut a = 0i64;
    for x in s {
        a ^= unsafe { std::ptr::read_volatile(x) };
    }
    a
}

pub fn touch_vec<D: poulpy_hal::layouts::DataMut>(v: &mut VecZnx<D>) -> i64 {
    let mut acc = xor_all(v.raw());
    let (cols, size, max) = (v.cols(), v.size(), v.max_size());
    if cols > 0 && size > 0 {
        acc ^= xor_all(v.at(cols - 1, size - 1));
    }
    if cols > 0 && max > 0 {
        v.set_size(max);
        acc ^= xor_all(v.at(cols - 1, max - 1));
        acc ^= xor_all(v.at(0, max - 1));
        v.set_size(size);
    }
    std::hint::black_box(acc)
}

pub fn touch_vec_ref<D: poulpy_hal::layouts::DataRef>(v: &VecZnx<D>) -> i64 {
    let mut acc = xor_all(v.raw());
    let (cols, size) = (v.cols(), v.size());
    if cols > 0 && size > 0 {
        acc ^= xor_all(v.at(cols - 1, size - 1));
        acc ^= xor_all(v.at(0, 0));
    }
    std::hint::black_box(acc)
}

pub fn touch_scalar<D: poulpy_hal::layouts::DataRef>(v: &ScalarZnx<D>) -> i64 {
    let mut acc = xor_all(v.raw());
    if v.cols() > 0 {
        acc ^= xor_all(v.at(v.cols() - 1, 0));
    }
    std::hint::black_box(acc)
}

pub fn touch_mat<D: poulpy_hal::layouts::DataRef>(m: &MatZnx<D>) -> i64 {
    let mut acc = xor_all(m.raw());
    if m.rows() > 0 && m.cols_in() > 0 {
        let v = m.at(m.rows() - 1, m.cols_in() - 1);
        acc ^= touch_vec_ref(&v);
        let v0 = m.at(0, 0);
        acc ^= touch_vec_ref(&v0);
    }
    std::hint::black_box(acc)
}

fn dl_vec<D: poulpy_hal::layouts::DataRef>(v: &VecZnx<D>) -> DirectLeaf {
    DirectLeaf { dims: vec![v.n() as u64, v.cols() as u64, v.size() as u64, v.max_size() as u64], data_len: v.data.as_ref().len() }
}
fn dl_mat<D: poulpy_hal::layouts::DataRef>(m: &MatZnx<D>) -> DirectLeaf {
    DirectLeaf {
        dims: vec![m.n() as u64, m.size() as u64, m.rows() as u64, m.cols_in() as u64, m.cols_out() as u64],
        data_len: m.data().as_ref().len(),
    }
}

// ---- hal ------------------------------------------------------------------------------------------
impl Subject for VecZnx<Vec<u8>> {
    const NAME: &'static str = "VecZnx";
    const TOUCHABLE: bool = true;
    const SHRINKABLE: bool = true;
    const FAMILY: u8 = 0;
    io_impl!();
    eq_impl!();
    fill_impl!();
    fn alloc(sh: &Shape, _alt: bool) -> Self {
        VecZnx::alloc(sh.n, sh.cols, sh.limbs)
    }
    fn grammar() -> fn(&mut P) -> PRes {
        g_vec
    }
    fn shrink(&mut self, to: usize) -> bool {
        self.set_size(to);
        true
    }
    fn direct(&self) -> Option<Vec<DirectLeaf>> {
        Some(vec![dl_vec(self)])
    }
    fn touch(&mut self) -> Option<i64> {
        Some(touch_vec(self))
    }
}

impl Subject for ScalarZnx<Vec<u8>> {
    const NAME: &'static str = "ScalarZnx";
    const TOUCHABLE: bool = true;
    const FAMILY: u8 = 1;
    io_impl!();
    eq_impl!();
    fill_impl!();
    fn alloc(sh: &Shape, _alt: bool) -> Self {
        ScalarZnx::alloc(sh.n, sh.cols + sh.limbs - 1)
    }
    fn grammar() -> fn(&mut P) -> PRes {
        g_scalar
    }
    fn direct(&self) -> Option<Vec<DirectLeaf>> {
        Some(vec![DirectLeaf { dims: vec![self.n as u64, self.cols as u64], data_len: self.data.len() }])
    }
    fn touch(&mut self) -> Option<i64> {
        Some(touch_scalar(self))
    }
}

impl Subject for MatZnx<Vec<u8>> {
    const NAME: &'static str = "MatZnx";
    const TOUCHABLE: bool = true;
    const FAMILY: u8 = 2;
    io_impl!();
    eq_impl!();
    fill_impl!();
    fn alloc(sh: &Shape, _alt: bool) -> Self {
        MatZnx::alloc(sh.n, sh.rows, sh.cols_in, sh.cols, sh.limbs)
    }
    fn grammar() -> fn(&mut P) -> PRes {
        g_mat
    }
    fn direct(&self) -> Option<Vec<DirectLeaf>> {
        Some(vec![dl_mat(self)])
    }
    fn touch(&mut self) -> Option<i64> {
        Some(touch_mat(self))
    }
}

// ---- core: VecZnx-backed ---------------------------------------------------------------------------
impl Subject for LWE<Vec<u8>> {
    const NAME: &'static str = "LWE";
    const TOUCHABLE: bool = true;
    const SHRINKABLE: bool = true;
    const FAMILY: u8 = 3;
    io_impl!();
    eq_impl!();
    fill_impl!();
    fn alloc(sh: &Shape, alt: bool) -> Self {
        let p = par(sh, alt, true);
        LWE::alloc(p.n, p.b, p.k)
    }
    fn grammar() -> fn(&mut P) -> PRes {
        g_lwe
    }
    fn shrink(&mut self, to: usize) -> bool {
        self.data_mut().set_size(to);
        true
    }
    fn direct(&self) -> Option<Vec<DirectLeaf>> {
        Some(vec![dl_vec(self.data())])
    }
    fn touch(&mut self) -> Option<i64> {
        Some(touch_vec(self.data_mut()))
    }
}

impl Subject for GLWE<Vec<u8>> {
    const NAME: &'static str = "GLWE";
    const TOUCHABLE: bool = true;
    const SHRINKABLE: bool = true;
    const FAMILY: u8 = 4;
    io_impl!();
    eq_impl!();
    fill_impl!();
    fn alloc(sh: &Shape, alt: bool) -> Self {
        let p = par(sh, alt, true);
        GLWE::alloc(p.n, p.b, p.k, p.ro)
    }
    fn grammar() -> fn(&mut P) -> PRes {
        g_glwe
    }
    fn shrink(&mut self, to: usize) -> bool {
        self.data_mut().set_size(to);
        true
    }
    fn direct(&self) -> Option<Vec<DirectLeaf>> {
        Some(vec![dl_vec(self.data())])
    }
    fn touch(&mut self) -> Option<i64> {
        Some(touch_vec(self.data_mut()))
    }
}

impl Subject for GLWEPublicKey<Vec<u8>> {
    const NAME: &'static str = "GLWEPublicKey";
    const TOUCHABLE: bool = true;
    const FAMILY: u8 = 4;
    io_impl!();
    eq_impl!();
    fn alloc(sh: &Shape, alt: bool) -> Self {
        let p = par(sh, alt, true);
        GLWEPublicKey::alloc(p.n, p.b, p.k, p.ro)
    }
    fn fill(&mut self, rng: &mut Rng) -> bool {
        let mut s = Source::new(rng.seed32());
        {
            let mut g = GLWEToMut::to_mut(self);
            g.data_mut().fill_uniform(50, &mut s);
        }
        *self.dist_mut() = random_dist(rng);
        true
    }
    fn grammar() -> fn(&mut P) -> PRes {
        g_pk
    }
    fn touch(&mut self) -> Option<i64> {
        let mut g = GLWEToMut::to_mut(self);
        Some(touch_vec(g.data_mut()))
    }
}

impl Subject for GLWECompressed<Vec<u8>> {
    const NAME: &'static str = "GLWECompressed";
    const FAMILY: u8 = 4;
    io_impl!();
    eq_impl!();
    fn alloc(sh: &Shape, alt: bool) -> Self {
        let p = par(sh, alt, true);
        GLWECompressed::alloc(p.n, p.b, p.k, p.ro)
    }
    fn fill(&mut self, rng: &mut Rng) -> bool {
        let mut s = Source::new(rng.seed32());
        self.fill_uniform(50, &mut s);
        *self.seed_mut() = rng.seed32();
        true
    }
    fn grammar() -> fn(&mut P) -> PRes {
        g_glwe_c
    }
}

impl Subject for LWECompressed<Vec<u8>> {
    const NAME: &'static str = "LWECompressed";
    const FAMILY: u8 = 3;
    io_impl!();
    eq_impl!();
    fill_impl!();
    fn alloc(sh: &Shape, alt: bool) -> Self {
        let p = par(sh, alt, true);
        LWECompressed::alloc(p.b, p.k)
    }
    fn grammar() -> fn(&mut P) -> PRes {
        g_lwe_c
    }
}

// ---- core: MatZnx-backed ---------------------------------------------------------------------------
impl Subject for GGLWE<Vec<u8>> {
    const NAME: &'static str = "GGLWE";
    const TOUCHABLE: bool = true;
    const FAMILY: u8 = 5;
    io_impl!();
    eq_impl!();
    fill_impl!();
    fn alloc(sh: &Shape, alt: bool) -> Self {
        let p = par(sh, alt, false);
        GGLWE::alloc(p.n, p.b, p.k, p.ri, p.ro, p.dnum, p.ds)
    }
    fn grammar() -> fn(&mut P) -> PRes {
        g_gglwe
    }
    fn direct(&self) -> Option<Vec<DirectLeaf>> {
        Some(vec![dl_mat(self.data())])
    }
    fn touch(&mut self) -> Option<i64> {
        Some(touch_mat(self.data()))
    }
}

impl Subject for GGSW<Vec<u8>> {
    const NAME: &'static str = "GGSW";
    const FAMILY: u8 = 5;
    io_impl!();
    eq_impl!();
    fill_impl!();
    fn alloc(sh: &Shape, alt: bool) -> Self {
        let p = par(sh, alt, false);
        GGSW::alloc(p.n, p.b, p.k, p.ro, p.dnum, p.ds)
    }
    fn grammar() -> fn(&mut P) -> PRes {
        g_ggsw
    }
}

macro_rules! gglwe_like {
    ($ty:ident, $name:literal, $fam:literal, $ds1:literal, $g:ident, |$p:ident| $alloc:expr, $touch:tt) => {
        impl Subject for $ty<Vec<u8>> {
            const NAME: &'static str = $name;
            const TOUCHABLE: bool = gglwe_like!(@touchable $touch);
            const FAMILY: u8 = $fam;
            io_impl!();
            eq_impl!();
            fill_impl!();
            fn alloc(sh: &Shape, alt: bool) -> Self {
                let $p = par(sh, alt, $ds1);
                $alloc
            }
            fn grammar() -> fn(&mut P) -> PRes {
                $g
            }
            fn touch(&mut self) -> Option<i64> {
                gglwe_like!(@touch self, $touch)
            }
            fn seed_counts(&mut self) -> Option<Vec<usize>> {
                gglwe_like!(@seeds self, $touch)
            }
        }
    };
    (@touchable gglwe) => {
        true
    };
    (@touchable seedmut) => {
        false
    };
    (@touchable none) => {
        false
    };
    (@touch $s:ident, gglwe) => {{
        let g = GGLWEToRef::to_ref($s);
        Some(touch_mat(g.data()))
    }};
    (@touch $s:ident, seedmut) => {
        None
    };
    (@touch $s:ident, none) => {
        None
    };
    (@seeds $s:ident, seedmut) => {
        Some(vec![$s.seed_mut().len()])
    };
    (@seeds $s:ident, gglwe) => {
        None
    };
    (@seeds $s:ident, none) => {
        None
    };
}

gglwe_like!(GLWESwitchingKey, "GLWESwitchingKey", 5, false, g_swk, |p| GLWESwitchingKey::alloc(p.n, p.b, p.k, p.ri, p.ro, p.dnum, p.ds), gglwe);
gglwe_like!(GLWEAutomorphismKey, "GLWEAutomorphismKey", 5, false, g_atk, |p| GLWEAutomorphismKey::alloc(p.n, p.b, p.k, p.ro, p.dnum, p.ds), gglwe);
gglwe_like!(GLWETensorKey, "GLWETensorKey", 5, false, g_gglwe, |p| GLWETensorKey::alloc(p.n, p.b, p.k, p.ro, p.dnum, p.ds), gglwe);
gglwe_like!(LWEToGLWEKey, "LWEToGLWEKey", 6, true, g_swk, |p| LWEToGLWEKey::alloc(p.n, p.b, p.k, p.ro, p.dnum), none);
gglwe_like!(LWESwitchingKey, "LWESwitchingKey", 6, true, g_swk, |p| LWESwitchingKey::alloc(p.n, p.b, p.k, p.dnum), gglwe);
gglwe_like!(GLWEToLWEKey, "GLWEToLWEKey", 6, true, g_swk, |p| GLWEToLWEKey::alloc(p.n, p.b, p.k, p.ri, p.dnum), none);
gglwe_like!(GGLWEToGGSWKey, "GGLWEToGGSWKey", 5, false, g_tsk, |p| GGLWEToGGSWKey::alloc(p.n, p.b, p.k, p.ro, p.dnum, p.ds), none);
gglwe_like!(GGLWECompressed, "GGLWECompressed", 5, false, g_gglwe_c, |p| GGLWECompressed::alloc(p.n, p.b, p.k, p.ri, p.ro, p.dnum, p.ds), seedmut);
gglwe_like!(GGSWCompressed, "GGSWCompressed", 5, false, g_ggsw_c, |p| GGSWCompressed::alloc(p.n, p.b, p.k, p.ro, p.dnum, p.ds), seedmut);
gglwe_like!(GLWESwitchingKeyCompressed, "GLWESwitchingKeyCompressed", 5, false, g_swk_c, |p| GLWESwitchingKeyCompressed::alloc(p.n, p.b, p.k, p.ri, p.ro, p.dnum, p.ds), seedmut);
gglwe_like!(GLWEAutomorphismKeyCompressed, "GLWEAutomorphismKeyCompressed", 5, false, g_atk_c, |p| GLWEAutomorphismKeyCompressed::alloc(p.n, p.b, p.k, p.ro, p.dnum, p.ds), seedmut);
gglwe_like!(GLWETensorKeyCompressed, "GLWETensorKeyCompressed", 5, false, g_gglwe_c, |p| GLWETensorKeyCompressed::alloc(p.n, p.b, p.k, p.ro, p.dnum, p.ds), seedmut);
gglwe_like!(GLWEToLWESwitchingKeyCompressed, "GLWEToLWESwitchingKeyCompressed", 6, true, g_swk_c, |p| GLWEToLWESwitchingKeyCompressed::alloc(p.n, p.b, p.k, p.ri, p.dnum), none);
gglwe_like!(LWESwitchingKeyCompressed, "LWESwitchingKeyCompressed", 6, true, g_swk_c, |p| LWESwitchingKeyCompressed::alloc(p.n, p.b, p.k, p.dnum), none);
gglwe_like!(LWEToGLWEKeyCompressed, "LWEToGLWEKeyCompressed", 6, true, g_swk_c, |p| LWEToGLWEKeyCompressed::alloc(p.n, p.b, p.k, p.ro, p.dnum), none);
gglwe_like!(GGLWEToGGSWKeyCompressed, "GGLWEToGGSWKeyCompressed", 5, false, g_tsk_c, |p| GGLWEToGGSWKeyCompressed::alloc(p.n, p.b, p.k, p.ro, p.dnum, p.ds), none);

// ---- bin-fhe ---------------------------------------------------------------------------------------
fn brk_layout(sh: &Shape, alt: bool) -> BlindRotationKeyLayout {
    let p = par(sh, alt, true);
    BlindRotationKeyLayout { n_glwe: p.n, n_lwe: Degree(sh.n_lwe), base2k: p.b, k: p.k, dnum: p.dnum, rank: p.ro }
}
fn cbt_layout(sh: &Shape, alt: bool) -> CircuitBootstrappingKeyLayout {
    let p = par(sh, alt, true);
    CircuitBootstrappingKeyLayout {
        brk_layout: brk_layout(sh, alt),
        atk_layout: GLWEAutomorphismKeyLayout { n: p.n, base2k: p.b, k: p.k, rank: p.ro, dnum: p.dnum, dsize: Dsize(1) },
        tsk_layout: GGLWEToGGSWKeyLayout { n: p.n, base2k: p.b, k: p.k, rank: p.ro, dnum: p.dnum, dsize: Dsize(1) },
    }
}
fn bdd_layout(sh: &Shape, alt: bool) -> BDDKeyLayout {
    let p = par(sh, alt, true);
    BDDKeyLayout {
        cbt_layout: cbt_layout(sh, alt),
        ks_glwe_layout: if sh.opt {
            Some(GLWESwitchingKeyLayout { n: p.n, base2k: p.b, k: p.k, rank_in: p.ro, rank_out: Rank(1), dnum: p.dnum, dsize: Dsize(1) })
        } else {
            None
        },
        ks_lwe_layout: GLWEToLWEKeyLayout { n: p.n, base2k: p.b, k: p.k, rank_in: p.ro, dnum: p.dnum },
    }
}

impl Subject for BlindRotationKey<Vec<u8>, CGGI> {
    const NAME: &'static str = "BlindRotationKey";
    const FAMILY: u8 = 7;
    io_impl!();
    eq_impl!();
    fill_impl!();
    fn alloc(sh: &Shape, alt: bool) -> Self {
        BlindRotationKey::alloc(&brk_layout(sh, alt))
    }
    fn grammar() -> fn(&mut P) -> PRes {
        g_brk
    }
}
impl Subject for BlindRotationKeyCompressed<Vec<u8>, CGGI> {
    const NAME: &'static str = "BlindRotationKeyCompressed";
    const FAMILY: u8 = 7;
    io_impl!();
    eq_impl!();
    fill_impl!();
    fn alloc(sh: &Shape, alt: bool) -> Self {
        BlindRotationKeyCompressed::alloc(&brk_layout(sh, alt))
    }
    fn grammar() -> fn(&mut P) -> PRes {
        g_brk_c
    }
}
impl Subject for CircuitBootstrappingKey<Vec<u8>, CGGI> {
    const NAME: &'static str = "CircuitBootstrappingKey";
    const FAMILY: u8 = 7;
    io_impl!();
    fn alloc(sh: &Shape, alt: bool) -> Self {
        CircuitBootstrappingKey::alloc_from_infos(&cbt_layout(sh, alt))
    }
    fn grammar() -> fn(&mut P) -> PRes {
        g_cbt
    }
}
impl Subject for BDDKey<Vec<u8>, CGGI> {
    const NAME: &'static str = "BDDKey";
    const FAMILY: u8 = 7;
    io_impl!();
    fn alloc(sh: &Shape, alt: bool) -> Self {
        BDDKey::alloc_from_infos(&bdd_layout(sh, alt))
    }
    fn grammar() -> fn(&mut P) -> PRes {
        g_bdd
    }
}

/// a random valid distribution (all seven variants; probabilities with full 52-bit mantissas)
pub fn random_dist(rng: &mut Rng) -> Distribution {
    match rng.below(7) {
        0 => Distribution::TernaryFixed(rng.usize_in(0, 4096)),
        1 => Distribution::TernaryProb((rng.next_u64() >> 11) as f64 / (1u64 << 53) as f64),
        2 => Distribution::BinaryFixed(rng.usize_in(0, 4096)),
        3 => Distribution::BinaryProb((rng.next_u64() >> 11) as f64 / (1u64 << 53) as f64),
        4 => Distribution::BinaryBlock(rng.usize_in(1, 64)),
        5 => Distribution::ZERO,
        _ => Distribution::NONE,
    }
}

/// the wire word of a distribution, written from the documented format (tag byte | payload; f64 >> 8)
pub fn dist_word(d: &Distribution) -> u64 {
    match d {
        Distribution::TernaryFixed(v) => *v as u64,
        Distribution::TernaryProb(p) => (1u64 << 56) | (p.to_bits() >> 8),
        Distribution::BinaryFixed(v) => (2u64 << 56) | *v as u64,
        Distribution::BinaryProb(p) => (3u64 << 56) | (p.to_bits() >> 8),
        Distribution::BinaryBlock(v) => (4u64 << 56) | *v as u64,
        Distribution::ZERO => 5u64 << 56,
        Distribution::NONE => 6u64 << 56,
    }
}
