//! Exact torus and negacyclic-ring arithmetic used by the oracles.
//! Written from the mathematical definitions; shares no code with the library under test.
use dashu_int::IBig;
use dashu_int::ops::BitTest;

pub type Big = IBig;

pub fn big(x: i128) -> Big {
    Big::from(x)
}

pub fn pow2(k: usize) -> Big {
    Big::from(1) << k
}

/// reduce x modulo 2^w into the centred interval [-2^(w-1), 2^(w-1))
pub fn centre(x: &Big, w: usize) -> Big {
    let m = pow2(w);
    let half = pow2(w - 1);
    let mut r = (x + &half) % &m;
    if r < Big::from(0) {
        r += &m;
    }
    r - half
}

/// Torus value of a limb vector scaled by 2^w: sum_j a_j * 2^(w - (j+1) b). Requires w >= len*b.
pub fn limbs_value(limbs: &[i128], b: usize, w: usize) -> Big {
    let mut acc = Big::from(0);
    for (j, a) in limbs.iter().enumerate() {
        let sh = w - (j + 1) * b;
        acc += Big::from(*a) << sh;
    }
    acc
}

/// Same but from i64 limbs.
pub fn limbs_value_i64(limbs: &[i64], b: usize, w: usize) -> Big {
    let mut acc = Big::from(0);
    for (j, a) in limbs.iter().enumerate() {
        let sh = w - (j + 1) * b;
        acc += Big::from(*a) << sh;
    }
    acc
}

/// multiply by 2^e (e may be negative: exact only if divisible; caller chooses w large enough)
pub fn shl_signed(x: &Big, e: i64) -> Big {
    if e >= 0 {
        x << (e as usize)
    } else {
        // callers guarantee exact divisibility by picking w with enough low zero bits
        x >> ((-e) as usize)
    }
}

pub fn abs(x: &Big) -> Big {
    if *x < Big::from(0) { -x } else { x.clone() }
}

pub fn to_f64(x: &Big) -> f64 {
    x.to_f64().value()
}

/// |x| / 2^unit_log as f64 (ratio in "units")
pub fn ratio_units(x: &Big, unit_log: usize) -> f64 {
    // avoid overflow of f64 by shifting down first when large
    let a = abs(x);
    let bl = a.bit_len();
    if bl == 0 {
        return 0.0;
    }
    if bl > 900 {
        let sh = bl - 900;
        return to_f64(&(a >> sh)) * 2f64.powi(sh as i32 - unit_log as i32);
    }
    to_f64(&a) * 2f64.powi(-(unit_log as i32))
}

// ---------------------------------------------------------------------------------------------
// Z[X]/(X^N + 1)
// ---------------------------------------------------------------------------------------------

/// index map for multiplication by X^k: coefficient i goes to (i+k) mod 2N with sign.
pub fn rot_target(n: usize, i: usize, k: i64) -> (usize, bool) {
    let two_n = 2 * n as i128;
    let e = ((i as i128 + k as i128) % two_n + two_n) % two_n;
    if (e as usize) < n { (e as usize, false) } else { (e as usize - n, true) }
}

/// index map for X -> X^g
pub fn aut_target(n: usize, i: usize, g: i64) -> (usize, bool) {
    let two_n = 2 * n as i128;
    let e = ((i as i128 * g as i128) % two_n + two_n) % two_n;
    if (e as usize) < n { (e as usize, false) } else { (e as usize - n, true) }
}

pub fn rotate_i64(a: &[i64], k: i64) -> Vec<i64> {
    let n = a.len();
    let mut r = vec![0i64; n];
    for i in 0..n {
        let (t, neg) = rot_target(n, i, k);
        r[t] = if neg { a[i].wrapping_neg() } else { a[i] };
    }
    r
}

pub fn rotate_i128(a: &[i128], k: i64) -> Vec<i128> {
    let n = a.len();
    let mut r = vec![0i128; n];
    for i in 0..n {
        let (t, neg) = rot_target(n, i, k);
        r[t] = if neg { a[i].wrapping_neg() } else { a[i] };
    }
    r
}

pub fn automorphism_i64(a: &[i64], g: i64) -> Vec<i64> {
    let n = a.len();
    let mut r = vec![0i64; n];
    for i in 0..n {
        let (t, neg) = aut_target(n, i, g);
        r[t] = if neg { a[i].wrapping_neg() } else { a[i] };
    }
    r
}

pub fn automorphism_i128(a: &[i128], g: i64) -> Vec<i128> {
    let n = a.len();
    let mut r = vec![0i128; n];
    for i in 0..n {
        let (t, neg) = aut_target(n, i, g);
        r[t] = if neg { a[i].wrapping_neg() } else { a[i] };
    }
    r
}

pub fn rotate_big(a: &[Big], k: i64) -> Vec<Big> {
    let n = a.len();
    let mut r = vec![Big::from(0); n];
    for i in 0..n {
        let (t, neg) = rot_target(n, i, k);
        r[t] = if neg { -&a[i] } else { a[i].clone() };
    }
    r
}

pub fn automorphism_big(a: &[Big], g: i64) -> Vec<Big> {
    let n = a.len();
    let mut r = vec![Big::from(0); n];
    for i in 0..n {
        let (t, neg) = aut_target(n, i, g);
        r[t] = if neg { -&a[i] } else { a[i].clone() };
    }
    r
}

/// exact negacyclic product with i128 accumulation (caller guarantees no overflow) — wrapping otherwise
pub fn negacyclic_mul_i128(a: &[i128], b: &[i128]) -> Vec<i128> {
    let n = a.len();
    assert_eq!(b.len(), n);
    let mut r = vec![0i128; n];
    for i in 0..n {
        if a[i] == 0 {
            continue;
        }
        for j in 0..n {
            let p = a[i].wrapping_mul(b[j]);
            let k = i + j;
            if k < n {
                r[k] = r[k].wrapping_add(p);
            } else {
                r[k - n] = r[k - n].wrapping_sub(p);
            }
        }
    }
    r
}

pub fn negacyclic_mul_big(a: &[Big], b: &[Big]) -> Vec<Big> {
    let n = a.len();
    assert_eq!(b.len(), n);
    let zero = Big::from(0);
    let mut r = vec![Big::from(0); n];
    for i in 0..n {
        if a[i] == zero {
            continue;
        }
        for j in 0..n {
            if b[j] == zero {
                continue;
            }
            let p = &a[i] * &b[j];
            let k = i + j;
            if k < n {
                r[k] += p;
            } else {
                r[k - n] -= p;
            }
        }
    }
    r
}

/// product of a Big polynomial by a small (i64) polynomial
pub fn negacyclic_mul_big_small(a: &[Big], b: &[i64]) -> Vec<Big> {
    let n = a.len();
    assert_eq!(b.len(), n);
    let mut r = vec![Big::from(0); n];
    for j in 0..n {
        if b[j] == 0 {
            continue;
        }
        let bj = Big::from(b[j]);
        for i in 0..n {
            let p = &a[i] * &bj;
            let k = i + j;
            if k < n {
                r[k] += p;
            } else {
                r[k - n] -= p;
            }
        }
    }
    r
}

pub fn poly_add(a: &[Big], b: &[Big]) -> Vec<Big> {
    a.iter().zip(b).map(|(x, y)| x + y).collect()
}
pub fn poly_sub(a: &[Big], b: &[Big]) -> Vec<Big> {
    a.iter().zip(b).map(|(x, y)| x - y).collect()
}
pub fn poly_neg(a: &[Big]) -> Vec<Big> {
    a.iter().map(|x| -x).collect()
}
pub fn poly_centre(a: &[Big], w: usize) -> Vec<Big> {
    a.iter().map(|x| centre(x, w)).collect()
}
pub fn poly_shl(a: &[Big], e: usize) -> Vec<Big> {
    a.iter().map(|x| x << e).collect()
}
pub fn poly_max_abs(a: &[Big]) -> Big {
    let mut m = Big::from(0);
    for x in a {
        let v = abs(x);
        if v > m {
            m = v;
        }
    }
    m
}

/// modular exponentiation in u64 (for Galois elements)
pub fn pow_mod(mut x: u64, mut e: u64, m: u64) -> u64 {
    let mut y = 1u64 % m;
    x %= m;
    while e > 0 {
        if e & 1 == 1 {
            y = ((y as u128 * x as u128) % m as u128) as u64;
        }
        x = ((x as u128 * x as u128) % m as u128) as u64;
        e >>= 1;
    }
    y
}
