// Shared by props/c02.rs and props/c03.rs (included inside their per-backend modules).
// Exact torus values of GLWE / LWE columns as big integers for any (base2k, size), clear-secret key material,
// exact phases and plaintext images. Nothing here calls the operations under test.
#[allow(unused_imports)]
pub use poulpy_core::api::*;
#[allow(unused_imports)]
pub use poulpy_core::layouts::*;
#[allow(unused_imports)]
pub use poulpy_core::{EncryptionLayout, ScratchTakeCore};
#[allow(unused_imports)]
pub use std::collections::{BTreeMap, BTreeSet, HashMap};

pub type Poly = Vec<Big>;

pub fn zero_poly(n: usize) -> Poly {
    vec![Big::from(0); n]
}

/// exact (unreduced) value of column `col` of a limb vector, scaled by 2^w: coefficient i = sum_j a_j[i] * 2^(w-(j+1)b)
pub fn vec_col_value<D: DataRef>(d: &VecZnx<D>, col: usize, b: usize, w: usize) -> Poly {
    let n = d.n();
    let size = d.size();
    assert!(w >= size * b, "w too small: {w} < {size}*{b}");
    let mut out = zero_poly(n);
    for j in 0..size {
        let limb: &[i64] = d.at(col, j);
        let sh = w - (j + 1) * b;
        for i in 0..n {
            if limb[i] != 0 {
                out[i] += Big::from(limb[i]) << sh;
            }
        }
    }
    out
}

/// all columns of a GLWE (column 0 = body, 1..=rank = mask), scaled by 2^w
pub fn glwe_cols<G: GLWEToRef>(ct: &G, w: usize) -> Vec<Poly> {
    let ct = ct.to_ref();
    let b = ct.base2k().0 as usize;
    let cols = ct.rank().0 as usize + 1;
    (0..cols).map(|c| vec_col_value(ct.data(), c, b, w)).collect()
}

pub fn glwe_bits<G: GLWEInfos>(ct: &G) -> usize {
    ct.size() * ct.base2k().0 as usize
}

/// clear secret: `rank` polynomials with small coefficients
#[derive(Clone, Debug)]
pub struct ClearSk {
    pub n: usize,
    pub polys: Vec<Vec<i64>>,
}

impl ClearSk {
    pub fn rank(&self) -> usize {
        self.polys.len()
    }
    /// sum_i ||s_i||_1
    pub fn norm1(&self) -> u64 {
        self.polys.iter().map(|p| p.iter().map(|x| x.unsigned_abs()).sum::<u64>()).sum()
    }
    /// harness-side random secret (no library sampler involved): ternary / binary / dense small
    pub fn random(n: usize, rank: usize, rng: &mut Rng, kind: usize) -> ClearSk {
        let polys = (0..rank)
            .map(|_| {
                (0..n)
                    .map(|_| match kind % 3 {
                        0 => rng.i64_in(-1, 1),
                        1 => rng.i64_in(0, 1),
                        _ => {
                            if rng.below(4) == 0 {
                                rng.i64_in(-1, 1)
                            } else {
                                0
                            }
                        }
                    })
                    .collect()
            })
            .collect();
        ClearSk { n, polys }
    }
    #[cfg(feature = "hooks")]
    pub fn from_glwe_secret<D: DataRef>(sk: &GLWESecret<D>) -> ClearSk {
        let d = sk.verif_data();
        let n = d.n();
        let rank = d.cols();
        ClearSk { n, polys: (0..rank).map(|c| d.at(c, 0).to_vec()).collect() }
    }
}

/// exact phase c_0 + sum_i c_i * s_{i-1} over Z[X]/(X^N+1) from exact columns (unreduced big integers scaled by 2^w)
pub fn phase_of_cols(cols: &[Poly], sk: &ClearSk) -> Poly {
    assert!(cols.len() <= sk.rank() + 1, "secret rank {} too small for {} columns", sk.rank(), cols.len());
    let mut acc = cols[0].clone();
    for c in 1..cols.len() {
        let p = negacyclic_mul_big_small(&cols[c], &sk.polys[c - 1]);
        for i in 0..acc.len() {
            acc[i] += &p[i];
        }
    }
    acc
}

pub fn glwe_phase<G: GLWEToRef>(ct: &G, sk: &ClearSk, w: usize) -> Poly {
    phase_of_cols(&glwe_cols(ct, w), sk)
}

/// LWE: coefficient 0 of each limb is the body, coefficients 1..=n the mask; phase = b + sum_i a_i s_i (scaled by 2^w)
pub fn lwe_phase<L: LWEToRef>(ct: &L, sk: &[i64], w: usize) -> Big {
    let ct = ct.to_ref();
    let b = ct.base2k().0 as usize;
    let v = vec_col_value(ct.data(), 0, b, w);
    let n = ct.n().0 as usize;
    assert_eq!(sk.len(), n);
    let mut acc = v[0].clone();
    for i in 0..n {
        if sk[i] != 0 {
            acc += &v[i + 1] * Big::from(sk[i]);
        }
    }
    acc
}

/// max_i |centre(a_i - b_i mod 2^w)| as a big integer, with the index where it is attained
pub fn max_centred_diff(a: &[Big], b: &[Big], w: usize) -> (Big, usize) {
    let mut m = Big::from(0);
    let mut at = 0;
    for i in 0..a.len() {
        let d = abs(&centre(&(&a[i] - &b[i]), w));
        if d > m {
            m = d;
            at = i;
        }
    }
    (m, at)
}

// ---------------------------------------------------------------------------------------------
// digit classes for ciphertext limbs (all normalised: digits in [-2^(b-1), 2^(b-1)) ) except "headroom"
// ---------------------------------------------------------------------------------------------
pub const CT_CLASSES: &[&str] = &["uniform", "uniform", "uniform", "maxpos", "maxneg", "alternate", "sparse", "ripple"];

pub fn class_digit(class: &str, rng: &mut Rng, b: usize, i: usize, j: usize, size: usize) -> i64 {
    let bb = b.min(62);
    match class {
        "uniform" => rng.signed_bits(bb),
        "maxpos" => (1i64 << (bb - 1)) - 1,
        "maxneg" => -(1i64 << (bb - 1)),
        "alternate" => {
            if (i + j) % 2 == 0 {
                (1i64 << (bb - 1)) - 1
            } else {
                -(1i64 << (bb - 1))
            }
        }
        "ripple" => {
            if j + 1 == size {
                -(1i64 << (bb - 1))
            } else {
                (1i64 << (bb - 1)) - 1
            }
        }
        "sparse" => {
            if rng.below(4) == 0 {
                rng.signed_bits(bb)
            } else {
                0
            }
        }
        "zero" => 0,
        // un-normalised digits (documented headroom): up to 2^(b+8) but never more than 2^58
        "headroom" => rng.signed_bits((bb + 8).min(58)),
        _ => unreachable!("{class}"),
    }
}

pub fn fill_vec_class<D: DataMut>(d: &mut VecZnx<D>, b: usize, class: &str, rng: &mut Rng) {
    let (n, cols, size) = (d.n(), d.cols(), d.size());
    for j in 0..size {
        for c in 0..cols {
            let limb: &mut [i64] = d.at_mut(c, j);
            for i in 0..n {
                limb[i] = class_digit(class, rng, b, i, j, size);
            }
        }
    }
}

pub fn alloc_glwe(n: usize, b: usize, size: usize, rank: usize) -> GLWE<Vec<u8>> {
    GLWE::alloc(Degree(n as u32), Base2K(b as u32), TorusPrecision((size * b) as u32), Rank(rank as u32))
}

pub fn random_glwe(n: usize, b: usize, size: usize, rank: usize, class: &str, rng: &mut Rng) -> GLWE<Vec<u8>> {
    let mut ct = alloc_glwe(n, b, size, rank);
    fill_vec_class(ct.data_mut(), b, class, rng);
    ct
}

thread_local! {
    /// when set, scratch windows are zero-filled instead of garbage-filled (used to classify results that depend on scratch content)
    pub static ZERO_SCRATCH: std::cell::Cell<bool> = const { std::cell::Cell::new(false) };
}

/// run `f` with a scratch window of exactly `bytes` bytes; if it panics with a scratch-exhaustion message, report it through
/// `on_small` and run again with a generous window. Returns Err(panic message) for any other panic.
pub fn with_exact_scratch<R>(
    bytes: usize,
    rng: &mut Rng,
    mut f: impl FnMut(&mut Scratch<BE>) -> R,
    mut on_small: impl FnMut(&str),
) -> Result<R, String> {
    let zero = ZERO_SCRATCH.with(|z| z.get());
    let mut sw = ScratchWin::new(bytes);
    if !zero {
        sw.fill(rng);
    }
    let r = guarded(|| f(sw.scratch()));
    let intact = sw.g.guards_intact();
    match r {
        Ok(v) => {
            if !intact {
                return Err("scratch guard bytes modified".into());
            }
            Ok(v)
        }
        Err(p) => {
            if is_scratch_panic(&p) {
                on_small(&p);
                let mut big = ScratchWin::new(bytes * 4 + (1 << 20));
                if !zero {
                    big.fill(rng);
                }
                guarded(|| f(big.scratch()))
            } else {
                Err(p)
            }
        }
    }
}

pub fn is_scratch_panic(p: &str) -> bool {
    p.contains("from scratch") || p.contains("scratch.available()") || p.contains("Attempted to take")
}

/// all units of (Z/2NZ)*: odd residues, as signed representatives in (-N, N)
pub fn all_galois_elements(n: usize) -> Vec<i64> {
    let two_n = 2 * n as i64;
    (0..two_n).filter(|g| g % 2 == 1).map(|g| if g > n as i64 { g - two_n } else { g }).collect()
}

pub fn log2_usize(n: usize) -> usize {
    n.trailing_zeros() as usize
}

/// f64 value of |x| / 2^w (torus magnitude)
pub fn torus_mag(x: &Big, w: usize) -> f64 {
    ratio_units(x, w)
}
