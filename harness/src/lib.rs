//! pvm — runtime monitors for phantomzone-org/poulpy (see /verif/DESIGN.md)
pub mod arena;
pub mod exact;
pub mod util;
