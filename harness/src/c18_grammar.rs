// C18 helper: an independent model of the wire format (written from the format documentation, Appendix A of
// DESIGN.md), used (a) to enumerate header fields and payload regions of a stream, (b) to observe a receiver's
// metadata through its own re-serialisation when the fields are not public.

#[derive(Clone, Copy, PartialEq, Eq, Debug)]
pub enum Role {
    Dim,       // n, cols, size, rows, cols_in, cols_out of a leaf
    MaxSize,   // VecZnx max_size
    Len,       // byte length of a leaf payload
    Scalar,    // base2k, k, dsize, rank … (u32 scalars with a meaning for the layout)
    Free,      // p, input/output degree: free scalars
    Dist,      // distribution word (tag byte + 56-bit payload)
    Count,     // number of sub-keys of a container
    SeedCount, // number of 32-byte seeds that follow
    Tag,       // u8 option tag
    GalEl,     // i64 Galois element used as a map key
}

impl Role {
    pub fn name(self) -> &'static str {
        match self {
            Role::Dim => "dim",
            Role::MaxSize => "max_size",
            Role::Len => "len",
            Role::Scalar => "scalar",
            Role::Free => "free",
            Role::Dist => "dist",
            Role::Count => "count",
            Role::SeedCount => "seed_count",
            Role::Tag => "tag",
            Role::GalEl => "gal_el",
        }
    }
}

#[derive(Clone, Debug)]
pub struct Field {
    pub off: usize,
    pub w: usize, // width in bytes: 1, 4, 8
    pub name: String,
    pub val: u64,
    pub role: Role,
    pub leaf: usize,  // index of the leaf this field is a header of (usize::MAX otherwise)
    pub scope: usize, // innermost object scope
}

#[derive(Clone, Copy, PartialEq, Eq, Debug)]
pub enum LK {
    Vec,
    Scalar,
    Mat,
}

#[derive(Clone, Debug)]
pub struct Leaf {
    pub kind: LK,
    pub path: String,
    /// Vec: n, cols, size, max_size; Scalar: n, cols; Mat: n, size, rows, cols_in, cols_out
    pub dims: Vec<u64>,
    pub len: u64,
    pub first_field: usize,
    pub nfields: usize,
    pub pay_off: usize,
    pub seed_field: Option<usize>,
}

#[derive(Clone, Copy, PartialEq, Eq, Debug)]
pub enum RegionKind {
    Payload,
    Seed,
}

#[derive(Clone, Debug, Default)]
pub struct Parsed {
    pub fields: Vec<Field>,
    pub leaves: Vec<Leaf>,
    pub regions: Vec<(usize, usize, RegionKind)>, // (offset, len, kind)
    pub scopes: Vec<(usize, usize, String)>,      // (start, end, path)
    pub total: usize,
    /// content of every 32-byte seed met, with the innermost object scope it was met in (usize::MAX: top level)
    pub seed_vals: Vec<(usize, [u8; 32])>,
}

impl Parsed {
    pub fn meta(&self) -> Vec<(String, u64)> {
        self.fields.iter().map(|f| (f.name.clone(), f.val)).collect()
    }
}

pub struct P<'a> {
    pub b: &'a [u8],
    pub pos: usize,
    pub out: Parsed,
    prefix: Vec<String>,
    cur_leaf: usize,
    scope_stack: Vec<usize>,
    pending_seed_field: Option<usize>,
}

pub type PRes = Result<(), String>;

impl<'a> P<'a> {
    pub fn new(b: &'a [u8]) -> Self {
        P { b, pos: 0, out: Parsed::default(), prefix: Vec::new(), cur_leaf: usize::MAX, scope_stack: Vec::new(), pending_seed_field: None }
    }
    fn path(&self) -> String {
        self.prefix.join(".")
    }
    fn qual(&self, name: &str) -> String {
        if self.prefix.is_empty() { name.to_string() } else { format!("{}.{}", self.path(), name) }
    }
    fn take(&mut self, n: usize) -> Result<&'a [u8], String> {
        if self.b.len() - self.pos < n {
            return Err(format!("stream ends at {} while {} bytes are needed at offset {}", self.b.len(), n, self.pos));
        }
        let s = &self.b[self.pos..self.pos + n];
        self.pos += n;
        Ok(s)
    }
    fn field(&mut self, name: &str, w: usize, role: Role) -> Result<u64, String> {
        let off = self.pos;
        let s = self.take(w)?;
        let mut buf = [0u8; 8];
        buf[..w].copy_from_slice(s);
        let val = u64::from_le_bytes(buf);
        let scope = self.scope_stack.last().copied().unwrap_or(usize::MAX);
        let name = self.qual(name);
        self.out.fields.push(Field { off, w, name, val, role, leaf: self.cur_leaf, scope });
        Ok(val)
    }
    pub fn u8(&mut self, name: &str, role: Role) -> Result<u64, String> {
        self.field(name, 1, role)
    }
    pub fn u32(&mut self, name: &str, role: Role) -> Result<u64, String> {
        self.field(name, 4, role)
    }
    pub fn u64(&mut self, name: &str, role: Role) -> Result<u64, String> {
        self.field(name, 8, role)
    }
    pub fn seed32(&mut self) -> PRes {
        let off = self.pos;
        let s = self.take(32)?;
        let mut v = [0u8; 32];
        v.copy_from_slice(s);
        let scope = self.scope_stack.last().copied().unwrap_or(usize::MAX);
        self.out.seed_vals.push((scope, v));
        self.out.regions.push((off, 32, RegionKind::Seed));
        Ok(())
    }
    /// `seed_len` (u32) followed by that many 32-byte seeds
    pub fn seeds(&mut self) -> PRes {
        let c = self.u32("seed_len", Role::SeedCount)?;
        self.pending_seed_field = Some(self.out.fields.len() - 1);
        if c > (1 << 22) {
            return Err(format!("seed_len {c} too large for the harness parser"));
        }
        for _ in 0..c {
            self.seed32()?;
        }
        Ok(())
    }
    /// object scope: `name` is appended to the field path; the extent [start,end) is recorded
    pub fn obj(&mut self, name: &str, f: impl FnOnce(&mut P<'a>) -> PRes) -> PRes {
        if !name.is_empty() {
            self.prefix.push(name.to_string());
        }
        let id = self.out.scopes.len();
        let path = self.path();
        self.out.scopes.push((self.pos, usize::MAX, path));
        self.scope_stack.push(id);
        let r = f(self);
        self.scope_stack.pop();
        if r.is_ok() {
            self.out.scopes[id].1 = self.pos; // an unfinished object keeps end = usize::MAX
        }
        if !name.is_empty() {
            self.prefix.pop();
        }
        r
    }
    fn leaf(&mut self, kind: LK, name: &str, dims: &[&str]) -> PRes {
        self.obj(name, |p| {
            let li = p.out.leaves.len();
            p.cur_leaf = li;
            let first_field = p.out.fields.len();
            let mut dv = Vec::new();
            for d in dims {
                let role = if *d == "max_size" { Role::MaxSize } else { Role::Dim };
                dv.push(p.u64(d, role)?);
            }
            let len = p.u64("len", Role::Len)?;
            let pay_off = p.pos;
            let path = p.path();
            let seed_field = p.pending_seed_field.take();
            p.out.leaves.push(Leaf { kind, path, dims: dv, len, first_field, nfields: dims.len() + 1, pay_off, seed_field });
            p.cur_leaf = usize::MAX;
            if len > (p.b.len() - p.pos) as u64 {
                return Err(format!("payload of {len} bytes announced at offset {} but only {} remain", p.pos, p.b.len() - p.pos));
            }
            p.take(len as usize)?;
            p.out.regions.push((pay_off, len as usize, RegionKind::Payload));
            Ok(())
        })
    }
    pub fn vec_znx(&mut self, name: &str) -> PRes {
        self.leaf(LK::Vec, name, &["n", "cols", "size", "max_size"])
    }
    pub fn scalar_znx(&mut self, name: &str) -> PRes {
        self.leaf(LK::Scalar, name, &["n", "cols"])
    }
    pub fn mat_znx(&mut self, name: &str) -> PRes {
        self.leaf(LK::Mat, name, &["n", "size", "rows", "cols_in", "cols_out"])
    }
}

pub fn parse(g: fn(&mut P) -> PRes, b: &[u8]) -> Result<Parsed, String> {
    let mut p = P::new(b);
    g(&mut p)?;
    if p.pos != b.len() {
        return Err(format!("grammar consumed {} of {} bytes", p.pos, b.len()));
    }
    p.out.total = p.pos;
    Ok(p.out)
}

/// Largest `seed_len` a reader following the documented format would come across in `b` (the stream may be
/// damaged: the walk stops at the first structural impossibility, which is never earlier than where a validating
/// reader stops). Used to keep attacker-sized allocations out of the monitor's own process.
pub fn max_seed_len(g: fn(&mut P) -> PRes, b: &[u8]) -> u64 {
    let mut p = P::new(b);
    let _ = g(&mut p);
    p.out.fields.iter().filter(|f| f.role == Role::SeedCount).map(|f| f.val).max().unwrap_or(0)
}

/// Walk as far as the format allows; objects that were not finished keep `end == usize::MAX`.
pub fn parse_partial(g: fn(&mut P) -> PRes, b: &[u8]) -> Parsed {
    let mut p = P::new(b);
    let _ = g(&mut p);
    p.out.total = p.pos;
    p.out
}

// ---- grammars -----------------------------------------------------------------------------------
pub fn g_vec(p: &mut P) -> PRes {
    p.vec_znx("")
}
pub fn g_scalar(p: &mut P) -> PRes {
    p.scalar_znx("")
}
pub fn g_mat(p: &mut P) -> PRes {
    p.mat_znx("")
}
pub fn g_lwe(p: &mut P) -> PRes {
    p.obj("", |p| {
        p.u32("base2k", Role::Scalar)?;
        p.vec_znx("data")
    })
}
pub fn g_glwe(p: &mut P) -> PRes {
    g_lwe(p)
}
pub fn g_gglwe(p: &mut P) -> PRes {
    p.obj("", |p| {
        p.u32("base2k", Role::Scalar)?;
        p.u32("dsize", Role::Scalar)?;
        p.mat_znx("data")
    })
}
pub fn g_ggsw(p: &mut P) -> PRes {
    g_gglwe(p)
}
pub fn g_swk(p: &mut P) -> PRes {
    p.obj("", |p| {
        p.u32("input_degree", Role::Free)?;
        p.u32("output_degree", Role::Free)?;
        p.obj("key", g_gglwe)
    })
}
pub fn g_atk(p: &mut P) -> PRes {
    p.obj("", |p| {
        p.u64("p", Role::Free)?;
        p.obj("key", g_gglwe)
    })
}
pub fn g_pk(p: &mut P) -> PRes {
    p.obj("", |p| {
        p.u64("dist", Role::Dist)?;
        p.obj("key", g_glwe)
    })
}
fn repeat(p: &mut P, count_name: &str, elem: &str, g: fn(&mut P) -> PRes) -> PRes {
    let c = p.u64(count_name, Role::Count)?;
    if c > 4096 {
        return Err(format!("container count {c} too large for the harness parser"));
    }
    for i in 0..c {
        p.obj(&format!("{elem}[{i}]"), g)?;
    }
    Ok(())
}
pub fn g_tsk(p: &mut P) -> PRes {
    p.obj("", |p| repeat(p, "len", "keys", g_gglwe))
}
pub fn g_glwe_c(p: &mut P) -> PRes {
    p.obj("", |p| {
        p.u32("base2k", Role::Scalar)?;
        p.u32("rank", Role::Scalar)?;
        p.seed32()?;
        p.vec_znx("data")
    })
}
pub fn g_lwe_c(p: &mut P) -> PRes {
    p.obj("", |p| {
        p.u32("k", Role::Scalar)?;
        p.u32("base2k", Role::Scalar)?;
        p.seed32()?;
        p.vec_znx("data")
    })
}
pub fn g_gglwe_c(p: &mut P) -> PRes {
    p.obj("", |p| {
        p.u32("k", Role::Scalar)?;
        p.u32("base2k", Role::Scalar)?;
        p.u32("dsize", Role::Scalar)?;
        p.u32("rank", Role::Scalar)?;
        p.seeds()?;
        p.mat_znx("data")
    })
}
pub fn g_ggsw_c(p: &mut P) -> PRes {
    g_gglwe_c(p)
}
pub fn g_swk_c(p: &mut P) -> PRes {
    p.obj("", |p| {
        p.u32("input_degree", Role::Free)?;
        p.u32("output_degree", Role::Free)?;
        p.obj("key", g_gglwe_c)
    })
}
pub fn g_atk_c(p: &mut P) -> PRes {
    p.obj("", |p| {
        p.u64("p", Role::Free)?;
        p.obj("key", g_gglwe_c)
    })
}
pub fn g_tsk_c(p: &mut P) -> PRes {
    p.obj("", |p| repeat(p, "len", "keys", g_gglwe_c))
}
pub fn g_brk(p: &mut P) -> PRes {
    p.obj("", |p| {
        p.u64("dist", Role::Dist)?;
        repeat(p, "len", "keys", g_ggsw)
    })
}
pub fn g_brk_c(p: &mut P) -> PRes {
    p.obj("", |p| {
        p.u64("dist", Role::Dist)?;
        repeat(p, "len", "keys", g_ggsw_c)
    })
}
pub fn g_cbt(p: &mut P) -> PRes {
    p.obj("", |p| {
        p.obj("brk", g_brk)?;
        let c = p.u64("atk_len", Role::Count)?;
        if c > 4096 {
            return Err(format!("atk count {c} too large"));
        }
        for i in 0..c {
            p.u64(&format!("atk[{i}].gal_el"), Role::GalEl)?;
            p.obj(&format!("atk[{i}]"), g_atk)?;
        }
        p.obj("tsk", g_tsk)
    })
}
pub fn g_bdd(p: &mut P) -> PRes {
    p.obj("", |p| {
        p.obj("cbt", g_cbt)?;
        let tag = p.u8("ks_glwe_tag", Role::Tag)?;
        if tag == 1 {
            p.obj("ks_glwe", g_swk)?;
        } else if tag != 0 {
            return Err(format!("option tag {tag}"));
        }
        p.obj("ks_lwe", g_swk)
    })
}
