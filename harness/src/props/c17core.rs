// C17 (scheme layer) — safe API calls never access memory outside the buffers they were given.
// The oracle is the sanitizer the binary runs under (ASan heap red zones around every operand, destination and the exact-size
// scratch window; valgrind memcheck; Miri); natively the canary guards around scratch / destinations / prepared keys and the
// read-only operand diffs are checked. Single runs with an exact-size scratch window; a bounds panic on an admissible call is
// the safe-Rust face of an out-of-bounds access. Scratch-exhaustion panics belong to C12 (c12core) and are only counted here.

pub fn run(cfg: &Cfg, rep: &mut Report) {
    let mut rng = cfg.rng(&format!("c17core-{BE_NAME}"));
    let slow = cfg!(debug_assertions) || cfg.mode == "slow";
    let nb = if cfg!(feature = "avx") { 4 } else { 2 };
    let total = cfg.budget(2_000_000, 60_000_000) / nb;
    let total = if slow { (total / 2500).max(if cfg!(debug_assertions) { 6 } else { 24 }) } else { total };
    let only = cfg.extra.get("op").cloned();
    let sched: Vec<&str> = c11core::ops_schedule()
        .into_iter()
        .filter(|o| !slow || core_ops::tiny_ok(o))
        .filter(|o| only.as_deref().map(|x| x.split(',').any(|y| y == *o)).unwrap_or(true))
        .collect();
    if sched.is_empty() {
        return;
    }
    for it in 0..total {
        let op = sched[(it as usize * 7 + rng.below(3) as usize) % sched.len()];
        let seed = rng.next_u64();
        let scratch = if slow && rng.coin() { core_ops::ScratchMode::ExactUninit } else { core_ops::ScratchMode::Exact };
        // one window in four is an arbitrary (not 64-byte aligned) user slice: the library has to re-align what it carves out of it
        let misalign = if rng.below(4) == 0 { [1usize, 8, 16, 24, 32, 40, 56, 63][rng.below(8) as usize] } else { 0 };
        if misalign != 0 {
            rep.count("misaligned_scratch_windows", 1);
        }
        let opts = core_ops::Opts { fill_seed: 0xc17, scratch, fold: slow, tiny: slow, misalign };
        let mut o = core_ops::run_case(op, seed, &opts);
        if o.setup_error.is_some() {
            rep.count("setup_panics", 1);
            continue;
        }
        if o.key.is_empty() {
            continue;
        }
        if o.panic.as_deref().map(|p| p.contains("from scratch") || p.contains("scratch.available()") || p.contains("Attempted to take")).unwrap_or(false) {
            // declared scratch too small: C12's finding; run the call under the monitor with a generous window instead
            rep.count("scratch_too_small_rerun_generous", 1);
            o = core_ops::run_case(op, seed, &core_ops::Opts { scratch: core_ops::ScratchMode::Generous, ..opts });
        }
        rep.case(op, &o.key, o.nontrivial);
        rep.sample_for_op(&format!("{BE_NAME}:{op}"), || o.desc.clone());
        rep.count("calls_under_monitor", 1);
        if let Some(s) = &o.guard_hit {
            rep.violate(op, o.desc.clone(), format!("memory outside the call's buffers modified: {s}"));
        } else if let Some(s) = &o.ro_changed {
            rep.violate(op, o.desc.clone(), format!("memory outside the call's buffers modified: {s}"));
        } else if let Some(p) = &o.panic {
            if p.contains("out of range") || p.contains("out of bounds") || p.contains(">= self.") || p.contains("index") && p.contains("len") {
                rep.violate(op, o.desc.clone(), format!("bounds panic on an admissible call: {p}"));
            } else {
                rep.count("other_panics", 1);
                if rep.notes.len() < 10 {
                    rep.notes.push(format!("non-bounds panic in {op}: {p} :: {}", o.desc.render()));
                }
            }
        }
    }
}
