// C09 — coefficient-domain ring operations match Z[X]/(X^N+1) exactly.
// Oracle: index-level ring model (crate::exact) + group-law metamorphics.

const SMALL_OPS: &[&str] = &[
    "add_into", "add_assign", "sub", "sub_assign", "sub_negate_assign", "negate", "negate_assign", "copy", "zero",
    "add_scalar_into", "add_scalar_assign", "sub_scalar", "sub_scalar_assign",
    "rotate", "rotate_assign", "mul_xp_minus_one", "mul_xp_minus_one_assign", "automorphism", "automorphism_assign",
    "switch_ring", "split_merge",
];
const BIG_OPS: &[&str] = &[
    "big_add_into", "big_add_assign", "big_add_small_into", "big_add_small_assign", "big_sub", "big_sub_assign",
    "big_sub_negate_assign", "big_sub_small_a", "big_sub_small_b", "big_sub_small_assign", "big_sub_small_negate_assign",
    "big_negate", "big_negate_assign", "big_from_small", "big_automorphism", "big_automorphism_assign",
];
const LAWS: &[&str] = &["law_rot_compose", "law_rot_2n", "law_rot_n", "law_aut_compose", "law_aut_inverse", "law_switch_updown"];

fn gen_small(rng: &mut Rng, n: usize, cols: usize, size: usize, cap: usize, bits: usize) -> VBuf {
    let cap = if cap == size && rng.below(3) == 0 { size + 1 + rng.below(2) as usize } else { cap };
    let mut v = VBuf::new(n, cols, size, cap);
    let cls = *rng.pick(&[0u8, 0, 0, 1, 2, 3]);
    let mut r2 = rng.clone();
    v.fill_with(|_, _, i| match cls {
        0 => r2.signed_bits(bits),
        1 => (1i64 << (bits - 1)) - 1,
        2 => -((1i64 << (bits - 1)) - 1),
        _ => {
            if i % 2 == 0 {
                (1i64 << (bits - 1)) - 1
            } else {
                -((1i64 << (bits - 1)) - 1)
            }
        }
    });
    *rng = r2;
    v
}

fn gen_big(rng: &mut Rng, n: usize, cols: usize, size: usize, cap: usize) -> BigBuf {
    // one buffer in three has spare capacity (size < max_size) filled with data that every operation must ignore
    let cap = if cap == size && rng.below(3) == 0 { size + 1 + rng.below(2) as usize } else { cap };
    let mut v = BigBuf::new(n, cols, size, cap);
    let bits = if BIG_BYTES == 8 { 62 } else { 120 };
    let mut r2 = rng.clone();
    v.fill_with(|_, _, _| {
        let hi = r2.signed_bits(62) as i128;
        if bits > 62 { (hi << 58) ^ (r2.next_u64() as i128 & ((1i128 << 58) - 1)) } else { hi }
    });
    *rng = r2;
    v
}

fn wrap_big(x: i128) -> i128 {
    if BIG_BYTES == 8 { x as i64 as i128 } else { x }
}

fn limb_or_zero(v: &VBuf, col: usize, j: usize) -> Vec<i64> {
    if j < v.size { v.poly(col, j).to_vec() } else { vec![0; v.n] }
}
fn big_limb_or_zero(v: &BigBuf, col: usize, j: usize) -> Vec<i128> {
    if j < v.size { v.poly(col, j) } else { vec![0; v.n] }
}

fn mxp1(a: &[i64], k: i64) -> Vec<i64> {
    let r = rotate_i64(a, k);
    r.iter().zip(a).map(|(x, y)| x.wrapping_sub(*y)).collect()
}

pub fn run(cfg: &Cfg, rep: &mut Report) {
    let mut rng = cfg.rng(&format!("c09-{BE_NAME}"));
    let total = cfg.budget(2_000_000, 80_000_000) / 4;
    let ns_small: &[usize] = &[1, 2, 4, 8, 16, 32, 64];
    let ns_large: &[usize] = &[128, 256, 1024, 4096];

    // ---- exhaustive part (independent of the seed, sharded by index): every k in [-4N,4N] and every odd g for N <= 64
    let mut idx = 0u64;
    for &n in ns_small {
        let module = new_module(n.max(1));
        for k in -(4 * n as i64)..=(4 * n as i64) {
            idx += 1;
            if idx % cfg.nshards != cfg.shard {
                continue;
            }
            for op in ["rotate", "rotate_assign", "mul_xp_minus_one", "mul_xp_minus_one_assign"] {
                one_case(&module, op, n, k, &mut rng, rep, true);
            }
            if k.rem_euclid(2) == 1 && k > 0 && k < 2 * n as i64 {
                for op in ["automorphism", "automorphism_assign", "big_automorphism", "big_automorphism_assign"] {
                    one_case(&module, op, n, k, &mut rng, rep, true);
                    one_case(&module, op, n, -k, &mut rng, rep, true);
                }
            }
        }
    }
    rep.count("exhaustive_k_and_g_for_n_le_64", 1);

    // ---- random part
    for it in 0..total {
        let n = if rng.below(10) < 8 { *rng.pick(ns_small) } else { *rng.pick(ns_large) };
        let module = new_module(n);
        let which = rng.below(10);
        let op = if which < 6 {
            *rng.pick(SMALL_OPS)
        } else if which < 9 {
            *rng.pick(BIG_OPS)
        } else {
            *rng.pick(LAWS)
        };
        let k = match rng.below(6) {
            0 => rng.i64_in(-(4 * n as i64), 4 * n as i64),
            1 => *rng.pick(&[0i64, 1, -1, n as i64, -(n as i64), 2 * n as i64, -(2 * n as i64), (n as i64) - 1, 1 << 40, -(1 << 40), i64::MAX, i64::MIN + 1]),
            _ => rng.i64_in(-(4 * n as i64), 4 * n as i64),
        };
        let _ = it;
        one_case(&module, op, n, k, &mut rng, rep, false);
    }
}

fn odd(k: i64) -> i64 {
    if k % 2 == 0 { k.wrapping_add(1) } else { k }
}

#[allow(clippy::too_many_arguments)]
fn one_case(module: &Module<BE>, op: &str, n: usize, k_in: i64, rng: &mut Rng, rep: &mut Report, from_grid: bool) {
    let rs = rng.usize_in(1, 5);
    let asz = rng.usize_in(1, 5);
    let bsz = rng.usize_in(1, 5);
    let rc = rng.usize_in(1, 3);
    let ac = rng.usize_in(1, 3);
    let bc = rng.usize_in(1, 3);
    let (rcol, acol, bcol) = (rng.usize_in(0, rc - 1), rng.usize_in(0, ac - 1), rng.usize_in(0, bc - 1));
    let rcap = rs + rng.usize_in(0, 1);
    // data-movement ops take the full i64 range (minus MIN when a negation is involved); arithmetic ops stay below 2^62
    let movement = matches!(op, "copy" | "zero" | "switch_ring" | "split_merge");
    let bits = if movement { 64 } else if matches!(op, "rotate" | "rotate_assign" | "automorphism" | "automorphism_assign" | "negate" | "negate_assign") { 63 } else { 62 };
    let k = if op.contains("automorphism") || op.starts_with("law_aut") { odd(k_in) } else { k_in };
    let desc = jo! {"backend" => BE_NAME, "op" => op, "n" => n, "k" => k, "res_size" => rs, "a_size" => asz, "b_size" => bsz,
    "res_cols" => rc, "a_cols" => ac, "b_cols" => bc, "res_col" => rcol, "a_col" => acol, "b_col" => bcol, "grid" => from_grid};
    let key = format!("{BE_NAME}|{n}|{k}|{rs}|{asz}|{bsz}|{rc}{ac}{bc}|{rcol}{acol}{bcol}");
    let nontrivial = n >= 2;

    let mut scratch = ScratchWin::new(n.max(8) * 8 * 4 + 64);
    scratch.fill(rng);

    // ---------- laws (oracle-free) ----------
    if op.starts_with("law_") {
        if n < 2 {
            return;
        }
        let a = gen_small(rng, n, 1, asz, asz, 63);
        let mut x = VBuf::new(n, 1, asz, asz);
        let mut y = VBuf::new(n, 1, asz, asz);
        let k2 = rng.i64_in(-(4 * n as i64), 4 * n as i64);
        let r = guarded(|| match op {
            "law_rot_compose" => {
                module.vec_znx_rotate(k, &mut x.view(), 0, &a.rview(), 0);
                module.vec_znx_rotate(k2, &mut y.view(), 0, &x.rview(), 0);
                module.vec_znx_rotate(k.wrapping_add(k2), &mut x.view(), 0, &a.rview(), 0);
                x.snapshot() == y.snapshot()
            }
            "law_rot_2n" => {
                module.vec_znx_rotate(2 * n as i64, &mut x.view(), 0, &a.rview(), 0);
                x.snapshot()[..] == a.snapshot()[..n * asz * 8]
            }
            "law_rot_n" => {
                module.vec_znx_rotate(n as i64, &mut x.view(), 0, &a.rview(), 0);
                module.vec_znx_negate(&mut y.view(), 0, &a.rview(), 0);
                x.snapshot() == y.snapshot()
            }
            "law_aut_compose" => {
                let (g, h) = (odd(k), odd(k2));
                module.vec_znx_automorphism(g, &mut x.view(), 0, &a.rview(), 0);
                module.vec_znx_automorphism(h, &mut y.view(), 0, &x.rview(), 0);
                module.vec_znx_automorphism(g.wrapping_mul(h), &mut x.view(), 0, &a.rview(), 0);
                x.snapshot() == y.snapshot()
            }
            "law_aut_inverse" => {
                // library's own generator convention: galois_element(gen) and galois_element_inv
                let genr = rng.i64_in(-(n as i64), n as i64);
                let g = module.galois_element(genr);
                let gi = module.galois_element_inv(g);
                module.vec_znx_automorphism(g, &mut x.view(), 0, &a.rview(), 0);
                module.vec_znx_automorphism(gi, &mut y.view(), 0, &x.rview(), 0);
                // the generator convention: galois_element(g) = sign(g) * 5^|g| mod 2N
                let want = if genr == 0 { 1 } else { (pow_mod(5, genr.unsigned_abs(), 2 * n as u64) as i64) * genr.signum() };
                y.snapshot()[..] == a.snapshot()[..n * asz * 8] && g == want
            }
            "law_switch_updown" => {
                let ratio = 1usize << rng.usize_in(1, 4);
                let mut up = VBuf::new(n * ratio, 1, asz, asz);
                module.vec_znx_switch_ring(&mut up.view(), 0, &a.rview(), 0);
                module.vec_znx_switch_ring(&mut x.view(), 0, &up.rview(), 0);
                x.snapshot()[..] == a.snapshot()[..n * asz * 8]
            }
            _ => unreachable!(),
        });
        rep.case(op, &key, nontrivial);
        match r {
            Ok(true) => {}
            Ok(false) => rep.violate(op, desc, "ring law broken".into()),
            Err(p) => rep.violate(op, desc, format!("panic: {p}")),
        }
        return;
    }

    // ---------- big-accumulator ops ----------
    if op.starts_with("big_") {
        let a = gen_big(rng, n, ac, asz, asz);
        let b = gen_big(rng, n, bc, bsz, bsz);
        let sa = gen_small(rng, n, ac, asz, asz, 62);
        let sb = gen_small(rng, n, bc, bsz, bsz, 62);
        let mut res = gen_big(rng, n, rc, rs, rcap);
        let res0 = gen_big(&mut rng.clone(), n, 1, 1, 1);
        let _ = res0;
        let pre: Vec<Vec<i128>> = (0..rs).map(|j| res.poly(rcol, j)).collect();
        let zero = vec![0i128; n];
        let al = |j: usize| big_limb_or_zero(&a, acol, j);
        let bl = |j: usize| big_limb_or_zero(&b, bcol, j);
        let sal = |j: usize| limb_or_zero(&sa, acol, j).iter().map(|x| *x as i128).collect::<Vec<_>>();
        let sbl = |j: usize| limb_or_zero(&sb, bcol, j).iter().map(|x| *x as i128).collect::<Vec<_>>();
        let comb = |x: &[i128], y: &[i128], f: &dyn Fn(i128, i128) -> i128| x.iter().zip(y).map(|(p, q)| wrap_big(f(*p, *q))).collect::<Vec<_>>();
        let add = |p: i128, q: i128| p.wrapping_add(q);
        let sub = |p: i128, q: i128| p.wrapping_sub(q);
        let mut want: Vec<Vec<i128>> = Vec::new();
        for j in 0..rs {
            let w = match op {
                "big_add_into" => comb(&al(j), &bl(j), &add),
                "big_add_assign" => comb(&pre[j], &al(j), &add),
                "big_add_small_into" => comb(&al(j), &sbl(j), &add),
                "big_add_small_assign" => comb(&pre[j], &sal(j), &add),
                "big_sub" => comb(&al(j), &bl(j), &sub),
                "big_sub_assign" => comb(&pre[j], &al(j), &sub),
                "big_sub_negate_assign" => comb(&al(j), &pre[j], &sub),
                "big_sub_small_a" => comb(&sal(j), &bl(j), &sub),
                "big_sub_small_b" => comb(&al(j), &sbl(j), &sub),
                "big_sub_small_assign" => comb(&pre[j], &sal(j), &sub),
                "big_sub_small_negate_assign" => comb(&sal(j), &pre[j], &sub),
                "big_negate" => comb(&zero, &al(j), &sub),
                "big_negate_assign" => comb(&zero, &pre[j], &sub),
                "big_from_small" => sal(j),
                "big_automorphism" => automorphism_i128(&al(j), k).iter().map(|x| wrap_big(*x)).collect(),
                "big_automorphism_assign" => automorphism_i128(&pre[j], k).iter().map(|x| wrap_big(*x)).collect(),
                _ => unreachable!(),
            };
            want.push(w);
        }
        if n == 1 && op.contains("automorphism") {
            return;
        }
        let r = guarded(|| match op {
            "big_add_into" => module.vec_znx_big_add_into(&mut res.view(), rcol, &a.rview(), acol, &b.rview(), bcol),
            "big_add_assign" => module.vec_znx_big_add_assign(&mut res.view(), rcol, &a.rview(), acol),
            "big_add_small_into" => module.vec_znx_big_add_small_into(&mut res.view(), rcol, &a.rview(), acol, &sb.rview(), bcol),
            "big_add_small_assign" => module.vec_znx_big_add_small_assign(&mut res.view(), rcol, &sa.rview(), acol),
            "big_sub" => module.vec_znx_big_sub(&mut res.view(), rcol, &a.rview(), acol, &b.rview(), bcol),
            "big_sub_assign" => module.vec_znx_big_sub_assign(&mut res.view(), rcol, &a.rview(), acol),
            "big_sub_negate_assign" => module.vec_znx_big_sub_negate_assign(&mut res.view(), rcol, &a.rview(), acol),
            "big_sub_small_a" => module.vec_znx_big_sub_small_a(&mut res.view(), rcol, &sa.rview(), acol, &b.rview(), bcol),
            "big_sub_small_b" => module.vec_znx_big_sub_small_b(&mut res.view(), rcol, &a.rview(), acol, &sb.rview(), bcol),
            "big_sub_small_assign" => module.vec_znx_big_sub_small_assign(&mut res.view(), rcol, &sa.rview(), acol),
            "big_sub_small_negate_assign" => module.vec_znx_big_sub_small_negate_assign(&mut res.view(), rcol, &sa.rview(), acol),
            "big_negate" => module.vec_znx_big_negate(&mut res.view(), rcol, &a.rview(), acol),
            "big_negate_assign" => module.vec_znx_big_negate_assign(&mut res.view(), rcol),
            "big_from_small" => module.vec_znx_big_from_small(&mut res.view(), rcol, &sa.rview(), acol),
            "big_automorphism" => module.vec_znx_big_automorphism(k, &mut res.view(), rcol, &a.rview(), acol),
            "big_automorphism_assign" => module.vec_znx_big_automorphism_assign(k, &mut res.view(), rcol, scratch.scratch()),
            _ => unreachable!(),
        });
        rep.case(op, &key, nontrivial);
        rep.sample_for_op(&format!("{BE_NAME}:{op}"), || desc.clone());
        if let Err(p) = r {
            rep.violate(op, desc, format!("panic: {p}"));
            return;
        }
        for j in 0..rs {
            let got = res.poly(rcol, j);
            if got != want[j] {
                let i = (0..n).find(|i| got[*i] != want[j][*i]).unwrap();
                rep.violate(op, desc, format!("limb {j} coeff {i}: got {} want {}", got[i], want[j][i]));
                return;
            }
        }
        return;
    }

    // ---------- small-vector ops ----------
    if n == 1 && (op.contains("automorphism") || op == "split_merge") {
        return;
    }
    let a = gen_small(rng, n, ac, asz, asz, bits);
    let b = gen_small(rng, n, bc, bsz, bsz, bits);
    let mut res = gen_small(rng, n, rc, rs, rcap, bits);
    let sc = gen_small(rng, n, ac, 1, 1, bits); // scalar operand (ScalarZnx view: cols x n)
    let pre: Vec<Vec<i64>> = (0..rs).map(|j| res.poly(rcol, j).to_vec()).collect();
    let limb = rng.usize_in(0, rs.min(bsz) - 1);
    let al = |j: usize| limb_or_zero(&a, acol, j);
    let bl = |j: usize| limb_or_zero(&b, bcol, j);
    let comb = |x: &[i64], y: &[i64], f: &dyn Fn(i64, i64) -> i64| x.iter().zip(y).map(|(p, q)| f(*p, *q)).collect::<Vec<_>>();
    let add = |p: i64, q: i64| p.wrapping_add(q);
    let sub = |p: i64, q: i64| p.wrapping_sub(q);
    let zero = vec![0i64; n];
    let scal = sc.poly(acol, 0).to_vec();

    if op == "switch_ring" {
        let ratio = 1usize << rng.usize_in(0, 4);
        let up = rng.coin();
        let (n_in, n_out) = if up { (n, n * ratio) } else { (n * ratio, n) };
        let src = gen_small(rng, n_in, ac, asz, asz, 64);
        let mut dst = gen_small(rng, n_out, rc, rs, rcap, 64);
        let r = guarded(|| module.vec_znx_switch_ring(&mut dst.view(), rcol, &src.rview(), acol));
        let key = format!("{key}|{n_in}->{n_out}");
        rep.case(op, &key, true);
        if let Err(p) = r {
            rep.violate(op, desc, format!("panic: {p} (n_in={n_in}, n_out={n_out})"));
            return;
        }
        for j in 0..rs {
            let s = limb_or_zero(&src, acol, j);
            let mut w = vec![0i64; n_out];
            if n_in >= n_out {
                let gap = n_in / n_out;
                for i in 0..n_out {
                    w[i] = s[i * gap];
                }
            } else {
                let gap = n_out / n_in;
                for i in 0..n_in {
                    w[i * gap] = s[i];
                }
            }
            if dst.poly(rcol, j) != &w[..] {
                rep.violate(op, desc, format!("limb {j} mismatch (n_in={n_in}, n_out={n_out})"));
                return;
            }
        }
        return;
    }
    if op == "split_merge" {
        // split a ring of degree n into `ratio` rings of degree n/ratio; check against the index model; merge back
        let max_log = (n.trailing_zeros() as usize).min(4);
        if max_log == 0 {
            return;
        }
        let ratio = 1usize << rng.usize_in(1, max_log);
        let m = n / ratio;
        let mut parts: Vec<VBuf> = (0..ratio).map(|_| gen_small(rng, m, rc, rs, rs, 64)).collect();
        let r = guarded(|| {
            let mut views: Vec<VecZnx<&mut [u8]>> = parts.iter_mut().map(|p| p.view()).collect();
            module.vec_znx_split_ring(&mut views, rcol, &a.rview(), acol, scratch.scratch());
        });
        let key = format!("{key}|split{ratio}");
        rep.case(op, &key, true);
        if let Err(p) = r {
            rep.violate(op, desc, format!("panic in split: {p} ratio={ratio}"));
            return;
        }
        for (t, p) in parts.iter().enumerate() {
            for j in 0..rs {
                let s = al(j);
                let w: Vec<i64> = (0..m).map(|i| s[i * ratio + t]).collect();
                if p.poly(rcol, j) != &w[..] {
                    rep.violate(op, desc, format!("split part {t} limb {j} != coefficients congruent to {t} mod {ratio}"));
                    return;
                }
            }
        }
        // merge(split(x)) == x on the limbs both carry
        let mut back = gen_small(rng, n, rc, rs, rcap, 64);
        let r = guarded(|| {
            let views: Vec<VecZnx<&[u8]>> = parts.iter().map(|p| p.rview()).collect();
            module.vec_znx_merge_rings(&mut back.view(), rcol, &views, rcol, scratch.scratch());
        });
        if let Err(p) = r {
            rep.violate(op, desc, format!("panic in merge: {p} ratio={ratio}"));
            return;
        }
        for j in 0..rs {
            if back.poly(rcol, j) != &al(j)[..] {
                rep.violate(op, desc, format!("merge(split(x)) != x at limb {j}, ratio={ratio}"));
                return;
            }
        }
        // merge of parts with unequal limb counts: a limb a part does not have counts as zero
        let uparts: Vec<VBuf> = (0..ratio).map(|_| { let ps = rng.usize_in(1, 5); gen_small(rng, m, 1, ps, ps, 63) }).collect();
        let mut merged = gen_small(rng, n, rc, rs, rcap, 64);
        let r = guarded(|| {
            let views: Vec<VecZnx<&[u8]>> = uparts.iter().map(|p| p.rview()).collect();
            module.vec_znx_merge_rings(&mut merged.view(), rcol, &views, 0, scratch.scratch());
        });
        rep.case("merge_unequal", &format!("{key}|{:?}", uparts.iter().map(|p| p.size).collect::<Vec<_>>()), true);
        if let Err(p) = r {
            rep.violate("merge_unequal", desc, format!("panic: {p}"));
            return;
        }
        for j in 0..rs {
            let mut want = vec![0i64; n];
            for (t, p) in uparts.iter().enumerate() {
                if j < p.size {
                    for i in 0..m {
                        want[i * ratio + t] = p.poly(0, j)[i];
                    }
                }
            }
            if merged.poly(rcol, j) != &want[..] {
                rep.violate("merge_unequal", desc, format!("merge of parts with sizes {:?}: limb {j} is not the interleaving of the parts' limbs", uparts.iter().map(|p| p.size).collect::<Vec<_>>()));
                return;
            }
        }
        return;
    }

    let mut want: Vec<Vec<i64>> = Vec::new();
    for j in 0..rs {
        let w = match op {
            "add_into" => comb(&al(j), &bl(j), &add),
            "add_assign" => comb(&pre[j], &al(j), &add),
            "sub" => comb(&al(j), &bl(j), &sub),
            "sub_assign" => comb(&pre[j], &al(j), &sub),
            "sub_negate_assign" => comb(&al(j), &pre[j], &sub),
            "negate" => comb(&zero, &al(j), &sub),
            "negate_assign" => comb(&zero, &pre[j], &sub),
            "copy" => al(j),
            "zero" => zero.clone(),
            "add_scalar_into" => if j == limb { comb(&bl(j), &scal, &add) } else { bl(j) },
            "sub_scalar" => if j == limb { comb(&bl(j), &scal, &sub) } else { bl(j) },
            "add_scalar_assign" => if j == limb { comb(&pre[j], &scal, &add) } else { pre[j].clone() },
            "sub_scalar_assign" => if j == limb { comb(&pre[j], &scal, &sub) } else { pre[j].clone() },
            "rotate" => rotate_i64(&al(j), k),
            "rotate_assign" => rotate_i64(&pre[j], k),
            "mul_xp_minus_one" => mxp1(&al(j), k),
            "mul_xp_minus_one_assign" => mxp1(&pre[j], k),
            "automorphism" => automorphism_i64(&al(j), k),
            "automorphism_assign" => automorphism_i64(&pre[j], k),
            _ => unreachable!("{op}"),
        };
        want.push(w);
    }
    let scalar = ScalarZnx { data: sc.g.bytes(), n, cols: ac };
    let r = guarded(|| match op {
        "add_into" => module.vec_znx_add_into(&mut res.view(), rcol, &a.rview(), acol, &b.rview(), bcol),
        "add_assign" => module.vec_znx_add_assign(&mut res.view(), rcol, &a.rview(), acol),
        "sub" => module.vec_znx_sub(&mut res.view(), rcol, &a.rview(), acol, &b.rview(), bcol),
        "sub_assign" => module.vec_znx_sub_assign(&mut res.view(), rcol, &a.rview(), acol),
        "sub_negate_assign" => module.vec_znx_sub_negate_assign(&mut res.view(), rcol, &a.rview(), acol),
        "negate" => module.vec_znx_negate(&mut res.view(), rcol, &a.rview(), acol),
        "negate_assign" => module.vec_znx_negate_assign(&mut res.view(), rcol),
        "copy" => module.vec_znx_copy(&mut res.view(), rcol, &a.rview(), acol),
        "zero" => module.vec_znx_zero(&mut res.view(), rcol),
        "add_scalar_into" => module.vec_znx_add_scalar_into(&mut res.view(), rcol, &scalar, acol, &b.rview(), bcol, limb),
        "sub_scalar" => module.vec_znx_sub_scalar(&mut res.view(), rcol, &scalar, acol, &b.rview(), bcol, limb),
        "add_scalar_assign" => module.vec_znx_add_scalar_assign(&mut res.view(), rcol, limb, &scalar, acol),
        "sub_scalar_assign" => module.vec_znx_sub_scalar_assign(&mut res.view(), rcol, limb, &scalar, acol),
        "rotate" => module.vec_znx_rotate(k, &mut res.view(), rcol, &a.rview(), acol),
        "rotate_assign" => module.vec_znx_rotate_assign(k, &mut res.view(), rcol, scratch.scratch()),
        "mul_xp_minus_one" => module.vec_znx_mul_xp_minus_one(k, &mut res.view(), rcol, &a.rview(), acol),
        "mul_xp_minus_one_assign" => module.vec_znx_mul_xp_minus_one_assign(k, &mut res.view(), rcol, scratch.scratch()),
        "automorphism" => module.vec_znx_automorphism(k, &mut res.view(), rcol, &a.rview(), acol),
        "automorphism_assign" => module.vec_znx_automorphism_assign(k, &mut res.view(), rcol, scratch.scratch()),
        _ => unreachable!(),
    });
    rep.case(op, &key, nontrivial);
    rep.sample_for_op(&format!("{BE_NAME}:{op}"), || desc.clone());
    if let Err(p) = r {
        rep.violate(op, desc, format!("panic: {p}"));
        return;
    }
    for j in 0..rs {
        let got = res.poly(rcol, j);
        if got != &want[j][..] {
            let i = (0..n).find(|i| got[*i] != want[j][*i]).unwrap();
            rep.violate(op, desc, format!("limb {j} coeff {i}: got {} want {}", got[i], want[j][i]));
            return;
        }
    }
    if !a.g.guards_intact() || !b.g.guards_intact() || !res.g.guards_intact() {
        rep.violate(op, desc, "guard bytes modified".into());
    }
}
