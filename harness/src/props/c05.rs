// C05 — ciphertext multiplication (tensor, relinearise, plain, constant) scales right.
//
// Oracle. All four multiplications are deterministic functions of their operands, so the reference is an exact identity
// in big integers (no noise model): with A_c the integer value of column c of `a` (limbs masked to a_effective_k),
// P_a = A_0 + sum_i A_i * s_{i-1} the UN-reduced integer phase (scale 2^{Wa}), and likewise P_b (or the plaintext /
// constant B itself),
//
//      phase(result)  ==  P_a * P_b * 2^{cnv_offset - Wa - Wb}   (mod 1)
//
// where the result is decrypted with (1, s, s (x) s) for tensors. The only admissible deviations are (i) the final
// normalisation into the result (ROUND_UNITS units of its last limb per column), (ii) for the operations that keep only
// part of the bivariate product (tensor_*: as many product limbs as the result's precision needs; mul_const_assign: as many
// limbs as the result has) the exactly computable bound on the dropped limbs. Both are multiplied by the 1-norm of the
// secret polynomial that the column is decrypted with. Relinearisation is a key-switch of the s_i*s_j columns: it is checked
// against the exact tensor phase with the hard gadget bound of c0405_common.rs (tensor-key errors measured exactly).
// Positions are pinned by plaintexts with a single non-zero bit: a slip by one limb or one bit is an error of >= half
// the signal, many orders of magnitude above the tolerance.

fn glwe_layout(n: usize, b: usize, k: usize, rank: usize) -> GLWELayout {
    GLWELayout { n: Degree(n as u32), base2k: Base2K(b as u32), k: TorusPrecision(k as u32), rank: Rank(rank as u32) }
}

fn pick_k(rng: &mut Rng, b: usize, size: usize) -> usize {
    let slack = match rng.below(4) {
        0 => 0,
        1 => b - 1,
        _ => rng.below(b as u64) as usize,
    };
    (size * b - slack).max(1)
}

struct Sources {
    xa: Source,
    xe: Source,
}

fn sources(rng: &mut Rng) -> Sources {
    Sources { xa: Source::new(rng.seed32()), xe: Source::new(rng.seed32()) }
}

fn enc_glwe(module: &Module<BE>, lay: &GLWELayout, pt_cls: usize, sk: &Sk, rng: &mut Rng, rep: &mut Report, desc: &J) -> Result<GLWE<Vec<u8>>, String> {
    let mut pt: GLWEPlaintext<Vec<u8>> = GLWEPlaintext::alloc_from_infos(lay);
    fill_pt(&mut pt, pt_cls, lay.k.0 as usize, rng);
    let mut ct: GLWE<Vec<u8>> = GLWE::alloc_from_infos(lay);
    let enc = EncryptionLayout::new_from_default_sigma(*lay).map_err(|e| format!("EncryptionLayout: {e}"))?;
    let mut src = sources(rng);
    let need = module.glwe_encrypt_sk_tmp_bytes(lay);
    with_scratch(rep, "glwe_encrypt_sk", desc, need, rng, |s| module.glwe_encrypt_sk(&mut ct, &pt, &sk.prep, &enc, &mut src.xe, &mut src.xa, s))?;
    Ok(ct)
}

fn make_glwe(module: &Module<BE>, lay: &GLWELayout, cls: usize, sk: &Sk, rng: &mut Rng, rep: &mut Report, desc: &J) -> Result<GLWE<Vec<u8>>, String> {
    if cls < 6 {
        enc_glwe(module, lay, cls, sk, rng, rep, desc)
    } else {
        let mut ct: GLWE<Vec<u8>> = GLWE::alloc_from_infos(lay);
        craft_glwe(&mut ct, cls - 6, rng);
        Ok(ct)
    }
}

fn in_class_name(cls: usize) -> String {
    if cls < 6 { format!("enc_{}", PT_CLASSES[cls]) } else { format!("crafted_{}", ["allminneg", "allmaxpos", "alternate", "uniform"][cls - 6]) }
}

// ---------------------------------------------------------------------------------------------
// verdict helpers
// ---------------------------------------------------------------------------------------------
fn judge(rep: &mut Report, op: &str, desc: &J, key: &str, err: f64, bound: f64, nontrivial: bool, class: &str, what: &str) {
    judge_cal(rep, op, desc, key, err, bound, nontrivial, true, class, what)
}

/// `calibrate = false`: judged like any other case, but kept out of the calibration maxima (regions of known defects)
#[allow(clippy::too_many_arguments)]
fn judge_cal(rep: &mut Report, op: &str, desc: &J, key: &str, err: f64, bound: f64, nontrivial: bool, calibrate: bool, class: &str, what: &str) {
    rep.case(op, key, nontrivial);
    rep.sample_for_op(op, || desc.clone());
    let bound = bound * (1.0 + 1e-6);
    let ratio = if bound > 0.0 { err / bound } else if err == 0.0 { 0.0 } else { f64::INFINITY };
    if nontrivial && calibrate && ratio < 1.0 {
        // calibration numbers of the region of known defect F13 are kept apart (small excesses show up there)
        let name = if class == "cross_radix_negative_offset" { format!("ratio_f13_region:{op}") } else { format!("ratio:{op}") };
        rep.maxf(&name, ratio);
        if class != "cross_radix_negative_offset" {
            note_worst(op, ratio, desc, err, bound);
        }
    }
    if !(ratio < 1.0) {
        let mut d = desc.clone();
        d.put("class", class);
        d.put("err_log2", err.log2());
        d.put("bound_log2", bound.log2());
        rep.violate(op, d, format!("{what}: |error| = 2^{:.2} exceeds the bound 2^{:.2} (ratio {:.3e})", err.log2(), bound.log2(), ratio));
    }
}

fn panic_violation(rep: &mut Report, op: &str, desc: &J, key: &str, p: &str) {
    rep.case(op, key, true);
    let mut d = desc.clone();
    d.put("class", "panic");
    rep.violate(op, d, format!("panic: {p}"));
}

fn exact_violation(rep: &mut Report, op: &str, desc: &J, class: &str, detail: String) {
    let mut d = desc.clone();
    d.put("class", class);
    rep.violate(op, d, detail);
}

// ---------------------------------------------------------------------------------------------
// offset bookkeeping (Appendix A): cnv_offset is in bits
// ---------------------------------------------------------------------------------------------
fn split_offset(cnv: usize, b: usize) -> (usize, i64) {
    if cnv < b { (0, -((b - cnv % b) as i64)) } else { ((cnv / b).saturating_sub(1), (cnv % b) as i64) }
}

/// every limb multiple up to (a_size+b_size)*b and the intra-limb remainders 1, b/2, b-1
fn offsets(a_size: usize, b_size: usize, b: usize) -> Vec<usize> {
    let max = (a_size + b_size) * b;
    let mut v = Vec::new();
    for q in 0..=(a_size + b_size) {
        for r in [0usize, 1, b / 2, b - 1] {
            let o = q * b + r;
            if o <= max && r < b {
                v.push(o);
            }
        }
    }
    v.sort_unstable();
    v.dedup();
    v
}

/// Bound (torus fraction) on what is lost per output column when only the first `kept` limbs of the bivariate product are
/// computed: limb r of the product (after the limb offset `hi`) is sum_{i+j = r+hi} a_i*b_j, weight 2^{-(r+1) b}, then
/// scaled by 2^{lo}. `nfac` = ring degree for polynomial operands, 1 for a constant; `mag` = product of the operand digit
/// bounds in units of 2^{b-1} (1 for plain operands, 4 for the pairwise (a_i+a_j)(b_i+b_j) term).
fn dropped_bound(a_size: usize, b_size: usize, hi: usize, lo: i64, kept: usize, b: usize, nfac: usize, mag: f64) -> f64 {
    let mut acc = 0f64;
    if a_size + b_size < 2 + hi {
        return 0.0;
    }
    let last = a_size + b_size - 2 - hi; // largest product limb index that has terms
    let mut r = kept;
    while r <= last {
        let t = (0..a_size).filter(|i| r + hi >= *i && r + hi - i < b_size).count();
        acc += TAIL_MARGIN * t as f64 * nfac as f64 * mag * pow2f(2 * b as i64 - 2) * pow2f(-(((r + 1) * b) as i64) + lo);
        r += 1;
    }
    acc
}

/// limbs of the product the tensor operations keep: enough to cover the result's precision after the intra-limb shift
fn tensor_kept(full: usize, res_size: usize, res_b: usize, in_b: usize, lo: i64) -> usize {
    let mut off = lo % in_b as i64;
    if lo < 0 && off != 0 {
        off += in_b as i64;
    }
    full.min((res_size * res_b + off as usize).div_ceil(in_b))
}

/// expected torus value (scaled 2^w, centred) of prod * 2^{cnv - wa - wb}; requires w >= wa + wb
fn place(prod: &[Big], cnv: usize, wa: usize, wb: usize, w: usize) -> Vec<Big> {
    let sh = cnv + w - wa - wb;
    prod.iter().map(|x| centre(&(x << sh), w)).collect()
}

/// sigma_i * sigma_j for the tensor columns, index col_i + j with col_i = i*cols - i(i+1)/2, 0 <= i <= j <= rank
fn tensor_sigmas(sk: &Sk) -> Vec<Vec<i64>> {
    let cols = sk.rank + 1;
    let mut v = Vec::new();
    for i in 0..cols {
        for j in i..cols {
            v.push(neg_small(&sk.sigma(i), &sk.sigma(j)));
        }
    }
    v
}

/// exact phase of a GLWE tensor under (1, s, s (x) s), scaled 2^w, centred
fn tensor_phase(t: &GLWETensor<Vec<u8>>, sigmas: &[Vec<i64>], w: usize) -> Vec<Big> {
    let d = t.data();
    let dr: VecZnx<&[u8]> = d.to_ref();
    let b = t.base2k().0 as usize;
    let n = d.n();
    let mut acc = vec![Big::from(0); n];
    for (c, sg) in sigmas.iter().enumerate() {
        let col = col_big(&dr, c, b, w);
        let p = negacyclic_mul_big_small(&col, sg);
        for (a, x) in acc.iter_mut().zip(p) {
            *a += x;
        }
    }
    poly_centre(&acc, w)
}

struct Operand {
    ct: GLWE<Vec<u8>>,
    k: usize,
    size: usize,
    /// un-reduced integer phase of the masked operand, scale 2^{size*b}
    p: Vec<Big>,
    cls: usize,
}

fn make_operand(module: &Module<BE>, n: usize, b: usize, rank: usize, sk: &Sk, rng: &mut Rng, rep: &mut Report, desc: &J) -> Result<Operand, String> {
    let size = rng.usize_in(1, 4);
    let k = pick_k(rng, b, size);
    let cls = rng.below(10) as usize;
    let lay = glwe_layout(n, b, k, rank);
    let ct = make_glwe(module, &lay, cls, sk, rng, rep, desc)?;
    let p = masked_phase(&ct, k, sk);
    Ok(Operand { ct, k, size, p, cls })
}

fn masked_phase(ct: &GLWE<Vec<u8>>, k: usize, sk: &Sk) -> Vec<Big> {
    let b = ct.base2k().0 as usize;
    let dr: VecZnx<&[u8]> = ct.data().to_ref();
    let w = dr.size() * b;
    let cols: Vec<Vec<Big>> = (0..=sk.rank).map(|c| col_big_masked(&dr, c, b, w, k)).collect();
    phase_unreduced(&cols, &sk.s)
}

fn unmasked_phase(ct: &GLWE<Vec<u8>>, sk: &Sk) -> Vec<Big> {
    let b = ct.base2k().0 as usize;
    let dr: VecZnx<&[u8]> = ct.data().to_ref();
    let w = dr.size() * b;
    let cols: Vec<Vec<Big>> = (0..=sk.rank).map(|c| col_big(&dr, c, b, w)).collect();
    phase_unreduced(&cols, &sk.s)
}

fn pick_res_radix(rng: &mut Rng, b: usize) -> usize {
    let cap = if IS_FFT64 { 26 } else { 52 };
    match rng.below(5) {
        0 | 1 | 2 => b,
        3 => (b + 1 + rng.below(3) as usize).min(cap.max(b)),
        _ => b.saturating_sub(1 + rng.below(3) as usize).max(3),
    }
}

fn radix_class(res_b: usize, b: usize, cnv: usize) -> &'static str {
    // the region of known defect F13: the intra-limb offset is negative and goes through the cross-radix normaliser
    if res_b != b && cnv < b { "cross_radix_negative_offset" } else { "product_misplaced_or_wrong" }
}

// ---------------------------------------------------------------------------------------------
// one context: a secret, two ciphertext operands, a plaintext, a constant; every offset
// ---------------------------------------------------------------------------------------------
fn run_ctx(module: &Module<BE>, n: usize, it: u64, rng: &mut Rng, rep: &mut Report) {
    let rank = if rng.below(8) == 0 { 3 } else { rng.usize_in(1, 2) };
    let cap = if IS_FFT64 { 24 } else { 52 };
    // 4 accumulated limb products, operands one bit wider in the pairwise term
    let hi_b = max_base2k(n, 4, 2, cap);
    let b = match rng.below(5) {
        0 => hi_b,
        1 => hi_b - 1,
        2 => rng.usize_in(4, 8).min(hi_b),
        _ => rng.usize_in(4, hi_b),
    };
    let dist = rng.below(4) as usize;
    let sk_seed = rng.next_u64();
    let sk = gen_sk(module, n, rank, dist, sk_seed);
    let mut desc = jo! {"backend" => BE_NAME, "n" => n, "rank" => rank, "sk_dist" => DISTS[dist], "sk_seed" => sk_seed, "base2k" => b};
    let a = match make_operand(module, n, b, rank, &sk, rng, rep, &desc) {
        Ok(a) => a,
        Err(p) => return panic_violation(rep, "glwe_encrypt_sk", &desc, "", &p),
    };
    desc.put("a_k", a.k);
    desc.put("a_class", in_class_name(a.cls));
    let key = format!("{BE_NAME}|{n}|{rank}|{dist}|{b}|{}|{}", a.k, a.cls);
    match it % 7 {
        0 | 3 => ctx_mul_plain(module, n, b, &sk, &a, rng, rep, &desc, &key),
        1 | 4 => ctx_mul_const(module, n, b, &sk, &a, rng, rep, &desc, &key),
        2 | 5 => ctx_tensor(module, n, b, &sk, &a, rng, rep, &desc, &key),
        _ => ctx_messages(module, n, b, &sk, rng, rep),
    }
}

// ---------------------------------------------------------------------------------------------
// message level (the literal statement): fresh encryptions of small messages mu_a, mu_b placed at 2^-sa, 2^-sb;
// tensor + relinearise with cnv_offset in [max(sa, sb), sa + sb]; the result must decrypt to mu_a*mu_b*2^{cnv-sa-sb}
// within the hard noise bound N*2^cnv*((|M_a| + |K_a|)|E_b| + (|M_b| + |K_b|)|E_a| + |E_a||E_b|) + column bounds + key-switch bound,
// where E is the fresh error plus the bits masked off below k, K the integer overflow of the un-reduced phase (<= (1+||s||_1)/2 + 1).
// ---------------------------------------------------------------------------------------------
fn encode_msg(n: usize, b: usize, k: usize, scale: usize, mu: &[i64]) -> GLWEPlaintext<Vec<u8>> {
    // torus value mu * 2^-scale written in normalised limbs
    let mut pt: GLWEPlaintext<Vec<u8>> = GLWEPlaintext::alloc(Degree(n as u32), Base2K(b as u32), TorusPrecision(k as u32));
    let size = k.div_ceil(b);
    let w = size * b;
    assert!(scale <= w);
    for i in 0..n {
        // integer mu * 2^(w - scale), balanced digits from the least significant limb
        let mut v: i128 = (mu[i] as i128) << (w - scale);
        for j in (0..size).rev() {
            let mut d = v & ((1i128 << b) - 1);
            if d >= 1i128 << (b - 1) {
                d -= 1i128 << b;
            }
            pt.data_mut().at_mut(0, j)[i] = d as i64;
            v = (v - d) >> b;
        }
    }
    pt
}

fn ctx_messages(module: &Module<BE>, n: usize, b: usize, sk: &Sk, rng: &mut Rng, rep: &mut Report) {
    let rank = sk.rank;
    let cols = rank + 1;
    let pairs = rank * (rank + 1) / 2;
    // keep every quantity inside 120 bits so that the encoder above can use i128
    let size = rng.usize_in(3, 4).min(110 / b).max(2);
    let k = size * b - rng.below(b as u64) as usize;
    let (sa, sb) = (rng.usize_in(3, b + 2), rng.usize_in(3, b + 2));
    let mu_a: Vec<i64> = (0..n).map(|_| rng.i64_in(-4, 3)).collect();
    let mu_b: Vec<i64> = (0..n).map(|_| rng.i64_in(-4, 3)).collect();
    let lay = glwe_layout(n, b, k, rank);
    let desc = jo! {"backend" => BE_NAME, "n" => n, "rank" => rank, "base2k" => b, "k" => k, "scale_a" => sa, "scale_b" => sb, "kind" => "message_level"};
    let key0 = format!("{BE_NAME}|msg|{n}|{rank}|{b}|{k}|{sa}|{sb}");
    let mut cts = Vec::new();
    for (mu, sc) in [(&mu_a, sa), (&mu_b, sb)] {
        let pt = encode_msg(n, b, k, sc, mu);
        let mut ct: GLWE<Vec<u8>> = GLWE::alloc_from_infos(&lay);
        let Ok(enc) = EncryptionLayout::new_from_default_sigma(lay) else { return };
        let mut src = sources(rng);
        let need = module.glwe_encrypt_sk_tmp_bytes(&lay);
        if let Err(p) = with_scratch(rep, "glwe_encrypt_sk", &desc, need, rng, |s| module.glwe_encrypt_sk(&mut ct, &pt, &sk.prep, &enc, &mut src.xe, &mut src.xa, s)) {
            return panic_violation(rep, "glwe_encrypt_sk", &desc, &key0, &p);
        }
        cts.push(ct);
    }
    // tensor key: same radix, dsize 1, enough rows for the tensor
    let t_size = size + 1;
    let t_lay = glwe_layout(n, b, t_size * b, rank);
    let k_dnum = t_size;
    let k_size = k_dnum + 1;
    let k_lay = GLWETensorKeyLayout { n: Degree(n as u32), base2k: Base2K(b as u32), k: TorusPrecision((k_size * b) as u32), rank: Rank(rank as u32), dnum: Dnum(k_dnum as u32), dsize: Dsize(1) };
    if !product_exact(n, pairs * k_dnum, b + 2, b) {
        return;
    }
    let mut tsk: GLWETensorKey<Vec<u8>> = GLWETensorKey::alloc_from_infos(&k_lay);
    let Ok(enc) = EncryptionLayout::new_from_default_sigma(k_lay) else { return };
    let mut src = sources(rng);
    let need = module.glwe_tensor_key_encrypt_sk_tmp_bytes(&k_lay);
    if let Err(p) = with_scratch(rep, "glwe_tensor_key_encrypt_sk", &desc, need, rng, |s| module.glwe_tensor_key_encrypt_sk(&mut tsk, &sk.sk, &enc, &mut src.xe, &mut src.xa, s)) {
        return panic_violation(rep, "glwe_tensor_key_encrypt_sk", &desc, &key0, &p);
    }
    let pair_pts: Vec<Vec<i64>> = (0..rank).flat_map(|i| (i..rank).map(move |j| (i, j))).map(|(i, j)| neg_small(&sk.s[i], &sk.s[j])).collect();
    let k_noise = gglwe_cell_noise(&tsk, &pair_pts, sk);
    let mut tsk_prep: GLWETensorKeyPrepared<DeviceBuf<BE>, BE> = module.alloc_tensor_key_prepared_from_infos(&k_lay);
    let need = module.prepare_tensor_key_tmp_bytes(&k_lay);
    if let Err(p) = with_scratch(rep, "prepare_tensor_key", &desc, need, rng, |s| module.prepare_tensor_key(&mut tsk_prep, &tsk, s)) {
        return panic_violation(rep, "prepare_tensor_key", &desc, &key0, &p);
    }
    let sigmas = tensor_sigmas(sk);
    let sig_l1: Vec<f64> = sigmas.iter().map(|s| l1_small(s)).collect();
    let out_l1 = 1.0 + sk.l1_sum();
    let prod_mu = neg_small(&mu_a, &mu_b);
    let w = 2 * t_size * b + 8;
    let e_in = fresh_bound(k, b) + out_l1 * pow2f(-(k as i64)); // fresh error + what the effective-precision mask removes
    let kmax = out_l1 / 2.0 + 1.0;
    let (ma, mb) = (4.0 * pow2f(-(sa as i64)), 4.0 * pow2f(-(sb as i64)));
    for cnv in sa.max(sb)..=(sa + sb) {
        let op = "message_level_tensor_relinearize";
        let mut d = desc.clone();
        d.put("cnv_offset", cnv);
        let key = format!("{key0}|{cnv}");
        let mut t: GLWETensor<Vec<u8>> = GLWETensor::alloc_from_infos(&t_lay);
        let need = module.glwe_tensor_apply_tmp_bytes(&t_lay, &lay, &lay);
        if let Err(p) = with_scratch(rep, "glwe_tensor_apply", &d, need, rng, |s| module.glwe_tensor_apply(cnv, &mut t, &cts[0], k, &cts[1], k, s)) {
            panic_violation(rep, "glwe_tensor_apply", &d, &key, &p);
            continue;
        }
        let mut rl: GLWE<Vec<u8>> = GLWE::alloc_from_infos(&t_lay);
        let need = module.glwe_tensor_relinearize_tmp_bytes(&t_lay, &t_lay, &k_lay);
        let size_arg = tsk_prep.size();
        if let Err(p) = with_scratch(rep, "glwe_tensor_relinearize", &d, need, rng, |s| module.glwe_tensor_relinearize(&mut rl, &t, &tsk_prep, size_arg, s)) {
            panic_violation(rep, "glwe_tensor_relinearize", &d, &key, &p);
            continue;
        }
        // expected plaintext: mu_a*mu_b at 2^{cnv - sa - sb}
        let want: Vec<Big> = prod_mu.iter().map(|x| centre(&(Big::from(*x) << (w + cnv - sa - sb)), w)).collect();
        let have = glwe_phase(&rl, sk, w);
        let err = inf_torus(&diff_centre(&have, &want, w), w);
        let cross = n as f64 * pow2f(cnv as i64) * ((ma + kmax) * e_in + (mb + kmax) * e_in + e_in * e_in);
        let (hi, lo) = split_offset(cnv, b);
        let kept = tensor_kept(2 * size - hi, t_size, b, b, lo);
        let d1 = dropped_bound(size, size, hi, lo, kept, b, n, 1.0);
        let mut colb = 0.0;
        let mut c = 0;
        for i in 0..cols {
            for j in i..cols {
                colb += sig_l1[c] * if i == j { d1 + ROUND_UNITS * ulp(t_size * b) } else { 6.0 * d1 + 3.0 * ROUND_UNITS * ulp(t_size * b) };
                c += 1;
            }
        }
        let sh = GadgetShape { b, dsize: 1, dnum: k_dnum, key_size: k_size };
        let ksb = HARD_MARGIN * sh.noise(k_noise.l1_rows(sh.rows_used(t_size)), 3.0) + ROUND_UNITS * out_l1 * ulp(t_size * b);
        let bound = cross + colb + ksb;
        // the product must be resolvable: one unit of the message grid is 2^{cnv-sa-sb}
        let unit = pow2f(cnv as i64 - sa as i64 - sb as i64);
        judge(rep, op, &d, &key, err, bound, bound < unit / 4.0, "message_product_wrong", "phase(relinearised tensor) vs mu_a*mu_b*2^(cnv_offset-scale_a-scale_b)");
    }
}

// ---------------------------------------------------------------------------------------------
// glwe_mul_plain / glwe_mul_plain_assign
// ---------------------------------------------------------------------------------------------
#[allow(clippy::too_many_arguments)]
fn ctx_mul_plain(module: &Module<BE>, n: usize, b: usize, sk: &Sk, a: &Operand, rng: &mut Rng, rep: &mut Report, desc0: &J, key0: &str) {
    let rank = sk.rank;
    let p_size = rng.usize_in(1, 3);
    let p_k = pick_k(rng, b, p_size);
    let p_cls = *rng.pick(&[0usize, 1, 2, 3, 4, 4, 4]);
    let mut ptb: GLWEPlaintext<Vec<u8>> = GLWEPlaintext::alloc(Degree(n as u32), Base2K(b as u32), TorusPrecision(p_k as u32));
    fill_pt(&mut ptb, p_cls, p_k, rng);
    if rng.below(3) == 0 {
        // junk below the effective precision of the plaintext: must be ignored
        let low = p_size * b - p_k;
        if low > 0 {
            for x in ptb.data_mut().at_mut(0, p_size - 1).iter_mut() {
                *x |= rng.next_i64() & ((1i64 << low) - 1);
            }
        }
    }
    let pdr: VecZnx<&[u8]> = ptb.data().to_ref();
    let bp = col_big_masked(&pdr, 0, b, p_size * b, p_k);
    let (wa, wb) = (a.size * b, p_size * b);
    let prod = negacyclic_mul_big(&a.p, &bp);
    let prod_nonzero = prod.iter().any(|x| *x != Big::from(0));
    let res_b = pick_res_radix(rng, b);
    let res_size = rng.usize_in(1, a.size + p_size + 2);
    let res_k = pick_k(rng, res_b, res_size);
    let res_lay = glwe_layout(n, res_b, res_k, rank);
    let a_lay = glwe_layout(n, b, a.k, rank);
    let out_l1 = 1.0 + sk.l1_sum();
    let mut desc = desc0.clone();
    desc.put("b_k", p_k);
    desc.put("b_class", PT_CLASSES[p_cls]);
    desc.put("res_base2k", res_b);
    desc.put("res_k", res_k);
    let key1 = format!("{key0}|{p_k}|{p_cls}|{res_b}|{res_k}");
    for cnv in offsets(a.size, p_size, b) {
        for inplace in [false, true] {
            let op = if inplace { "glwe_mul_plain_assign" } else { "glwe_mul_plain" };
            let (r_b, r_size) = if inplace { (b, a.size) } else { (res_b, res_size) };
            let mut d = desc.clone();
            d.put("op", op);
            d.put("cnv_offset", cnv);
            if inplace {
                d.put("res_base2k", b);
                d.put("res_k", a.k);
            }
            let key = format!("{key1}|{op}|{cnv}");
            let mut res: GLWE<Vec<u8>> = if inplace { a.ct.clone() } else { GLWE::alloc_from_infos(&res_lay) };
            let r = if inplace {
                let need = module.glwe_mul_plain_tmp_bytes(&a_lay, &a_lay, &ptb);
                with_scratch(rep, op, &d, need, rng, |s| {
                    res = a.ct.clone();
                    module.glwe_mul_plain_assign(cnv, &mut res, a.k, &ptb, p_k, s)
                })
            } else {
                garbage_vec(res.data_mut(), res_b, rng);
                let need = module.glwe_mul_plain_tmp_bytes(&res_lay, &a_lay, &ptb);
                with_scratch(rep, op, &d, need, rng, |s| module.glwe_mul_plain(cnv, &mut res, &a.ct, a.k, &ptb, p_k, s))
            };
            if let Err(p) = r {
                panic_violation(rep, op, &d, &key, &p);
                continue;
            }
            let r_bits = r_size * r_b;
            let w = (wa + wb).max(r_bits) + 4;
            let want = place(&prod, cnv, wa, wb, w);
            let have = glwe_phase(&res, sk, w);
            let err = inf_torus(&diff_centre(&have, &want, w), w);
            // the whole product is kept: only the final normalisation rounds
            let bound = ROUND_UNITS * out_l1 * ulp(r_bits);
            judge(rep, op, &d, &key, err, bound, prod_nonzero && bound < 0.0625, radix_class(r_b, b, cnv), "phase(res) vs phase(a) * b * 2^cnv_offset");
        }
    }
}

// ---------------------------------------------------------------------------------------------
// glwe_mul_const / glwe_mul_const_assign (multi-limb constant)
// ---------------------------------------------------------------------------------------------
#[allow(clippy::too_many_arguments)]
fn ctx_mul_const(module: &Module<BE>, n: usize, b: usize, sk: &Sk, a: &Operand, rng: &mut Rng, rep: &mut Report, desc0: &J, key0: &str) {
    let rank = sk.rank;
    let c_len = rng.usize_in(1, 3);
    let c_cls = rng.below(5) as usize;
    let mut c = vec![0i64; c_len];
    match c_cls {
        0 => c.iter_mut().for_each(|x| *x = rng.signed_bits(b)),
        1 => c.iter_mut().for_each(|x| *x = (1i64 << (b - 1)) - 1),
        2 => c.iter_mut().for_each(|x| *x = -(1i64 << (b - 1))),
        3 => {
            // a single non-zero bit
            let bit = rng.below((c_len * b) as u64) as usize;
            let inside = b - 1 - bit % b;
            c[bit / b] = if inside == b - 1 { -(1i64 << (b - 1)) } else { 1i64 << inside };
        }
        _ => c[c_len - 1] = rng.i64_in(-3, 3),
    }
    let cval = limbs_value_i64(&c, b, c_len * b);
    // mul_const has no effective precision argument: the operand is used as it is
    let pa = unmasked_phase(&a.ct, sk);
    let prod: Vec<Big> = pa.iter().map(|x| x * &cval).collect();
    let prod_nonzero = prod.iter().any(|x| *x != Big::from(0));
    let (wa, wb) = (a.size * b, c_len * b);
    let res_b = pick_res_radix(rng, b);
    let res_size = rng.usize_in(1, a.size + c_len + 2);
    let res_k = pick_k(rng, res_b, res_size);
    let res_lay = glwe_layout(n, res_b, res_k, rank);
    let a_lay = glwe_layout(n, b, a.k, rank);
    let out_l1 = 1.0 + sk.l1_sum();
    let mut desc = desc0.clone();
    desc.put("const_limbs", c_len);
    desc.put("const_class", ["uniform", "maxpos", "maxneg", "single_bit", "small_last_limb"][c_cls]);
    desc.put("res_base2k", res_b);
    desc.put("res_k", res_k);
    let key1 = format!("{key0}|{c_len}|{c_cls}|{res_b}|{res_k}");
    for cnv in offsets(a.size, c_len, b) {
        for inplace in [false, true] {
            let op = if inplace { "glwe_mul_const_assign" } else { "glwe_mul_const" };
            let (r_b, r_size) = if inplace { (b, a.size) } else { (res_b, res_size) };
            let mut d = desc.clone();
            d.put("op", op);
            d.put("cnv_offset", cnv);
            if inplace {
                d.put("res_base2k", b);
                d.put("res_k", a.k);
            }
            let key = format!("{key1}|{op}|{cnv}");
            let mut res: GLWE<Vec<u8>> = if inplace { a.ct.clone() } else { GLWE::alloc_from_infos(&res_lay) };
            let r = if inplace {
                let need = module.glwe_mul_const_tmp_bytes(&a_lay, &a_lay, c_len);
                with_scratch(rep, op, &d, need, rng, |s| {
                    res = a.ct.clone();
                    module.glwe_mul_const_assign(cnv, &mut res, &c, s)
                })
            } else {
                garbage_vec(res.data_mut(), res_b, rng);
                let need = module.glwe_mul_const_tmp_bytes(&res_lay, &a_lay, c_len);
                with_scratch(rep, op, &d, need, rng, |s| module.glwe_mul_const(cnv, &mut res, &a.ct, &c, s))
            };
            if let Err(p) = r {
                panic_violation(rep, op, &d, &key, &p);
                continue;
            }
            let r_bits = r_size * r_b;
            let w = (wa + wb).max(r_bits) + 4;
            let want = place(&prod, cnv, wa, wb, w);
            let have = glwe_phase(&res, sk, w);
            let err = inf_torus(&diff_centre(&have, &want, w), w);
            let (hi, lo) = split_offset(cnv, b);
            // the in-place form computes only as many product limbs as the result has
            let dropped = if inplace { dropped_bound(a.size, c_len, hi, lo, a.size, b, 1, 1.0) } else { 0.0 };
            let bound = out_l1 * (dropped + ROUND_UNITS * ulp(r_bits));
            judge(rep, op, &d, &key, err, bound, prod_nonzero && bound < 0.0625, radix_class(r_b, b, cnv), "phase(res) vs phase(a) * const * 2^cnv_offset");
        }
    }
}

// ---------------------------------------------------------------------------------------------
// tensor product, square, accumulate, decrypt with the secret tensor, relinearise
// ---------------------------------------------------------------------------------------------
#[allow(clippy::too_many_arguments)]
fn ctx_tensor(module: &Module<BE>, n: usize, b: usize, sk: &Sk, a: &Operand, rng: &mut Rng, rep: &mut Report, desc0: &J, key0: &str) {
    let rank = sk.rank;
    let cols = rank + 1;
    let mut desc = desc0.clone();
    let bo = match make_operand(module, n, b, rank, sk, rng, rep, &desc) {
        Ok(x) => x,
        Err(p) => return panic_violation(rep, "glwe_encrypt_sk", &desc, key0, &p),
    };
    desc.put("b_k", bo.k);
    desc.put("b_class", in_class_name(bo.cls));
    let sigmas = tensor_sigmas(sk);
    let sig_l1: Vec<f64> = sigmas.iter().map(|s| l1_small(s)).collect();

    // ---- the library's secret tensor must be s_i * s_j, in the order the tensor columns use
    let mut skt: GLWESecretTensor<Vec<u8>> = GLWESecretTensor::alloc(Degree(n as u32), Rank(rank as u32));
    let need = module.glwe_secret_tensor_prepare_tmp_bytes(Rank(rank as u32));
    if let Err(p) = with_scratch(rep, "glwe_secret_tensor_prepare", &desc, need, rng, |s| module.glwe_secret_tensor_prepare(&mut skt, &sk.sk, s)) {
        return panic_violation(rep, "glwe_secret_tensor_prepare", &desc, key0, &p);
    }
    for i in 0..rank {
        for j in i..rank {
            let got = skt.at(i, j);
            let want = neg_small(&sk.s[i], &sk.s[j]);
            rep.case("glwe_secret_tensor_prepare", &format!("{key0}|{i}|{j}"), true);
            if got.at(0, 0) != want.as_slice() {
                let mut d = desc.clone();
                d.put("i", i);
                d.put("j", j);
                exact_violation(rep, "glwe_secret_tensor_prepare", &d, "secret_tensor_wrong", format!("sk_tensor.at({i},{j}) != s_{i}*s_{j}"));
            }
        }
    }
    let mut skt_prep: GLWESecretTensorPrepared<DeviceBuf<BE>, BE> = module.glwe_secret_tensor_prepared_alloc(Rank(rank as u32));
    module.glwe_secret_tensor_prepared_prepare(&mut skt_prep, &skt);

    // ---- tensor key (relinearisation), dsize 1..3
    let t_dsize = rng.usize_in(1, 3);
    let res_b = pick_res_radix(rng, b);
    let res_size = rng.usize_in(1, a.size + bo.size + 2);
    let res_k = pick_k(rng, res_b, res_size);
    let t_lay = glwe_layout(n, res_b, res_k, rank);
    let pairs = rank * (rank + 1) / 2;
    let capk = if IS_FFT64 { 24 } else { 52 };
    let want_bits = res_size * res_b;
    let mut kb = match rng.below(3) {
        0 => res_b,
        _ => rng.usize_in(5, capk),
    };
    let mut k_dnum;
    loop {
        k_dnum = want_bits.div_ceil(kb * t_dsize).clamp(1, 10);
        let hi = max_base2k(n, pairs * k_dnum, 2, capk);
        if kb <= hi {
            break;
        }
        kb = hi;
    }
    if rng.below(5) == 0 {
        k_dnum = k_dnum.saturating_sub(1).max(1);
    }
    let k_size = k_dnum * t_dsize + rng.usize_in(1, 2);
    let k_k = pick_k(rng, kb, k_size).max((k_size - 1) * kb + 1);
    let k_lay = GLWETensorKeyLayout { n: Degree(n as u32), base2k: Base2K(kb as u32), k: TorusPrecision(k_k as u32), rank: Rank(rank as u32), dnum: Dnum(k_dnum as u32), dsize: Dsize(t_dsize as u32) };
    let rl_b = match rng.below(3) {
        0 => kb,
        1 => res_b,
        _ => pick_res_radix(rng, res_b),
    };
    let rl_size = rng.usize_in(1, res_size + 1);
    let rl_k = pick_k(rng, rl_b, rl_size);
    let rl_lay = glwe_layout(n, rl_b, rl_k, rank);
    desc.put("res_base2k", res_b);
    desc.put("res_k", res_k);
    desc.put("tsk_base2k", kb);
    desc.put("tsk_k", k_k);
    desc.put("tsk_dnum", k_dnum);
    desc.put("tsk_dsize", t_dsize);
    desc.put("relin_base2k", rl_b);
    desc.put("relin_k", rl_k);
    let key1 = format!("{key0}|{}|{}|{res_b}|{res_k}|{kb}|{k_k}|{k_dnum}|{t_dsize}|{rl_b}|{rl_k}", bo.k, bo.cls);
    let mut tsk: GLWETensorKey<Vec<u8>> = GLWETensorKey::alloc_from_infos(&k_lay);
    let Ok(enc) = EncryptionLayout::new_from_default_sigma(k_lay) else { return };
    let mut src = sources(rng);
    let need = module.glwe_tensor_key_encrypt_sk_tmp_bytes(&k_lay);
    if let Err(p) = with_scratch(rep, "glwe_tensor_key_encrypt_sk", &desc, need, rng, |s| module.glwe_tensor_key_encrypt_sk(&mut tsk, &sk.sk, &enc, &mut src.xe, &mut src.xa, s)) {
        return panic_violation(rep, "glwe_tensor_key_encrypt_sk", &desc, &key1, &p);
    }
    // tensor-key cell (row, pair p): s_i*s_j * 2^{-(row+1) dsize b}, pairs in the order of the secret tensor
    let pair_pts: Vec<Vec<i64>> = (0..rank).flat_map(|i| (i..rank).map(move |j| (i, j))).map(|(i, j)| neg_small(&sk.s[i], &sk.s[j])).collect();
    let k_noise = gglwe_cell_noise(&tsk, &pair_pts, sk);
    judge(rep, "glwe_tensor_key_encrypt_sk", &desc, &key1, k_noise.worst().2, fresh_bound(k_k, kb), true, "tensor_key_cell_wrong", "tensor-key cell vs s_i*s_j*2^-((row+1)*dsize*base2k)");
    let mut tsk_prep: GLWETensorKeyPrepared<DeviceBuf<BE>, BE> = module.alloc_tensor_key_prepared_from_infos(&k_lay);
    let need = module.prepare_tensor_key_tmp_bytes(&k_lay);
    if let Err(p) = with_scratch(rep, "prepare_tensor_key", &desc, need, rng, |s| module.prepare_tensor_key(&mut tsk_prep, &tsk, s)) {
        return panic_violation(rep, "prepare_tensor_key", &desc, &key1, &p);
    }

    let (wa, wb) = (a.size * b, bo.size * b);
    let prod_ab = negacyclic_mul_big(&a.p, &bo.p);
    let prod_aa = negacyclic_mul_big(&a.p, &a.p);
    let a_lay = glwe_layout(n, b, a.k, rank);
    let b_lay = glwe_layout(n, b, bo.k, rank);
    let out_l1 = 1.0 + sk.l1_sum();
    let offs = offsets(a.size, bo.size, b);
    for (oi, &cnv) in offs.iter().enumerate() {
        let mut d = desc.clone();
        d.put("cnv_offset", cnv);
        let (hi, lo) = split_offset(cnv, b);
        // ---------------- tensor_apply(a, b)
        let op = "glwe_tensor_apply";
        let key = format!("{key1}|{op}|{cnv}");
        let mut t_ab: GLWETensor<Vec<u8>> = GLWETensor::alloc_from_infos(&t_lay);
        garbage_vec(t_ab.data_mut(), res_b, rng);
        let need = module.glwe_tensor_apply_tmp_bytes(&t_lay, &a_lay, &b_lay);
        if let Err(p) = with_scratch(rep, op, &d, need, rng, |s| module.glwe_tensor_apply(cnv, &mut t_ab, &a.ct, a.k, &bo.ct, bo.k, s)) {
            panic_violation(rep, op, &d, &key, &p);
            continue;
        }
        let r_bits = res_size * res_b;
        let w = (wa + wb).max(r_bits).max(k_size * kb).max(rl_size * rl_b) + 4;
        let full = a.size + bo.size - hi;
        let kept = tensor_kept(full, res_size, res_b, b, lo);
        let d1 = dropped_bound(a.size, bo.size, hi, lo, kept, b, n, 1.0);
        let mut bound = 0.0;
        let mut c = 0;
        for i in 0..cols {
            for j in i..cols {
                // diagonal: one truncated product; off-diagonal: the pairwise product (operands twice as large) minus two diagonals
                let col_err = if i == j { d1 + ROUND_UNITS * ulp(r_bits) } else { 6.0 * d1 + 3.0 * ROUND_UNITS * ulp(r_bits) };
                bound += sig_l1[c] * col_err;
                c += 1;
            }
        }
        let want = place(&prod_ab, cnv, wa, wb, w);
        let have = tensor_phase(&t_ab, &sigmas, w);
        let err = inf_torus(&diff_centre(&have, &want, w), w);
        let nz = prod_ab.iter().any(|x| *x != Big::from(0));
        judge(rep, op, &d, &key, err, bound, nz && bound < 0.0625, radix_class(res_b, b, cnv), "tensor phase under (1, s, s(x)s) vs phase(a)*phase(b)*2^cnv_offset");

        // ---------------- decryption with the secret tensor agrees with the exact tensor phase
        if oi % 3 == 0 {
            let op = "glwe_tensor_decrypt";
            let mut pt: GLWEPlaintext<Vec<u8>> = GLWEPlaintext::alloc_from_infos(&t_lay);
            let need = module.glwe_tensor_decrypt_tmp_bytes(&t_lay);
            let mut dd = d.clone();
            if !IS_FFT64 && res_size == 1 {
                dd.put("class_hint", "F15_glwe_decrypt_tmp_bytes_ntt120_one_limb");
            }
            match with_scratch(rep, op, &dd, need, rng, |s| module.glwe_tensor_decrypt(&t_ab, &mut pt, &sk.prep, &skt_prep, s)) {
                Err(p) => panic_violation(rep, op, &d, &key, &p),
                Ok(()) => {
                    let pdr: VecZnx<&[u8]> = pt.data().to_ref();
                    let got = poly_centre(&col_big(&pdr, 0, res_b, w), w);
                    let e = inf_torus(&diff_centre(&got, &have, w), w);
                    judge(rep, op, &d, &format!("{key}|dec"), e, ROUND_UNITS * ulp(r_bits), true, "tensor_decrypt_wrong", "glwe_tensor_decrypt vs exact phase under (1, s, s(x)s)");
                }
            }
        }

        // ---------------- square == self-multiply, bitwise
        if oi % 2 == 0 && cnv <= 2 * a.size * b {
            let op = "glwe_tensor_square_apply";
            let key = format!("{key1}|{op}|{cnv}");
            let mut t_sq: GLWETensor<Vec<u8>> = GLWETensor::alloc_from_infos(&t_lay);
            let mut t_aa: GLWETensor<Vec<u8>> = GLWETensor::alloc_from_infos(&t_lay);
            garbage_vec(t_sq.data_mut(), res_b, rng);
            garbage_vec(t_aa.data_mut(), res_b, rng);
            let need = module.glwe_tensor_square_apply_tmp_bytes(&t_lay, &a_lay);
            let r1 = with_scratch(rep, op, &d, need, rng, |s| module.glwe_tensor_square_apply(cnv, &mut t_sq, &a.ct, a.k, s));
            let need = module.glwe_tensor_apply_tmp_bytes(&t_lay, &a_lay, &a_lay);
            let r2 = with_scratch(rep, "glwe_tensor_apply", &d, need, rng, |s| module.glwe_tensor_apply(cnv, &mut t_aa, &a.ct, a.k, &a.ct, a.k, s));
            match (r1, r2) {
                (Ok(()), Ok(())) => {
                    rep.case(op, &format!("{key}|bitwise"), true);
                    if t_sq.data().raw() != t_aa.data().raw() {
                        exact_violation(rep, op, &d, "square_ne_self_multiply", "glwe_tensor_square_apply(a) differs bitwise from glwe_tensor_apply(a, a)".into());
                    }
                    let full = 2 * a.size - hi;
                    let kept = tensor_kept(full, res_size, res_b, b, lo);
                    let d1 = dropped_bound(a.size, a.size, hi, lo, kept, b, n, 1.0);
                    let mut bound = 0.0;
                    let mut c = 0;
                    for i in 0..cols {
                        for j in i..cols {
                            let col_err = if i == j { d1 + ROUND_UNITS * ulp(r_bits) } else { 6.0 * d1 + 3.0 * ROUND_UNITS * ulp(r_bits) };
                            bound += sig_l1[c] * col_err;
                            c += 1;
                        }
                    }
                    let w2 = (2 * wa).max(r_bits) + 4;
                    let want = place(&prod_aa, cnv, wa, wa, w2);
                    let have = tensor_phase(&t_sq, &sigmas, w2);
                    let err = inf_torus(&diff_centre(&have, &want, w2), w2);
                    let nz = prod_aa.iter().any(|x| *x != Big::from(0));
                    // the square uses the offsets of (a_size + a_size); offsets beyond that are skipped by the caller's grid
                    judge(rep, op, &d, &key, err, bound, nz && bound < 0.0625, radix_class(res_b, b, cnv), "square tensor phase vs phase(a)^2*2^cnv_offset");
                }
                (Err(p), _) => panic_violation(rep, op, &d, &key, &p),
                (_, Err(p)) => panic_violation(rep, "glwe_tensor_apply", &d, &key, &p),
            }
        }

        // ---------------- accumulate: acc + product, limb for limb
        if oi % 2 == 1 {
            let op = "glwe_tensor_apply_add_assign";
            let key = format!("{key1}|{op}|{cnv}");
            let mut acc: GLWETensor<Vec<u8>> = GLWETensor::alloc_from_infos(&t_lay);
            let acc_bits = res_b.min(40);
            garbage_vec(acc.data_mut(), acc_bits, rng);
            let before: Vec<i64> = acc.data().raw().to_vec();
            let need = module.glwe_tensor_apply_tmp_bytes(&t_lay, &a_lay, &b_lay);
            match with_scratch(rep, op, &d, need, rng, |s| {
                acc.data_mut().raw_mut().copy_from_slice(&before);
                module.glwe_tensor_apply_add_assign(cnv, &mut acc, &a.ct, a.k, &bo.ct, bo.k, s)
            }) {
                Err(p) => panic_violation(rep, op, &d, &key, &p),
                Ok(()) => {
                    rep.case(op, &key, true);
                    let want: Vec<i64> = before.iter().zip(t_ab.data().raw()).map(|(x, y)| x.wrapping_add(*y)).collect();
                    if acc.data().raw() != want.as_slice() {
                        let pos = acc.data().raw().iter().zip(&want).position(|(x, y)| x != y).unwrap_or(0);
                        let mut dd = d.clone();
                        dd.put("first_diff_index", pos);
                        exact_violation(rep, op, &dd, "accumulate_ne_acc_plus_product", format!("accumulator after add_assign != previous accumulator + glwe_tensor_apply product (first difference at flattened index {pos})"));
                    }
                }
            }
        }

        // ---------------- relinearise: key-switch of the s_i*s_j columns
        {
            let op = "glwe_tensor_relinearize";
            let key = format!("{key1}|{op}|{cnv}");
            let mut rl: GLWE<Vec<u8>> = GLWE::alloc_from_infos(&rl_lay);
            garbage_vec(rl.data_mut(), rl_b, rng);
            let need = module.glwe_tensor_relinearize_tmp_bytes(&rl_lay, &t_lay, &k_lay);
            let size_arg = tsk_prep.size();
            if let Err(p) = with_scratch(rep, op, &d, need, rng, |s| module.glwe_tensor_relinearize(&mut rl, &t_ab, &tsk_prep, size_arg, s)) {
                panic_violation(rep, op, &d, &key, &p);
                continue;
            }
            // the same call with a zero-filled window (only used to classify a failure as scratch-content dependent)
            let mut rl_clean: GLWE<Vec<u8>> = GLWE::alloc_from_infos(&rl_lay);
            let sh = GadgetShape { b: kb, dsize: t_dsize, dnum: k_dnum, key_size: k_size };
            // tensor columns: the off-diagonal ones are a normalised vector minus two normalised vectors (digits up to 3*2^{b-1})
            let (in_size, dig) = if res_b == kb { (res_size, 3.0) } else { ((res_size * res_b).div_ceil(kb), 2.0) };
            let rows = sh.rows_used(in_size);
            let tail: f64 = pair_pts.iter().map(|p| l1_small(p) * sh.tail(in_size, dig)).sum();
            let noise = sh.noise(k_noise.l1_rows(rows), dig);
            let dropped = out_l1 * sh.dropped(n, pairs, rows, dig);
            let q = pow2f(kb as i64);
            let body_cut = if in_size > k_size { TAIL_MARGIN * dig * out_l1 * 0.5 * ulp(k_size * kb) * q / (q - 1.0) } else { 0.0 };
            let bound = HARD_MARGIN * (tail + noise + dropped) + body_cut + ROUND_UNITS * out_l1 * ulp(rl_size * rl_b);
            let got = glwe_phase(&rl, sk, w);
            let err = inf_torus(&diff_centre(&got, &have, w), w);
            let mut class = if res_b != kb && rl_b == kb { "relinearize_body_added_in_wrong_radix" } else { "relinearize_wrong" };
            if err >= bound && with_scratch_opt(rep, op, &d, need, rng, false, |s| module.glwe_tensor_relinearize(&mut rl_clean, &t_ab, &tsk_prep, size_arg, s)).is_ok() {
                let e2 = inf_torus(&diff_centre(&glwe_phase(&rl_clean, sk, w), &have, w), w);
                d.put("err_with_zeroed_scratch_log2", e2.log2());
                if e2 < bound {
                    class = "depends_on_scratch_contents";
                }
            }
            // dsize >= 3 without a zeroed accumulator is the region of the scratch-content defect: not used for calibration
            // nor is the region where the tensor body is added in the wrong radix
            let clean_region = t_dsize < 3 && !(res_b != kb && rl_b == kb);
            judge_cal(rep, op, &d, &key, err, bound, bound < 0.0625, clean_region, class, "phase(relinearised) under s vs exact tensor phase under (1, s, s(x)s)");
        }
    }
}

pub fn run(cfg: &Cfg, rep: &mut Report) {
    let mut rng = cfg.rng(&format!("c05-{BE_NAME}"));
    let sc = bscale();
    let contexts = ((cfg.budget(18_000, 400_000) as f64) * sc).ceil() as u64;
    for it in 0..contexts {
        let n = *rng.pick(&[8usize, 8, 16, 16, 32]);
        let module = cached_module(n);
        run_ctx(module, n, it, &mut rng, rep);
    }
    flush_worst(rep, "c05");
}
