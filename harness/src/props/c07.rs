// C07 — DFT-domain products equal exact negacyclic (bivariate) convolution.
// Oracle: exact schoolbook products in i128 (all coefficients for N <= 256, a random subset above),
// compared bit for bit with the big accumulator obtained through the library's inverse transform.

/// largest operand width (bits, signed) for which a sum of `terms` negacyclic products with a
/// `bits_b`-bit operand is inside the backend's exactness domain (DESIGN §3.3)
fn max_bits_a(n: usize, terms: usize, bits_b: usize) -> usize {
    let logn = (n.trailing_zeros() as f64).max(1.0);
    if IS_FFT64 {
        // terms * n * 2^(ba+bb-2) * 13*log2(n) < 2^52  and |x| < 2^50
        let budget = 52.0 - ((terms * n) as f64 * 13.0 * logn).log2() + 2.0 - bits_b as f64;
        (budget.floor() as i64).clamp(0, 50) as usize
    } else {
        // log2(terms*n) + ba + bb - 2 < 118, terms < 10000
        let budget = 118.0 - ((terms * n) as f64).log2() + 2.0 - bits_b as f64;
        (budget.floor() as i64).clamp(0, 62) as usize
    }
}

fn pick_n(rng: &mut Rng, thorough: bool) -> usize {
    let r = rng.below(1000);
    if r < 550 {
        *rng.pick(&[8usize, 16, 32])
    } else if r < 955 {
        *rng.pick(&[64usize, 128, 256])
    } else if r < 992 {
        *rng.pick(&[512usize, 1024, 2048])
    } else if r < 998 || !thorough {
        // the transform tables change layout above N = 4096 (recursive construction)
        *rng.pick(&[4096usize, 8192, 16384])
    } else {
        *rng.pick(&[32768usize, 65536])
    }
}

const CLS: &[&str] = &["uniform", "uniform", "maxpos", "maxneg", "maxmix", "sparse", "zero"];

fn fill_class(v: &mut VBuf, rng: &mut Rng, bits: usize, class: &str) {
    let bits = bits.max(1);
    let hi = (1i64 << (bits - 1)) - 1;
    let lo = -(1i64 << (bits - 1));
    let mut r = rng.clone();
    v.fill_with(|c, j, i| match class {
        "uniform" => r.signed_bits(bits),
        "maxpos" => hi,
        "maxneg" => lo,
        "maxmix" => if (c + j) % 2 == 0 { hi } else { lo },
        "sparse" => if r.below(6) == 0 { r.signed_bits(bits) } else { 0 },
        _ => 0,
    });
    *rng = r;
}

fn big_scratch(module: &Module<BE>, n: usize) -> ScratchWin {
    let _ = module;
    ScratchWin::new(n * 64 * 64 + (1 << 16))
}

fn to_dft(module: &Module<BE>, v: &VBuf) -> DftBuf {
    let mut d = DftBuf::new(v.n, v.cols, v.size, v.size);
    for c in 0..v.cols {
        module.vec_znx_dft_apply(1, 0, &mut d.view(), c, &v.rview(), c);
    }
    d
}

/// coefficient-domain content of one (col, limb) of a DFT vector, through the library's inverse transform
fn idft_col(module: &Module<BE>, d: &DftBuf, col: usize, sw: &mut ScratchWin) -> Vec<Vec<i128>> {
    let mut big = BigBuf::new(d.n, 1, d.size, d.size);
    module.vec_znx_idft_apply(&mut big.view(), 0, &d.rview(), col, sw.scratch());
    (0..d.size).map(|j| big.poly(0, j)).collect()
}

fn mul_exact(a: &[i64], b: &[i64]) -> Vec<i128> {
    let n = a.len();
    let mut r = vec![0i128; n];
    for i in 0..n {
        if a[i] == 0 {
            continue;
        }
        let ai = a[i] as i128;
        for j in 0..n {
            let p = ai * b[j] as i128;
            let k = i + j;
            if k < n { r[k] += p } else { r[k - n] -= p }
        }
    }
    r
}

/// coefficient k of the negacyclic product a*b
fn mul_coeff(a: &[i64], b: &[i64], k: usize) -> i128 {
    let n = a.len();
    let mut s = 0i128;
    for i in 0..n {
        let (j, neg) = if i <= k { (k - i, false) } else { (n + k - i, true) };
        let p = a[i] as i128 * b[j] as i128;
        if neg { s -= p } else { s += p }
    }
    s
}

/// Accumulates sum_t a_t * b_t either fully (small N) or on a subset of coefficients.
struct Acc {
    n: usize,
    idx: Vec<usize>, // coefficients tracked (all of them when n <= 256)
    val: Vec<i128>,
}
impl Acc {
    fn new(n: usize, rng: &mut Rng) -> Acc {
        let idx: Vec<usize> = if n <= 256 { (0..n).collect() } else { let mut v: Vec<usize> = (0..24).map(|_| rng.usize_in(0, n - 1)).collect(); v.extend([0, 1, n - 1, n / 2]); v.sort_unstable(); v.dedup(); v };
        Acc { n, val: vec![0; idx.len()], idx }
    }
    fn like(o: &Acc) -> Acc {
        Acc { n: o.n, idx: o.idx.clone(), val: vec![0; o.idx.len()] }
    }
    fn add_mul(&mut self, a: &[i64], b: &[i64]) {
        if self.n <= 256 {
            let p = mul_exact(a, b);
            for (v, x) in self.val.iter_mut().zip(p) {
                *v += x;
            }
        } else {
            for (t, &k) in self.idx.iter().enumerate() {
                self.val[t] += mul_coeff(a, b, k);
            }
        }
    }
    fn add_poly(&mut self, a: &[i64], sign: i128) {
        for (t, &k) in self.idx.iter().enumerate() {
            self.val[t] += sign * a[k] as i128;
        }
    }
    /// compare with a library polynomial (i128 per coefficient); FFT64 accumulators are i64
    fn mismatch(&self, got: &[i128]) -> Option<String> {
        for (t, &k) in self.idx.iter().enumerate() {
            if got[k] != self.val[t] {
                return Some(format!("coefficient {k}: got {} want {}", got[k], self.val[t]));
            }
        }
        None
    }
}

const OPS: &[&str] = &[
    "dft_idft", "dft_idft_tmpa", "dft_idft_consume", "svp_apply_dft", "svp_apply_dft_to_dft", "svp_apply_dft_to_dft_assign", "vmp_apply_dft",
    "vmp_apply_dft_to_dft", "cnv_apply_dft", "cnv_pairwise_apply_dft", "cnv_prepare_self", "cnv_by_const_apply", "dft_add_into", "dft_add_assign", "dft_sub",
    "dft_sub_assign", "dft_sub_negate_assign", "dft_add_scaled_assign", "dft_copy", "dft_zero", "dft_chain",
];

pub fn run(cfg: &Cfg, rep: &mut Report) {
    let mut rng = cfg.rng(&format!("c07-{BE_NAME}"));
    let total = cfg.budget(320_000, 6_000_000) / 4;
    for it in 0..total {
        let op = OPS[(it as usize + rng.below(3) as usize) % OPS.len()];
        let n = pick_n(&mut rng, cfg.thorough);
        let module = new_module(n);
        one(&module, op, n, &mut rng, rep);
    }
}

fn one(module: &Module<BE>, op: &'static str, n: usize, rng: &mut Rng, rep: &mut Report) {
    let class_a = *rng.pick(CLS);
    let class_b = *rng.pick(CLS);
    let mut sw = big_scratch(module, n);
    sw.fill(rng);
    let mut desc = jo! {"backend" => BE_NAME, "op" => op, "n" => n, "class_a" => class_a, "class_b" => class_b};
    let nontrivial = class_a != "zero" && class_b != "zero";
    macro_rules! fail {
        ($($arg:tt)*) => {{ rep.violate(op, desc.clone(), format!($($arg)*)); return; }};
    }
    match op {
        // ------------------------------------------------------------------ forward/inverse identity
        "dft_idft" | "dft_idft_tmpa" | "dft_idft_consume" => {
            let (ac, rc) = (rng.usize_in(1, 3), rng.usize_in(1, 3));
            let (acol, rcol) = (rng.usize_in(0, ac - 1), rng.usize_in(0, rc - 1));
            let (asz, rsz) = (rng.usize_in(1, 6), rng.usize_in(1, 6));
            let step = rng.usize_in(1, 3);
            let offset = rng.usize_in(0, asz + 1);
            let bits = max_bits_a(n, 1, 1).min(if IS_FFT64 { 50 } else { 62 });
            let mut a = VBuf::new(n, ac, asz, asz);
            fill_class(&mut a, rng, bits, class_a);
            let mut d = DftBuf::new(n, rc, rsz, rsz + rng.usize_in(0, 1));
            d.g.fill_random(rng);
            desc.put("a_size", asz);
            desc.put("res_size", rsz);
            desc.put("step", step);
            desc.put("offset", offset);
            desc.put("bits", bits);
            desc.put("res_cols", rc);
            desc.put("res_col", rcol);
            let key = format!("{BE_NAME}|{n}|{asz}|{rsz}|{step}|{offset}|{class_a}|{rc}{rcol}");
            rep.case(op, &key, class_a != "zero");
            rep.sample_for_op(&format!("{BE_NAME}:{op}"), || desc.clone());
            let mut big = BigBuf::new(n, 1, rsz, rsz);
            big.g.fill_random(rng);
            let r = guarded(|| {
                module.vec_znx_dft_apply(step, offset, &mut d.view(), rcol, &a.rview(), acol);
                match op {
                    "dft_idft" => module.vec_znx_idft_apply(&mut big.view(), 0, &d.rview(), rcol, sw.scratch()),
                    "dft_idft_tmpa" => module.vec_znx_idft_apply_tmpa(&mut big.view(), 0, &mut d.view(), rcol),
                    _ => {
                        // consume: the whole DFT vector is reinterpreted; only one column is meaningful here, so use a 1-column copy
                        let mut owned = module.vec_znx_dft_alloc(1, rsz);
                        module.vec_znx_dft_copy(1, 0, &mut owned, 0, &d.rview(), rcol);
                        let out = module.vec_znx_idft_apply_consume(owned);
                        let raw: &[u8] = out.data.as_ref();
                        for j in 0..rsz {
                            for i in 0..n {
                                let o = (n * j + i) * BIG_BYTES;
                                let bytes = &raw[o..o + BIG_BYTES];
                                let v = if BIG_BYTES == 8 { i64::from_le_bytes(bytes.try_into().unwrap()) as i128 } else { i128::from_le_bytes(bytes.try_into().unwrap()) };
                                big.set(0, j, i, v);
                            }
                        }
                    }
                }
            });
            if let Err(p) = r {
                fail!("panic: {p}");
            }
            let steps = asz.div_ceil(step);
            for j in 0..rsz {
                let limb = offset + j * step;
                let want: Vec<i128> = if j < steps && limb < asz { a.poly(acol, limb).iter().map(|x| *x as i128).collect() } else { vec![0; n] };
                let got = big.poly(0, j);
                if got != want {
                    let i = (0..n).find(|i| got[*i] != want[*i]).unwrap();
                    fail!("limb {j} (source limb {limb}) coefficient {i}: got {} want {}", got[i], want[i]);
                }
            }
        }
        // ------------------------------------------------------------------ scalar-vector products
        "svp_apply_dft" | "svp_apply_dft_to_dft" | "svp_apply_dft_to_dft_assign" => {
            let (sc, bc, rc) = (rng.usize_in(1, 3), rng.usize_in(1, 3), rng.usize_in(1, 3));
            let (scol, bcol, rcol) = (rng.usize_in(0, sc - 1), rng.usize_in(0, bc - 1), rng.usize_in(0, rc - 1));
            let (bsz, rsz) = (rng.usize_in(1, 6), rng.usize_in(1, 6));
            let bits_s = *rng.pick(&[1usize, 2, 2, 8, 17]);
            let bits_b = max_bits_a(n, 1, bits_s);
            if bits_b < 2 {
                return;
            }
            let mut s = VBuf::new(n, sc, 1, 1);
            fill_class(&mut s, rng, bits_s, class_a);
            let mut b = VBuf::new(n, bc, bsz, bsz);
            fill_class(&mut b, rng, bits_b, class_b);
            let scalar = ScalarZnx { data: s.g.bytes(), n, cols: sc };
            let mut ppol_g = Guarded::new(module.bytes_of_svp_ppol(sc), true);
            ppol_g.fill_random(rng);
            let mut res = DftBuf::new(n, rc, rsz, rsz + rng.usize_in(0, 1));
            res.g.fill_random(rng);
            desc.put("b_size", bsz);
            desc.put("res_size", rsz);
            desc.put("bits_scalar", bits_s);
            desc.put("bits_vec", bits_b);
            desc.put("res_cols", rc);
            desc.put("res_col", rcol);
            let key = format!("{BE_NAME}|{n}|{bsz}|{rsz}|{bits_s}|{class_a}|{class_b}|{rc}{rcol}{bcol}{scol}");
            rep.case(op, &key, nontrivial);
            rep.sample_for_op(&format!("{BE_NAME}:{op}"), || desc.clone());
            let r = guarded(|| {
                let mut ppol: SvpPPol<&mut [u8], BE> = SvpPPol::from_data(ppol_g.bytes_mut(), n, sc);
                for c in 0..sc {
                    module.svp_prepare(&mut ppol, c, &scalar, c);
                }
                match op {
                    "svp_apply_dft" => module.svp_apply_dft(&mut res.view(), rcol, &ppol, scol, &b.rview(), bcol),
                    "svp_apply_dft_to_dft" => {
                        let bd = to_dft(module, &b);
                        module.svp_apply_dft_to_dft(&mut res.view(), rcol, &ppol, scol, &bd.rview(), bcol)
                    }
                    _ => {
                        // in place: res[rcol] starts as DFT(b[bcol]) on min(res, b) limbs
                        module.vec_znx_dft_apply(1, 0, &mut res.view(), rcol, &b.rview(), bcol);
                        module.svp_apply_dft_to_dft_assign(&mut res.view(), rcol, &ppol, scol)
                    }
                }
            });
            if let Err(p) = r {
                fail!("panic: {p}");
            }
            let got = idft_col(module, &res, rcol, &mut sw);
            let mut acc0 = Acc::new(n, rng);
            for j in 0..rsz {
                let mut acc = Acc::like(&acc0);
                if j < bsz {
                    acc.add_mul(s.poly(scol, 0), b.poly(bcol, j));
                }
                if let Some(m) = acc.mismatch(&got[j]) {
                    fail!("limb {j}: {m}");
                }
                acc0.val.iter_mut().for_each(|v| *v = 0);
            }
        }
        // ------------------------------------------------------------------ vector-matrix products
        "vmp_apply_dft" | "vmp_apply_dft_to_dft" => {
            let rows = rng.usize_in(1, 5);
            let (cin, cout) = (rng.usize_in(1, 3), rng.usize_in(1, 3));
            let msz = rng.usize_in(1, 5);
            let asz = rng.usize_in(1, 6);
            let rsz = rng.usize_in(1, 6);
            let limb_offset = if op == "vmp_apply_dft_to_dft" { rng.usize_in(0, msz + 1) } else { 0 };
            let terms = rows.min(asz) * cin;
            let bits_m = *rng.pick(&[2usize, 8, 12, 17]);
            let bits_a = max_bits_a(n, terms, bits_m).min(bits_m.max(8) + 9);
            if bits_a < 2 {
                return;
            }
            // vmp_apply_dft right-aligns the columns of `a` into the cols_in inputs of the matrix (missing leading columns count as zero,
            // surplus leading columns are ignored); the DFT-to-DFT form requires equal column counts
            let a_cols = if op == "vmp_apply_dft" { rng.usize_in(1, cin + 1) } else { cin };
            let mut a = VBuf::new(n, a_cols, asz, asz);
            fill_class(&mut a, rng, bits_a, class_a);
            let a_col_of = |ci: usize| -> Option<usize> {
                let copy = a_cols.min(cin);
                let (start, offset) = (a_cols - copy, cin - copy);
                if ci < offset { None } else { Some(start + ci - offset) }
            };
            // MatZnx: rows x cols_in entries, each a VecZnx with cols_out columns and msz limbs
            let mat_bytes = MatZnx::<Vec<u8>>::bytes_of(n, rows, cin, cout, msz);
            let mut mat_g = Guarded::new(mat_bytes, true);
            let mut mats: Vec<Vec<VBuf>> = Vec::new(); // [row][cin] -> VBuf(cout cols, msz limbs)
            for _ in 0..rows {
                let mut rowv = Vec::new();
                for _ in 0..cin {
                    let mut e = VBuf::new(n, cout, msz, msz);
                    fill_class(&mut e, rng, bits_m, class_b);
                    rowv.push(e);
                }
                mats.push(rowv);
            }
            desc.put("rows", rows);
            desc.put("cols_in", cin);
            desc.put("cols_out", cout);
            desc.put("mat_size", msz);
            desc.put("a_size", asz);
            desc.put("a_cols", a_cols);
            desc.put("res_size", rsz);
            desc.put("limb_offset", limb_offset);
            desc.put("bits_a", bits_a);
            desc.put("bits_mat", bits_m);
            let key = format!("{BE_NAME}|{n}|{rows}|{cin}|{cout}|{msz}|{asz}|{a_cols}|{rsz}|{limb_offset}|{class_a}|{class_b}");
            rep.case(op, &key, nontrivial);
            rep.sample_for_op(&format!("{BE_NAME}:{op}"), || desc.clone());
            let mut res = DftBuf::new(n, cout, rsz, rsz + rng.usize_in(0, 1));
            res.g.fill_random(rng);
            let mut pmat_g = Guarded::new(module.bytes_of_vmp_pmat(rows, cin, cout, msz), true);
            pmat_g.fill_random(rng);
            let r = guarded(|| {
                let mut mat: MatZnx<&mut [u8]> = MatZnx::from_data(mat_g.bytes_mut(), n, rows, cin, cout, msz);
                for (ri, rowv) in mats.iter().enumerate() {
                    for (ci, e) in rowv.iter().enumerate() {
                        let mut dst = mat.at_mut(ri, ci);
                        for co in 0..cout {
                            for j in 0..msz {
                                dst.at_mut(co, j).copy_from_slice(e.poly(co, j));
                            }
                        }
                    }
                }
                let mut pmat: VmpPMat<&mut [u8], BE> = VmpPMat::from_data(pmat_g.bytes_mut(), n, rows, cin, cout, msz);
                module.vmp_prepare(&mut pmat, &mat, sw.scratch());
                if op == "vmp_apply_dft" {
                    module.vmp_apply_dft(&mut res.view(), &a.rview(), &pmat, sw.scratch());
                } else {
                    let ad = to_dft(module, &a);
                    module.vmp_apply_dft_to_dft(&mut res.view(), &ad.rview(), &pmat, limb_offset, sw.scratch());
                }
            });
            if let Err(p) = r {
                fail!("panic: {p}");
            }
            let acc0 = Acc::new(n, rng);
            for co in 0..cout {
                let got = idft_col(module, &res, co, &mut sw);
                for j in 0..rsz {
                    let mut acc = Acc::like(&acc0);
                    let ml = j + limb_offset;
                    if ml < msz {
                        for i in 0..rows.min(asz) {
                            for ci in 0..cin {
                                if let Some(ac) = a_col_of(ci) {
                                    acc.add_mul(a.poly(ac, i), mats[i][ci].poly(co, ml));
                                }
                            }
                        }
                    }
                    if let Some(m) = acc.mismatch(&got[j]) {
                        fail!("output column {co} limb {j} (matrix limb {ml}): {m}");
                    }
                }
            }
        }
        // ------------------------------------------------------------------ bivariate convolutions
        "cnv_apply_dft" | "cnv_pairwise_apply_dft" | "cnv_prepare_self" | "cnv_by_const_apply" => {
            let cols = if op == "cnv_pairwise_apply_dft" { rng.usize_in(2, 3) } else { rng.usize_in(1, 3) };
            let (asz, bsz, rsz) = (rng.usize_in(1, 5), rng.usize_in(1, 5), rng.usize_in(1, 8));
            let (pasz, pbsz) = (rng.usize_in(1, 5), rng.usize_in(1, 5)); // prepared sizes (may differ from the inputs)
            let cnv_offset = rng.usize_in(0, asz + bsz + 1);
            let (ci, cj) = (rng.usize_in(0, cols - 1), rng.usize_in(0, cols - 1));
            let rc = rng.usize_in(1, 3);
            let rcol = rng.usize_in(0, rc - 1);
            let pair = op == "cnv_pairwise_apply_dft" && ci != cj;
            let terms = asz.min(bsz) * if pair { 4 } else { 1 };
            let bits_b = *rng.pick(&[4usize, 8, 12, 17]);
            let mut bits_a = max_bits_a(n, terms, bits_b + if pair { 1 } else { 0 }).min(bits_b + 6).saturating_sub(if pair { 1 } else { 0 });
            if op == "cnv_prepare_self" {
                // both operands are `a`: the widest width x with x-bit x x-bit products inside the domain
                bits_a = (2..=bits_a).rev().find(|x| max_bits_a(n, terms, *x) >= *x).unwrap_or(0);
            }
            if bits_a < 2 {
                return;
            }
            let mut a = VBuf::new(n, cols, asz, asz);
            fill_class(&mut a, rng, bits_a, class_a);
            let mut b = VBuf::new(n, cols, bsz, bsz);
            fill_class(&mut b, rng, bits_b, class_b);
            let mask_bits = rng.usize_in(1, bits_a);
            let mask: i64 = if rng.coin() { -1 } else { (-1i64) << (bits_a - mask_bits) };
            desc.put("cols", cols);
            desc.put("a_size", asz);
            desc.put("b_size", bsz);
            desc.put("res_size", rsz);
            desc.put("prep_a_size", pasz);
            desc.put("prep_b_size", pbsz);
            desc.put("cnv_offset", cnv_offset);
            desc.put("i", ci);
            desc.put("j", cj);
            desc.put("res_cols", rc);
            desc.put("res_col", rcol);
            desc.put("mask", mask);
            desc.put("bits_a", bits_a);
            desc.put("bits_b", bits_b);
            let key = format!("{BE_NAME}|{n}|{cols}|{asz}|{bsz}|{rsz}|{pasz}|{pbsz}|{cnv_offset}|{ci}{cj}|{rc}{rcol}|{class_a}|{class_b}|{mask}");
            rep.case(op, &key, nontrivial);
            rep.sample_for_op(&format!("{BE_NAME}:{op}"), || desc.clone());
            if op == "cnv_by_const_apply" {
                // b is a constant polynomial in X: one i64 per limb
                let bc: Vec<i64> = (0..bsz).map(|_| rng.signed_bits(bits_b)).collect();
                let mut res = BigBuf::new(n, rc, rsz, rsz + rng.usize_in(0, 1));
                res.g.fill_random(rng);
                let r = guarded(|| module.cnv_by_const_apply(cnv_offset, &mut res.view(), rcol, &a.rview(), ci, &bc, sw.scratch()));
                if let Err(p) = r {
                    fail!("panic: {p}");
                }
                for rl in 0..rsz {
                    let mut want = vec![0i128; n];
                    for i in 0..asz {
                        let t = rl + cnv_offset;
                        if t >= i && t - i < bsz {
                            for (w, x) in want.iter_mut().zip(a.poly(ci, i)) {
                                *w += *x as i128 * bc[t - i] as i128;
                            }
                        }
                    }
                    let got = res.poly(rcol, rl);
                    if got != want {
                        let k = (0..n).find(|k| got[*k] != want[*k]).unwrap();
                        fail!("limb {rl} coefficient {k}: got {} want {} (b={bc:?})", got[k], want[k]);
                    }
                }
                return;
            }
            let self_mode = op == "cnv_prepare_self";
            let (pasz, pbsz) = if self_mode { (pasz, pasz) } else { (pasz, pbsz) };
            let mut left_g = Guarded::new(module.bytes_of_cnv_pvec_left(cols, pasz), true);
            let mut right_g = Guarded::new(module.bytes_of_cnv_pvec_right(cols, pbsz), true);
            left_g.fill_random(rng);
            right_g.fill_random(rng);
            let mut res = DftBuf::new(n, rc, rsz, rsz + rng.usize_in(0, 1));
            res.g.fill_random(rng);
            let r = guarded(|| {
                let mut left: CnvPVecL<&mut [u8], BE> = CnvPVecL::from_data(left_g.bytes_mut(), n, cols, pasz);
                let mut right: CnvPVecR<&mut [u8], BE> = CnvPVecR::from_data(right_g.bytes_mut(), n, cols, pbsz);
                if self_mode {
                    module.cnv_prepare_self(&mut left, &mut right, &a.rview(), mask, sw.scratch());
                } else {
                    module.cnv_prepare_left(&mut left, &a.rview(), mask, sw.scratch());
                    module.cnv_prepare_right(&mut right, &b.rview(), -1, sw.scratch());
                }
                if op == "cnv_pairwise_apply_dft" {
                    module.cnv_pairwise_apply_dft(cnv_offset, &mut res.view(), rcol, &left, &right, ci, cj, sw.scratch());
                } else {
                    module.cnv_apply_dft(cnv_offset, &mut res.view(), rcol, &left, ci, &right, cj, sw.scratch());
                }
            });
            if let Err(p) = r {
                fail!("panic: {p}");
            }
            // effective operands: truncated to the prepared sizes, last kept limb of the left operand masked
            let ea = pasz.min(asz);
            let masked = |v: &VBuf, col: usize, limb: usize, last: usize| -> Vec<i64> {
                let p = v.poly(col, limb);
                if limb == last { p.iter().map(|x| x & mask).collect() } else { p.to_vec() }
            };
            let (bsrc, eb) = if self_mode { (&a, pbsz.min(asz)) } else { (&b, pbsz.min(bsz)) };
            let bmask = |col: usize, limb: usize| -> Vec<i64> {
                if self_mode { masked(&a, col, limb, eb - 1) } else { bsrc.poly(col, limb).to_vec() }
            };
            let left_limb = |limb: usize| -> Vec<i64> {
                if pair {
                    masked(&a, ci, limb, ea - 1).iter().zip(masked(&a, cj, limb, ea - 1)).map(|(x, y)| x + y).collect()
                } else {
                    masked(&a, ci, limb, ea - 1)
                }
            };
            let right_limb = |limb: usize| -> Vec<i64> {
                if pair { bmask(ci, limb).iter().zip(bmask(cj, limb)).map(|(x, y)| x + y).collect() } else { bmask(if op == "cnv_pairwise_apply_dft" { ci } else { cj }, limb) }
            };
            let got = idft_col(module, &res, rcol, &mut sw);
            let acc0 = Acc::new(n, rng);
            // the prepared vectors hold `pasz`/`pbsz` limbs (zero padded), which is what the size rule of the product sees
            let bound = pasz + pbsz - 1;
            let off = cnv_offset.min(bound);
            for rl in 0..rsz {
                let mut acc = Acc::like(&acc0);
                if rl < rsz.min(bound) {
                    let t = rl + off;
                    for i in 0..ea {
                        if t >= i && t - i < eb {
                            acc.add_mul(&left_limb(i), &right_limb(t - i));
                        }
                    }
                }
                if let Some(m) = acc.mismatch(&got[rl]) {
                    fail!("limb {rl}: {m}");
                }
            }
        }
        // ------------------------------------------------------------------ chains of in-place DFT-domain operations on one accumulator
        "dft_chain" => {
            let len = rng.usize_in(2, 6);
            let sz = rng.usize_in(1, 4);
            let bits = max_bits_a(n, len + 1, 1).min(if IS_FFT64 { 48 } else { 58 }).saturating_sub(3).max(2);
            let mut r0 = VBuf::new(n, 1, sz, sz);
            fill_class(&mut r0, rng, bits, class_a);
            let mut acc_model: Vec<Vec<i128>> = (0..sz).map(|j| r0.poly(0, j).iter().map(|x| *x as i128).collect()).collect();
            let mut res = to_dft(module, &r0);
            let mut steps: Vec<String> = Vec::new();
            let mut failed: Option<String> = None;
            for t in 0..len {
                let mut x = VBuf::new(n, 1, sz, sz);
                fill_class(&mut x, rng, bits, if t % 2 == 0 { class_b } else { "uniform" });
                let xd = to_dft(module, &x);
                let kind = *rng.pick(&["add", "sub", "sub_negate"]);
                steps.push(kind.to_string());
                let r = guarded(|| match kind {
                    "add" => module.vec_znx_dft_add_assign(&mut res.view(), 0, &xd.rview(), 0),
                    "sub" => module.vec_znx_dft_sub_assign(&mut res.view(), 0, &xd.rview(), 0),
                    _ => module.vec_znx_dft_sub_negate_assign(&mut res.view(), 0, &xd.rview(), 0),
                });
                if let Err(p) = r {
                    failed = Some(format!("panic at step {t} ({kind}): {p}"));
                    break;
                }
                for j in 0..sz {
                    for (m, v) in acc_model[j].iter_mut().zip(x.poly(0, j)) {
                        *m = match kind {
                            "add" => *m + *v as i128,
                            "sub" => *m - *v as i128,
                            _ => *v as i128 - *m,
                        };
                    }
                }
            }
            desc.put("size", sz);
            desc.put("bits", bits);
            desc.put("steps", steps.join(","));
            let key = format!("{BE_NAME}|{n}|{sz}|{}|{class_a}|{class_b}", steps.join(""));
            rep.case(op, &key, class_a != "zero" || class_b != "zero");
            rep.sample_for_op(&format!("{BE_NAME}:{op}"), || desc.clone());
            if let Some(f) = failed {
                fail!("{f}");
            }
            let got = idft_col(module, &res, 0, &mut sw);
            for j in 0..sz {
                if got[j] != acc_model[j] {
                    let i = (0..n).find(|i| got[j][*i] != acc_model[j][*i]).unwrap();
                    fail!("after the chain, limb {j} coefficient {i}: got {} want {}", got[j][i], acc_model[j][i]);
                }
            }
        }
        // ------------------------------------------------------------------ DFT-domain linear operations
        _ => {
            let (ac, bc, rc) = (rng.usize_in(1, 3), rng.usize_in(1, 3), rng.usize_in(1, 3));
            let (acol, bcol, rcol) = (rng.usize_in(0, ac - 1), rng.usize_in(0, bc - 1), rng.usize_in(0, rc - 1));
            let (asz, bsz, rsz) = (rng.usize_in(1, 6), rng.usize_in(1, 6), rng.usize_in(1, 6));
            let bits = max_bits_a(n, 2, 1).min(if IS_FFT64 { 49 } else { 61 });
            let mut a = VBuf::new(n, ac, asz, asz);
            fill_class(&mut a, rng, bits, class_a);
            let mut b = VBuf::new(n, bc, bsz, bsz);
            fill_class(&mut b, rng, bits, class_b);
            let mut r0 = VBuf::new(n, rc, rsz, rsz);
            fill_class(&mut r0, rng, bits, "uniform");
            let step = rng.usize_in(1, 3);
            let offset = rng.usize_in(0, asz + 1);
            let scale = rng.i64_in(-(rsz as i64) - 1, asz as i64 + 1);
            desc.put("a_size", asz);
            desc.put("b_size", bsz);
            desc.put("res_size", rsz);
            desc.put("step", step);
            desc.put("offset", offset);
            desc.put("a_scale", scale);
            desc.put("res_cols", rc);
            desc.put("res_col", rcol);
            let key = format!("{BE_NAME}|{n}|{asz}|{bsz}|{rsz}|{step}|{offset}|{scale}|{rc}{rcol}|{class_a}|{class_b}");
            rep.case(op, &key, class_a != "zero");
            rep.sample_for_op(&format!("{BE_NAME}:{op}"), || desc.clone());
            let ad = to_dft(module, &a);
            let bd = to_dft(module, &b);
            let mut res = to_dft(module, &r0);
            let r = guarded(|| match op {
                "dft_add_into" => module.vec_znx_dft_add_into(&mut res.view(), rcol, &ad.rview(), acol, &bd.rview(), bcol),
                "dft_add_assign" => module.vec_znx_dft_add_assign(&mut res.view(), rcol, &ad.rview(), acol),
                "dft_sub" => module.vec_znx_dft_sub(&mut res.view(), rcol, &ad.rview(), acol, &bd.rview(), bcol),
                "dft_sub_assign" => module.vec_znx_dft_sub_assign(&mut res.view(), rcol, &ad.rview(), acol),
                "dft_sub_negate_assign" => module.vec_znx_dft_sub_negate_assign(&mut res.view(), rcol, &ad.rview(), acol),
                "dft_add_scaled_assign" => module.vec_znx_dft_add_scaled_assign(&mut res.view(), rcol, &ad.rview(), acol, scale),
                "dft_copy" => module.vec_znx_dft_copy(step, offset, &mut res.view(), rcol, &ad.rview(), acol),
                "dft_zero" => module.vec_znx_dft_zero(&mut res.view(), rcol),
                _ => unreachable!("{op}"),
            });
            if let Err(p) = r {
                fail!("panic: {p}");
            }
            let got = idft_col(module, &res, rcol, &mut sw);
            let zero = vec![0i64; n];
            let al = |j: usize| if j < asz { a.poly(acol, j) } else { &zero[..] };
            let bl = |j: usize| if j < bsz { b.poly(bcol, j) } else { &zero[..] };
            for j in 0..rsz {
                let pre = r0.poly(rcol, j);
                let mut acc = Acc::new(n.min(256), rng);
                acc.n = n;
                acc.idx = (0..n).collect();
                acc.val = vec![0; n];
                match op {
                    "dft_add_into" => { acc.add_poly(al(j), 1); acc.add_poly(bl(j), 1) }
                    "dft_add_assign" => { acc.add_poly(pre, 1); acc.add_poly(al(j), 1) }
                    "dft_sub" => { acc.add_poly(al(j), 1); acc.add_poly(bl(j), -1) }
                    "dft_sub_assign" => { acc.add_poly(pre, 1); acc.add_poly(al(j), -1) }
                    "dft_sub_negate_assign" => { acc.add_poly(al(j), 1); acc.add_poly(pre, -1) }
                    "dft_add_scaled_assign" => {
                        acc.add_poly(pre, 1);
                        // res limb j receives a limb j + scale
                        let src = j as i64 + scale;
                        if src >= 0 && (src as usize) < asz {
                            // For a_scale > 0 and a.size > res.size the library stops at min(a.size, res.size) - a_scale limbs
                            // although the input has more limbs to give; the trait documentation does not say which is meant,
                            // so both outcomes are accepted there (no call site in the workspace uses the operation).
                            let narrow = scale > 0 && asz > rsz && j + scale as usize >= rsz.min(asz);
                            if narrow {
                                let mut alt = Acc::like(&acc);
                                alt.val = acc.val.clone();
                                if alt.mismatch(&got[j]).is_none() {
                                    continue;
                                }
                            }
                            acc.add_poly(a.poly(acol, src as usize), 1)
                        }
                    }
                    "dft_copy" => {
                        let limb = offset + j * step;
                        if j < asz.div_ceil(step) && limb < asz { acc.add_poly(a.poly(acol, limb), 1) }
                    }
                    _ => {}
                }
                if let Some(m) = acc.mismatch(&got[j]) {
                    fail!("limb {j}: {m}");
                }
            }
        }
    }
}
