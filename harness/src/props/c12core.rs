// C12 (scheme layer) — the declared scratch size suffices and scratch contents never matter.
// Oracle: every scratch-taking case of the core_ops catalogue runs with a scratch window of exactly the bytes its companion
// `*_tmp_bytes` query returns (flush against the end of a guarded allocation), from two garbage fills of window and destination:
// no panic for lack of space, guards intact, identical destination bytes, read-only operands untouched.
// A panic "Attempted to take ... from scratch" / "scratch.available() < ..." means the declared size is insufficient: it is reported
// with class = "scratch_query_too_small" and desc.scratch_op = <operation>; the case is then repeated with a generous window so that
// the content-independence check still runs.
// mode "uninit": the window is handed over uninitialised and every output byte is folded through a branch (memcheck / Miri).

fn is_scratch_panic(p: &str) -> bool {
    p.contains("from scratch") || p.contains("scratch.available()") || p.contains("Attempted to take")
}

pub fn run(cfg: &Cfg, rep: &mut Report) {
    let mut rng = cfg.rng(&format!("c12core-{BE_NAME}"));
    let uninit = cfg.mode == "uninit";
    let nb = if cfg!(feature = "avx") { 4 } else { 2 };
    let total = cfg.budget(2_000_000, 60_000_000) / nb;
    let total = if uninit { (total / 2500).max(if cfg!(debug_assertions) { 6 } else { 24 }) } else { total };
    let only = cfg.extra.get("op").cloned();
    let sched: Vec<&str> = c11core::ops_schedule()
        .into_iter()
        .filter(|o| core_ops::takes_scratch(o) && (!uninit || core_ops::tiny_ok(o)))
        .filter(|o| only.as_deref().map(|x| x.split(',').any(|y| y == *o)).unwrap_or(true))
        .collect();
    if sched.is_empty() {
        return;
    }
    for it in 0..total {
        let op = sched[(it as usize * 7 + rng.below(3) as usize) % sched.len()];
        let seed = match cfg.extra.get("case_seed") {
            Some(s) => s.parse().unwrap_or(0),
            None => rng.next_u64(),
        };
        let mode = if uninit { core_ops::ScratchMode::ExactUninit } else { core_ops::ScratchMode::Exact };
        let mk = |fill: u64, scratch| core_ops::Opts { fill_seed: fill, scratch, fold: uninit, tiny: uninit, misalign: 0 };
        let opts: Vec<core_ops::Opts> = if uninit { vec![mk(0xaaaa, mode)] } else { vec![mk(0xaaaa, mode), mk(0xbbbb_0001, mode)] };
        let mut outs = core_ops::run_cases(op, seed, &opts);
        if let Some(e) = &outs[0].setup_error {
            rep.count("setup_panics", 1);
            if rep.notes.len() < 20 {
                rep.notes.push(format!("setup panic in {op} (case_seed {seed}): {e} :: {}", outs[0].desc.render()));
            }
            continue;
        }
        if outs[0].key.is_empty() {
            rep.count("skipped_shapes", 1);
            continue;
        }
        let mut d = outs[0].desc.clone();
        d.put("tmp_bytes", outs[0].tmp_bytes);
        rep.case(op, &outs[0].key, outs[0].nontrivial);
        rep.sample_for_op(&format!("{BE_NAME}:{op}"), || d.clone());
        rep.count("exact_windows", 1);
        rep.count(&format!("pair:{op}"), 1);
        // declared scratch insufficient?
        if let Some(p) = outs.iter().find_map(|o| o.panic.clone()).filter(|p| is_scratch_panic(p)) {
            let mut dd = d.clone();
            dd.put("class", "scratch_query_too_small");
            dd.put("scratch_op", op);
            rep.count("scratch_query_too_small", 1);
            rep.violate(&format!("{op}:exact_scratch"), dd, format!("panic with a scratch window of exactly the declared {} bytes: {p}", outs[0].tmp_bytes));
            // functional part with a generous window
            let g: Vec<core_ops::Opts> = opts.iter().map(|o| core_ops::Opts { scratch: core_ops::ScratchMode::Generous, ..o.clone() }).collect();
            outs = core_ops::run_cases(op, seed, &g);
            rep.count("generous_retries", 1);
        }
        let mut bad = false;
        for o in outs.iter() {
            if let Some(p) = &o.panic {
                rep.violate(op, d.clone(), format!("panic: {p}"));
                bad = true;
                break;
            }
            if let Some(s) = &o.guard_hit {
                let mut dd = d.clone();
                dd.put("class", "scratch_overrun");
                dd.put("scratch_op", op);
                rep.violate(op, dd, format!("memory outside the buffers touched: {s}"));
                bad = true;
                break;
            }
            if let Some(s) = &o.ro_changed {
                rep.violate(op, d.clone(), format!("stray write: {s}"));
                bad = true;
                break;
            }
        }
        if bad {
            continue;
        }
        if uninit {
            rep.count("folded", outs[0].folded as i128 & 1);
            continue;
        }
        if outs[0].bytes != outs[1].bytes {
            let pos = outs[0].bytes.iter().zip(&outs[1].bytes).position(|(a, b)| a != b).unwrap_or(0);
            let mut dd = d.clone();
            dd.put("class", "result_depends_on_scratch_content");
            dd.put("first_diff_byte", pos);
            rep.violate(op, dd, format!("result depends on the bytes the scratch / destination held before the call (first differing byte {pos} of {})", outs[0].bytes.len()));
        }
    }
}
