// C11 (scheme layer) — outputs of poulpy-core / CMux / CKKS operations are fully determined by their inputs.
// Oracle: every case of the core_ops catalogue runs twice on the same keys and operands, from two independent garbage fills of
// the destination (whole data buffer) and of a generous scratch window: destination bytes must agree, read-only operands
// (input ciphertexts, plaintexts, prepared keys, secrets) must be byte-identical before/after, canary guards must be intact.

pub fn ops_schedule() -> Vec<&'static str> {
    let mut v = Vec::new();
    for op in core_ops::CORE_OPS {
        for _ in 0..core_ops::op_weight(op) {
            v.push(*op);
        }
    }
    v
}

pub fn run(cfg: &Cfg, rep: &mut Report) {
    let mut rng = cfg.rng(&format!("c11core-{BE_NAME}"));
    let nb = if cfg!(feature = "avx") { 4 } else { 2 };
    let total = cfg.budget(1_000_000, 30_000_000) / nb;
    let only = cfg.extra.get("op").cloned();
    let sched: Vec<&str> = ops_schedule().into_iter().filter(|o| only.as_deref().map(|x| x.split(',').any(|y| y == *o)).unwrap_or(true)).collect();
    for it in 0..total {
        let op = sched[(it as usize * 7 + rng.below(3) as usize) % sched.len()];
        let seed = match cfg.extra.get("case_seed") {
            Some(s) => s.parse().unwrap_or(0),
            None => rng.next_u64(),
        };
        let opts = [core_ops::Opts { fill_seed: 0x1111, ..Default::default() }, core_ops::Opts { fill_seed: 0x2222_7777, ..Default::default() }];
        let outs = core_ops::run_cases(op, seed, &opts);
        let (o1, o2) = (&outs[0], &outs[1]);
        if let Some(e) = &o1.setup_error {
            rep.count("setup_panics", 1);
            if rep.notes.len() < 20 {
                rep.notes.push(format!("setup panic in {op} (case_seed {seed}): {e} :: {}", o1.desc.render()));
            }
            continue;
        }
        if o1.key.is_empty() {
            rep.count("skipped_shapes", 1);
            continue;
        }
        rep.case(op, &o1.key, o1.nontrivial);
        rep.sample_for_op(&format!("{BE_NAME}:{op}"), || o1.desc.clone());
        rep.count("double_runs", 1);
        rep.count(&format!("op:{op}"), 1);
        if op.starts_with("ckks_") {
            rep.count(if o1.bytes.starts_with(b"ok") { "ckks_status_ok" } else { "ckks_status_err" }, 1);
        }
        let mut bad = false;
        for o in [o1, o2] {
            if let Some(p) = &o.panic {
                rep.violate(op, o.desc.clone(), format!("panic: {p}"));
                bad = true;
                break;
            }
            if let Some(s) = &o.ro_changed {
                rep.violate(op, o.desc.clone(), format!("stray write: {s}"));
                bad = true;
                break;
            }
            if let Some(s) = &o.guard_hit {
                rep.violate(op, o.desc.clone(), format!("stray write: {s}"));
                bad = true;
                break;
            }
        }
        if !bad && o1.bytes != o2.bytes {
            let pos = o1.bytes.iter().zip(&o2.bytes).position(|(a, b)| a != b).unwrap_or(o1.bytes.len().min(o2.bytes.len()));
            let mut d = o1.desc.clone();
            d.put("first_diff_byte", pos);
            d.put("out_bytes", o1.bytes.len());
            rep.violate(op, d, format!("destination depends on the previous contents of the destination / scratch buffers (first differing byte {pos} of {})", o1.bytes.len()));
        }
    }
}
