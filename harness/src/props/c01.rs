// C01 — encrypt-then-decrypt returns the message up to the configured bounded error.
//
// Oracles (all exact, big-integer, from the ciphertext limbs and the clear secret):
//  (i)   err = centre(phase(ct, s) - value(pt)) satisfies the hard bound implied by the configured NoiseInfos:
//        sk / compressed / LWE / zero:  |err| <= round(bound*scale) units of the noise limb  (+1 unit of the ciphertext's
//        last limb when the plaintext has more limbs than the ciphertext and is therefore truncated);
//        pk:  |err| <= round(bound*scale) * (1 + max||u||_1 + sum_i ||s_i||_1)   (u*e_pk + e_0 + sum e_i*s_i);
//  (ii)  the library's decryption into a plaintext of ANY radix / precision differs from the exact phase by at most one
//        unit of that plaintext's last limb;
//  (iii) decrypt(encrypt(m)) - m (same layout) is within hard bound + 1 unit, coefficient by coefficient (so the message is
//        in the right coefficient / limb / column).
// Every library call gets a scratch window of exactly its declared size.

#[derive(Clone, Debug)]
struct P {
    case: u64,
    mode: &'static str,
    n: usize,
    rank: usize,
    b: usize,
    size: usize,
    k: usize,
    dist: SDist,
    msg: Msg,
    pt_size: usize,
    noise: NoiseP,
    dec_b: usize,
    dec_size: usize,
    n_lwe: usize,
}

const MODES: &[&str] = &["sk", "sk", "sk", "sk", "sk", "sk", "sk", "zero_sk", "pk", "pk", "pk", "pk", "zero_pk", "compressed", "compressed", "compressed", "compressed", "lwe", "lwe", "lwe"];

impl P {
    fn make(case: u64, thorough: bool, forced_mode: Option<&'static str>, grid: Option<(usize, usize, usize, usize)>) -> P {
        let mut rng = Rng::new(case, 0xc01);
        let mode = forced_mode.unwrap_or(*rng.pick(MODES));
        let (mut n, mut rank) = {
            let r = rng.below(100);
            let n = if r < 80 {
                *rng.pick(&[8usize, 16, 32, 64])
            } else if r < 97 || !thorough {
                256
            } else {
                1024
            };
            (n, rng.usize_in(0, 3))
        };
        let mut kind = rng.usize_in(0, SDIST_KINDS - 1);
        let mut msg = *rng.pick(&MSGS);
        if let Some((gn, grank, gkind, gmsg)) = grid {
            n = gn;
            rank = grank;
            kind = gkind;
            msg = MSGS[gmsg];
        }
        let bmax = max_base2k(n, 2);
        let b = match rng.below(10) {
            0 => *rng.pick(&[1usize, 2, 3]),
            1 => bmax - rng.usize_in(0, 1),
            _ => rng.usize_in(1, bmax),
        };
        // mostly 1..5 limbs; small radices also get long ciphertexts (6..20 limbs) so that a decryption into a plaintext of much
        // larger radix has far fewer limbs than the ciphertext
        let size = if b <= 12 && rng.below(6) == 0 { rng.usize_in(6, 20) } else { *rng.pick(&[1usize, 1, 2, 2, 2, 3, 3, 4, 5]) };
        let k = match rng.below(4) {
            0 => b * (size - 1) + 1,
            1 => (b * size - 1).max(b * (size - 1) + 1),
            2 => b * size,
            _ => b * (size - 1) + 1 + rng.usize_in(0, b - 1),
        };
        let dist = SDist::pick(kind, if mode == "lwe" { 1 } else { n }, &mut rng);
        let pt_size = match rng.below(3) {
            0 => size,
            1 => rng.usize_in(1, size),
            _ => size + rng.usize_in(1, 2),
        };
        let noise = match rng.below(10) {
            0 => {
                let (sigma, bound) = *rng.pick(&[(1.0, 1.0), (8.0, 48.0), (3.2, 3.2), (100.0, 600.0), (1.5, 19.2)]);
                NoiseP { k, sigma, bound }
            }
            1 => NoiseP::default_at(rng.usize_in(1, k)),
            _ => NoiseP::default_at(k),
        };
        let dec_bmax = 52usize;
        let dec_b = if rng.coin() { b } else { rng.usize_in(1, dec_bmax) };
        let dec_size = rng.usize_in(1, 6);
        let n_lwe = *rng.pick(&[1usize, 2, 7, 22, 77, 256, 500, 0, 0, 0]);
        let n_lwe = if n_lwe == 0 { rng.usize_in(1, 700) } else { n_lwe };
        let mut p = P { case, mode, n, rank, b, size, k, dist, msg, pt_size, noise, dec_b, dec_size, n_lwe };
        if mode == "lwe" {
            p.dist = SDist::pick(kind, 1, &mut rng);
            // parameters of the secret distribution refer to the LWE dimension
            p.dist = match SDist::pick(kind, p.n_lwe, &mut rng) {
                SDist::BinaryBlock(_) => {
                    // block size must divide the dimension
                    let divs: Vec<usize> = (1..=p.n_lwe).filter(|d| p.n_lwe % d == 0).collect();
                    SDist::BinaryBlock(*rng.pick(&divs))
                }
                d => d,
            };
            p.rank = 0;
        }
        p
    }

    fn desc(&self) -> J {
        jo! {"backend" => BE_NAME, "mode" => self.mode, "case" => format!("{:#x}", self.case), "n" => self.n, "rank" => self.rank, "base2k" => self.b,
        "size" => self.size, "k" => self.k, "k_mod_base2k" => self.k % self.b, "dist" => self.dist.name(), "dist_kind" => self.dist.kind(), "msg" => self.msg.name(),
        "pt_size" => self.pt_size, "noise_k" => self.noise.k, "sigma" => self.noise.sigma, "bound" => self.noise.bound,
        "dec_base2k" => self.dec_b, "dec_size" => self.dec_size, "n_lwe" => self.n_lwe}
    }

    fn key(&self) -> String {
        format!(
            "{BE_NAME}|{}|{}|{}|{}|{}|{}|{}|{}|{}|{}|{:?}|{}|{}|{}",
            self.mode,
            self.n,
            self.rank,
            self.b,
            self.k,
            self.dist.kind(),
            self.msg.name(),
            self.pt_size,
            self.noise.k,
            self.noise.sigma,
            self.noise.bound,
            self.dec_b,
            self.dec_size,
            if self.mode == "lwe" { self.n_lwe } else { 0 }
        )
    }
}

fn seeds(case: u64) -> ([u8; 32], [u8; 32], [u8; 32], [u8; 32]) {
    (seed_from(case, 1), seed_from(case, 2), seed_from(case, 3), seed_from(case, 4))
}

pub fn run(cfg: &Cfg, rep: &mut Report) {
    if let Some(c) = cfg.extra.get("case") {
        let case = u64::from_str_radix(c.trim_start_matches("0x"), 16).expect("--case hex");
        let p = P::make(case, cfg.thorough, None, None);
        eprintln!("replaying {:?}", p);
        one_case(&p, rep);
        return;
    }
    let mut rng = cfg.rng(&format!("c01-{BE_NAME}"));
    // ---- covering grid (independent of the seed, sharded by index): every (N, rank, secret distribution, message class)
    let ns: &[usize] = if cfg.thorough { &[8, 16, 32, 64, 256, 1024] } else { &[8, 16, 32, 64, 256] };
    let mut idx = 0u64;
    for &n in ns {
        for rank in 0..4usize {
            for kind in 0..SDIST_KINDS {
                for m in 0..MSGS.len() {
                    idx += 1;
                    if idx % cfg.nshards != cfg.shard {
                        continue;
                    }
                    if n >= 256 && !cfg.thorough && (idx / cfg.nshards) % 4 != 0 {
                        continue;
                    }
                    let mode = ["sk", "pk", "compressed", "zero_sk", "zero_pk"][(idx as usize / 7) % 5];
                    let mode = if m != 0 && mode.starts_with("zero") { "sk" } else { mode };
                    let case = fnv(&format!("c01-grid-{BE_NAME}-{idx}"));
                    let p = P::make(case, cfg.thorough, Some(mode), Some((n, rank, kind, m)));
                    one_case(&p, rep);
                }
            }
        }
    }
    rep.count("grid_done", 1);
    // ---- random part
    let total = cfg.budget(1_200_000, 24_000_000) / 4;
    for _ in 0..total {
        let case = rng.next_u64();
        let p = P::make(case, cfg.thorough, None, None);
        one_case(&p, rep);
    }
}

fn one_case(p: &P, rep: &mut Report) {
    let nontrivial = !(p.msg == Msg::Zero && p.dist == SDist::Zero);
    rep.case(&format!("enc_{}", p.mode), &p.key(), nontrivial);
    rep.sample_for_op(&format!("{BE_NAME}:{}", p.mode), || p.desc());
    rep.count(&format!("mode:{}", p.mode), 1);
    rep.count(&format!("dist:{}", p.dist.kind()), 1);
    rep.count(&format!("msg:{}", p.msg.name()), 1);
    rep.count(&format!("rank:{}", p.rank), 1);
    if p.k % p.b != 0 {
        rep.count("k_not_multiple_of_base2k", 1);
    }
    if p.mode == "lwe" {
        lwe_case(p, rep);
    } else {
        glwe_case(p, rep);
    }
}

fn abs_le(x: &Big, bound: &Big) -> bool {
    abs(x) <= *bound
}

/// |x| / 2^unit_log as f64
fn units(x: &Big, unit_log: usize) -> f64 {
    ratio_units(x, unit_log)
}

fn glwe_case(p: &P, rep: &mut Report) {
    let module = cached_module(p.n);
    let op = format!("enc_{}", p.mode);
    let (ss, sa, se, su) = seeds(p.case);
    let mut rng = Rng::new(p.case, 0xc0101);
    let key = match guarded(|| gen_glwe_key(module, p.n, p.rank, p.dist, ss)) {
        Ok(k) => k,
        Err(e) => {
            rep.violate(&op, p.desc(), format!("panic in secret generation / preparation: {e}"));
            return;
        }
    };
    let layout = GLWELayout { n: Degree(p.n as u32), base2k: Base2K(p.b as u32), k: TorusPrecision(p.k as u32), rank: Rank(p.rank as u32) };
    let enc = match EncryptionLayout::new(layout, p.noise.infos()) {
        Ok(e) => e,
        Err(e) => {
            rep.inconclusive.push(format!("EncryptionLayout::new rejected {:?}: {e}", p));
            return;
        }
    };
    // plaintext (zero modes keep an all-zero reference plaintext)
    let zero_mode = p.mode.starts_with("zero");
    let mut pt: GLWEPlaintext<Vec<u8>> = GLWEPlaintext::alloc(Degree(p.n as u32), Base2K(p.b as u32), TorusPrecision((p.pt_size * p.b) as u32));
    if !zero_mode {
        fill_message(&mut pt.data, p.b, p.msg, &mut rng);
    }
    let ptc = Ct::from_znx(&pt.data, p.b);

    // receiver pre-filled with garbage digits
    let mut ct: GLWE<Vec<u8>> = GLWE::alloc_from_infos(&layout);
    ct.data_mut().fill_uniform(p.b, &mut Source::new(seed_from(p.case, 9)));

    let mut u_l1_max: u64 = 0;
    let r: Result<(), String> = match p.mode {
        "sk" => {
            let need = module.glwe_encrypt_sk_tmp_bytes(&layout);
            exact_scratch(rep, &op, "glwe_encrypt_sk", need, &p.desc(), |sc| {
                module.glwe_encrypt_sk(&mut ct, &pt, &key.prep, &enc, &mut Source::new(se), &mut Source::new(sa), sc)
            })
        }
        "zero_sk" => {
            let need = module.glwe_encrypt_sk_tmp_bytes(&layout);
            exact_scratch(rep, &op, "glwe_encrypt_zero_sk", need, &p.desc(), |sc| {
                module.glwe_encrypt_zero_sk(&mut ct, &key.prep, &enc, &mut Source::new(se), &mut Source::new(sa), sc)
            })
        }
        "compressed" => {
            let mut ctc: GLWECompressed<Vec<u8>> = GLWECompressed::alloc_from_infos(&layout);
            let need = module.glwe_compressed_encrypt_sk_tmp_bytes(&layout);
            let r = exact_scratch(rep, &op, "glwe_compressed_encrypt_sk", need, &p.desc(), |sc| {
                module.glwe_compressed_encrypt_sk(&mut ctc, &pt, &key.prep, sa, &enc, &mut Source::new(se), sc)
            });
            match r {
                Ok(()) => guarded(|| module.decompress_glwe(&mut ct, &ctc)),
                Err(e) => Err(e),
            }
        }
        "pk" | "zero_pk" => {
            // public key = encryption of zero under the same noise parameters
            let mut pk: GLWEPublicKey<Vec<u8>> = GLWEPublicKey::alloc_from_infos(&layout);
            let r = guarded(|| module.glwe_public_key_generate(&mut pk, &key.prep, &enc, &mut Source::new(seed_from(p.case, 5)), &mut Source::new(seed_from(p.case, 6))));
            match r {
                Err(e) => Err(format!("glwe_public_key_generate: {e}")),
                Ok(()) => {
                    // the public key itself is a fresh encryption of zero: oracle (i)
                    let pkc = glwe_ct(&pk);
                    let e = phase_glwe(&pkc, &key.s);
                    let hard = p.noise.hard_units(p.b, pkc.size);
                    if let Some(i) = e.iter().position(|x| !abs_le(x, &hard)) {
                        let mut d = p.desc();
                        d.put("check", "pk_is_encryption_of_zero");
                        rep.violate(&op, d, format!("public key coefficient {i}: |phase| = {:.3} units of the last limb > hard bound {}", units(&e[i], 0), hard));
                    }
                    rep.case("pk_generate", &p.key(), true);
                    let mut pkp: GLWEPublicKeyPrepared<DeviceBuf<BE>, BE> = module.glwe_public_key_prepared_alloc_from_infos(&layout);
                    match guarded(|| module.glwe_public_key_prepare(&mut pkp, &pk)) {
                        Err(e) => Err(format!("glwe_public_key_prepare: {e}")),
                        Ok(()) => {
                            u_l1_max = p.dist.max_l1(p.n);
                            let need = module.glwe_encrypt_pk_tmp_bytes(&layout);
                            if p.mode == "pk" {
                                exact_scratch(rep, &op, "glwe_encrypt_pk", need, &p.desc(), |sc| {
                                    module.glwe_encrypt_pk(&mut ct, &pt, &pkp, &enc, &mut Source::new(su), &mut Source::new(se), sc)
                                })
                            } else {
                                exact_scratch(rep, &op, "glwe_encrypt_zero_pk", need, &p.desc(), |sc| {
                                    module.glwe_encrypt_zero_pk(&mut ct, &pkp, &enc, &mut Source::new(su), &mut Source::new(se), sc)
                                })
                            }
                        }
                    }
                }
            }
        }
        _ => unreachable!(),
    };
    if let Err(e) = r {
        rep.violate(&op, p.desc(), format!("panic: {e}"));
        return;
    }

    // ---------- (i) exact error against the hard bound
    let c = glwe_ct(&ct);
    if c.size != p.size || c.cols != p.rank + 1 {
        rep.violate(&op, p.desc(), format!("ciphertext shape changed: size {} cols {} (expected {} / {})", c.size, c.cols, p.size, p.rank + 1));
        return;
    }
    let ph = phase_glwe(&c, &key.s); // units 2^-(size*b)
    let ct_bits = c.bits();
    let pt_bits = ptc.bits();
    let w = ct_bits.max(pt_bits);
    let is_pk = p.mode == "pk" || p.mode == "zero_pk";
    let factor: u64 = if is_pk { 1 + u_l1_max + key.l1() } else { 1 };
    let mut hard = upscale(&(p.noise.hard_units(p.b, p.size) * Big::from(factor)), ct_bits, w);
    if p.pt_size > p.size {
        hard += pow2(w - ct_bits); // the plaintext is truncated to the ciphertext's limbs
    }
    let bound_f = p.noise.bound * (-(p.noise.k as f64)).exp2();
    let mut worst = 0f64;
    let mut first_bad: Option<(usize, f64)> = None;
    let mut errs: Vec<Big> = Vec::with_capacity(p.n);
    for i in 0..p.n {
        let m = if zero_mode { Big::from(0) } else { col_value(&ptc, 0, i, w) };
        let e = centre(&(upscale(&ph[i], ct_bits, w) - m), w);
        let ratio = units(&e, w) / bound_f / factor as f64;
        if ratio > worst {
            worst = ratio;
        }
        if !abs_le(&e, &hard) && first_bad.is_none() {
            first_bad = Some((i, units(&e, w) / bound_f));
        }
        errs.push(e);
    }
    // below k ~ 6 the bound exceeds 1/2 and the centred error wraps: the check is vacuous there (not counted as calibration)
    let calib = p.noise.k >= 10 && p.pt_size <= p.size && p.noise.sigma == SIGMA && p.noise.bound == BOUND;
    if calib && !(is_pk && p.dist == SDist::Zero) {
        rep.maxf(if is_pk { "pk_err_over_bound_times_norms" } else { "sk_err_over_bound" }, worst);
    }
    if let Some((i, r)) = first_bad {
        let mut d = p.desc();
        d.put("check", "error_bound");
        d.put("norm_factor", factor);
        rep.count(&format!("viol:error_bound:{}:{}", p.mode, if p.dist == SDist::Zero { "zero_secret" } else { "nonzero_secret" }), 1);
        rep.violate(&op, d, format!("coefficient {i}: |phase - message| = {r:.3} * bound*2^-k exceeds the hard bound (factor {factor}); worst ratio {worst:.3}"));
        return;
    }
    if errs.iter().all(|e| *e == Big::from(0)) && p.noise.k <= ct_bits && p.n >= 8 && p.noise.bound >= 3.0 {
        // not a C01 event (C06 decides on "no noise"), only recorded
        rep.count("all_errors_zero", 1);
    }

    // ---------- (ii) library decryption vs exact phase, into plaintexts of other radix / precision
    let need_d = module.glwe_decrypt_tmp_bytes(&layout);
    for variant in 0..2 {
        let (db, ds) = if variant == 0 { (p.b, p.size) } else { (p.dec_b, p.dec_size) };
        let mut pt2: GLWEPlaintext<Vec<u8>> = GLWEPlaintext::alloc(Degree(p.n as u32), Base2K(db as u32), TorusPrecision((ds * db) as u32));
        pt2.data.fill_uniform(db.min(60), &mut Source::new(seed_from(p.case, 10 + variant)));
        let r = exact_scratch(rep, &op, "glwe_decrypt", need_d, &p.desc(), |sc| module.glwe_decrypt(&ct, &mut pt2, &key.prep, sc));
        rep.case("decrypt", &format!("{}|{variant}", p.key()), nontrivial_dec(p));
        if let Err(e) = r {
            let mut d = p.desc();
            d.put("check", "decrypt");
            d.put("variant", variant);
            rep.violate("decrypt", d, format!("panic: {e}"));
            continue;
        }
        let d2 = Ct::from_znx(&pt2.data, db);
        let dbits = d2.bits();
        let w2 = dbits.max(ct_bits);
        let unit = pow2(w2 - dbits);
        let mut worst_d = 0f64;
        for i in 0..p.n {
            let got = col_value(&d2, 0, i, w2);
            let diff = centre(&(got - upscale(&ph[i], ct_bits, w2)), w2);
            let u = units(&diff, w2 - dbits);
            if u > worst_d {
                worst_d = u;
            }
            if !abs_le(&diff, &unit) {
                let mut d = p.desc();
                d.put("check", "decrypt_vs_phase");
                d.put("variant", variant);
                d.put("cross_radix", db != p.b);
                d.put("truncating", dbits < ct_bits);
                rep.violate("decrypt", d, format!("coefficient {i}: decrypted value differs from the exact phase by {u:.4} units of the plaintext's last limb (radix 2^{db}, {ds} limbs)"));
                break;
            }
        }
        rep.maxf(if db == p.b { "decrypt_dev_units_same_radix" } else { "decrypt_dev_units_cross_radix" }, worst_d);
        if db != p.b {
            rep.count("decrypt_cross_radix", 1);
        }
        // ---------- (iii) round trip: decrypt(encrypt(m)) vs m, same layout
        if variant == 0 {
            let w3 = w;
            let mut tol = upscale(&(p.noise.hard_units(p.b, p.size) * Big::from(factor)), ct_bits, w3) + pow2(w3 - ct_bits);
            if p.pt_size > p.size {
                tol += pow2(w3 - ct_bits);
            }
            for i in 0..p.n {
                let m = if zero_mode { Big::from(0) } else { col_value(&ptc, 0, i, w3) };
                let got = col_value(&d2, 0, i, w3);
                let diff = centre(&(got - m), w3);
                if !abs_le(&diff, &tol) {
                    let mut d = p.desc();
                    d.put("check", "round_trip");
                    rep.violate(&op, d, format!("coefficient {i}: decrypt(encrypt(m)) - m = {:.3} * bound*2^-k", units(&diff, w3) / bound_f));
                    break;
                }
            }
            rep.count("round_trips", 1);
        }
    }
}

fn nontrivial_dec(p: &P) -> bool {
    !(p.msg == Msg::Zero && p.dist == SDist::Zero)
}

fn lwe_case(p: &P, rep: &mut Report) {
    let module = cached_module(p.n);
    let op = "enc_lwe";
    let (ss, sa, se, _) = seeds(p.case);
    let mut rng = Rng::new(p.case, 0xc0102);
    let key = match guarded(|| gen_lwe_key(p.n_lwe, p.dist, ss)) {
        Ok(k) => k,
        Err(e) => {
            rep.violate(op, p.desc(), format!("panic in LWE secret generation: {e}"));
            return;
        }
    };
    let layout = LWELayout { n: Degree(p.n_lwe as u32), k: TorusPrecision(p.k as u32), base2k: Base2K(p.b as u32) };
    let enc = match EncryptionLayout::new(layout, p.noise.infos()) {
        Ok(e) => e,
        Err(e) => {
            rep.inconclusive.push(format!("EncryptionLayout::new rejected {:?}: {e}", p));
            return;
        }
    };
    let mut pt: LWEPlaintext<Vec<u8>> = LWEPlaintext::alloc(Base2K(p.b as u32), TorusPrecision((p.pt_size * p.b) as u32));
    fill_message(pt.data_mut(), p.b, if p.msg == Msg::Single { Msg::Uniform } else { p.msg }, &mut rng);
    let ptc = Ct::from_znx(pt.data(), p.b);
    let mut ct: LWE<Vec<u8>> = LWE::alloc_from_infos(&layout);
    ct.data_mut().fill_uniform(p.b, &mut Source::new(seed_from(p.case, 9)));
    let need = module.lwe_encrypt_sk_tmp_bytes(&layout);
    let r = exact_scratch(rep, op, "lwe_encrypt_sk", need, &p.desc(), |sc| {
        module.lwe_encrypt_sk(&mut ct, &pt, &key.sk, &enc, &mut Source::new(se), &mut Source::new(sa), sc)
    });
    if let Err(e) = r {
        rep.violate(op, p.desc(), format!("panic: {e}"));
        return;
    }
    let c = Ct::from_znx(ct.data(), p.b);
    if c.size != p.size || c.n != p.n_lwe + 1 {
        rep.violate(op, p.desc(), format!("ciphertext shape changed: size {} n {}", c.size, c.n));
        return;
    }
    let ph = phase_lwe(&c, &key.s);
    let ct_bits = c.bits();
    let w = ct_bits.max(ptc.bits());
    let mut hard = upscale(&p.noise.hard_units(p.b, p.size), ct_bits, w);
    if p.pt_size > p.size {
        hard += pow2(w - ct_bits);
    }
    let bound_f = p.noise.bound * (-(p.noise.k as f64)).exp2();
    let m = col_value(&ptc, 0, 0, w);
    let e = centre(&(upscale(&ph, ct_bits, w) - &m), w);
    let ratio = units(&e, w) / bound_f;
    if p.noise.k >= 10 && p.pt_size <= p.size && p.noise.sigma == SIGMA && p.noise.bound == BOUND {
        rep.maxf("lwe_err_over_bound", ratio);
    }
    if !abs_le(&e, &hard) {
        let mut d = p.desc();
        d.put("check", "error_bound");
        rep.violate(op, d, format!("|phase - message| = {ratio:.3} * bound*2^-k exceeds the hard bound"));
        return;
    }
    // decryption
    let need_d = module.lwe_decrypt_tmp_bytes(&layout);
    for variant in 0..2 {
        let (db, ds) = if variant == 0 { (p.b, p.size) } else { (p.dec_b, p.dec_size) };
        let mut pt2: LWEPlaintext<Vec<u8>> = LWEPlaintext::alloc(Base2K(db as u32), TorusPrecision((ds * db) as u32));
        pt2.data_mut().fill_uniform(db.min(60), &mut Source::new(seed_from(p.case, 10 + variant)));
        let r = exact_scratch(rep, op, "lwe_decrypt", need_d, &p.desc(), |sc| module.lwe_decrypt(&ct, &mut pt2, &key.sk, sc));
        rep.case("decrypt_lwe", &format!("{}|{variant}", p.key()), true);
        if let Err(e) = r {
            let mut d = p.desc();
            d.put("check", "decrypt");
            d.put("variant", variant);
            rep.violate("decrypt_lwe", d, format!("panic: {e}"));
            continue;
        }
        let d2 = Ct::from_znx(pt2.data(), db);
        let dbits = d2.bits();
        let w2 = dbits.max(ct_bits);
        let got = col_value(&d2, 0, 0, w2);
        let diff = centre(&(got - upscale(&ph, ct_bits, w2)), w2);
        let u = units(&diff, w2 - dbits);
        rep.maxf(if db == p.b { "lwe_decrypt_dev_units_same_radix" } else { "lwe_decrypt_dev_units_cross_radix" }, u);
        if !abs_le(&diff, &pow2(w2 - dbits)) {
            let mut d = p.desc();
            d.put("check", "decrypt_vs_phase");
            d.put("variant", variant);
            d.put("cross_radix", db != p.b);
            d.put("truncating", dbits < ct_bits);
            rep.violate("decrypt_lwe", d, format!("decrypted value differs from the exact phase by {u:.4} units of the plaintext's last limb (radix 2^{db}, {ds} limbs)"));
            continue;
        }
        if variant == 0 {
            let tol = upscale(&p.noise.hard_units(p.b, p.size), ct_bits, w) + pow2(w - ct_bits) * Big::from(if p.pt_size > p.size { 2 } else { 1 });
            let got = col_value(&d2, 0, 0, w);
            let diff = centre(&(got - &m), w);
            if !abs_le(&diff, &tol) {
                let mut d = p.desc();
                d.put("check", "round_trip");
                rep.violate(op, d, format!("decrypt(encrypt(m)) - m = {:.3} * bound*2^-k", units(&diff, w) / bound_f));
            }
            rep.count("round_trips", 1);
        }
    }
}
