// C11 — outputs are fully determined by inputs: no stale data, no stray writes.
// Oracle: the same call from two independent garbage fills of every writable buffer (result incl. unselected
// columns and spare capacity, scratch): selected output bytes must agree, everything else must be unchanged.
// In the ASan flavour every byte outside the selected column is poisoned during the call.

pub fn run(cfg: &Cfg, rep: &mut Report) {
    let mut rng = cfg.rng(&format!("c11-{BE_NAME}"));
    let total = cfg.budget(240_000, 12_000_000) / 4;
    let ns_coef: &[usize] = if cfg!(debug_assertions) { &[2, 4, 8, 16, 32] } else { &[1, 2, 4, 8, 16, 32] }; // Module::new(1) trips an overflow check in debug builds only
    let ns_dft: &[usize] = if cfg!(debug_assertions) { &[8, 16] } else { &[8, 16, 32, 64] };
    let poison = cfg.mode == "poison";
    for it in 0..total {
        let op = hal_ops::HAL_OPS[(it as usize + rng.below(5) as usize) % hal_ops::HAL_OPS.len()];
        let n = if hal_ops::op_needs_dft(op) { *rng.pick(ns_dft) } else { *rng.pick(ns_coef) };
        let seed = rng.next_u64();
        let o1 = hal_ops::run_case(op, n, seed, &hal_ops::Opts { fill_seed: 0x1111, poison, ..Default::default() });
        if o1.key.is_empty() {
            continue;
        }
        let o2 = hal_ops::run_case(op, n, seed, &hal_ops::Opts { fill_seed: 0x2222_7777, poison, ..Default::default() });
        rep.case(op, &o1.key, o1.nontrivial);
        rep.sample_for_op(&format!("{BE_NAME}:{op}"), || o1.desc.clone());
        rep.count("double_runs", 1);
        for o in [&o1, &o2] {
            if let Some(p) = &o.panic {
                rep.violate(op, o.desc.clone(), format!("panic: {p}"));
                break;
            }
            if let Some(s) = &o.stray {
                rep.violate(op, o.desc.clone(), format!("stray write: {s}"));
                break;
            }
        }
        if o1.panic.is_none() && o2.panic.is_none() && o1.selected_bytes != o2.selected_bytes {
            let pos = o1.selected_bytes.iter().zip(&o2.selected_bytes).position(|(a, b)| a != b).unwrap_or(0);
            rep.violate(
                op,
                o1.desc.clone(),
                format!("selected output depends on the previous contents of the output/scratch buffers (first differing byte {pos} of {})", o1.selected_bytes.len()),
            );
        }
    }
}
