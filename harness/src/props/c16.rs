// C16 — CKKS evaluator tracks values and precision metadata through any program.
//
// Oracle: random straight-line CKKS programs are executed on the real library; every register has a shadow
// slot vector in complex double-double arithmetic (~106 bits, enough for log_delta = 80 with f128), a tracked
// absolute error bound and a magnitude bound. After every step the result is decrypted + decoded and compared
// with the shadow (tolerance = KTOL x tracked bound), metadata invariants are checked, `_into`/`_assign`/unsafe+
// normalise forms are cross-checked, and steps that need more budget than remains / a missing key / an impossible
// alignment must return the documented CKKSCompositionError variant (never panic, never Ok).
//
// The shadow semantics are written from the scheme definition m = t * 2^{log_budget} (DESIGN Appendix A), not
// from the implementation: the shadow only knows slot vectors and (log_delta, log_budget, limb count).

use num_traits::{Float, FloatConst, FromPrimitive, ToPrimitive};
use poulpy_ckks::{
    CKKSCompositionError, CKKSInfos, CKKSMeta,
    encoding::reim::Encoder,
    layouts::plaintext::alloc_pt_vec_znx,
    layouts::{
        CKKSCiphertext, CKKSConstPlaintextConversion, CKKSMaintainOps, CKKSPlaintextConversion, CKKSPlaintextCstRnx, CKKSPlaintextCstZnx,
        CKKSPlaintextVecRnx, CKKSPlaintextVecZnx,
    },
    leveled::*,
};
use poulpy_core::{EncryptionLayout, api::*, layouts::prepared::*, layouts::*};
use std::collections::HashMap;

type Ct = CKKSCiphertext<Vec<u8>>;

/// violation threshold: observed slot error may not exceed KTOL x (statistical part) + HTOL x (worst-case part)
/// of the tracked bound (calibration: see NOTES)
const KTOL: f64 = 16.0;
const HTOL: f64 = 2.0;
/// encode -> quantise -> decode alone: bounded uniform roundings only (worst observed 1.26)
const QTOL: f64 = 4.0;

/// tracked error bound: `s` collects terms that behave like sums of independent roundings / noise (one standard
/// deviation scale), `h` collects deterministic worst-case terms (biased bit truncations amplified by the secret)
#[derive(Clone, Copy, Debug, Default)]
struct Eb {
    s: f64,
    h: f64,
}
impl Eb {
    fn new(s: f64, h: f64) -> Eb {
        Eb { s, h }
    }
    fn add(self, o: Eb) -> Eb {
        Eb { s: self.s + o.s, h: self.h + o.h }
    }
    fn scale(self, f: f64) -> Eb {
        Eb { s: self.s * f, h: self.h * f }
    }
    fn tot(self) -> f64 {
        self.s + self.h
    }
    fn limit(self) -> f64 {
        KTOL * self.s + HTOL * self.h
    }
}
const SIGMA: f64 = 3.2;
const NREG: usize = 4;

// =====================================================================================================
// double-double arithmetic (shadow)
// =====================================================================================================
#[derive(Clone, Copy, Debug, PartialEq)]
pub struct DD {
    hi: f64,
    lo: f64,
}
fn two_sum(a: f64, b: f64) -> (f64, f64) {
    let s = a + b;
    let bb = s - a;
    (s, (a - (s - bb)) + (b - bb))
}
fn two_prod(a: f64, b: f64) -> (f64, f64) {
    let p = a * b;
    (p, a.mul_add(b, -p))
}
impl DD {
    const ZERO: DD = DD { hi: 0.0, lo: 0.0 };
    fn from(x: f64) -> DD {
        DD { hi: x, lo: 0.0 }
    }
    fn renorm(hi: f64, lo: f64) -> DD {
        let (s, e) = two_sum(hi, lo);
        DD { hi: s, lo: e }
    }
    fn add(self, o: DD) -> DD {
        let (s, e) = two_sum(self.hi, o.hi);
        let (t, f) = two_sum(self.lo, o.lo);
        let d = DD::renorm(s, e + t);
        DD::renorm(d.hi, d.lo + f)
    }
    fn neg(self) -> DD {
        DD { hi: -self.hi, lo: -self.lo }
    }
    fn sub(self, o: DD) -> DD {
        self.add(o.neg())
    }
    fn mul(self, o: DD) -> DD {
        let (p, e) = two_prod(self.hi, o.hi);
        DD::renorm(p, e + (self.hi * o.lo + self.lo * o.hi))
    }
    /// multiply by an exact power of two
    fn scale2(self, k: i32) -> DD {
        let f = 2f64.powi(k);
        DD { hi: self.hi * f, lo: self.lo * f }
    }
    fn f(self) -> f64 {
        self.hi + self.lo
    }
}
#[derive(Clone, Copy, Debug)]
pub struct Cx {
    re: DD,
    im: DD,
}
impl Cx {
    fn new(re: f64, im: f64) -> Cx {
        Cx { re: DD::from(re), im: DD::from(im) }
    }
    fn add(self, o: Cx) -> Cx {
        Cx { re: self.re.add(o.re), im: self.im.add(o.im) }
    }
    fn sub(self, o: Cx) -> Cx {
        Cx { re: self.re.sub(o.re), im: self.im.sub(o.im) }
    }
    fn mul(self, o: Cx) -> Cx {
        Cx { re: self.re.mul(o.re).sub(self.im.mul(o.im)), im: self.re.mul(o.im).add(self.im.mul(o.re)) }
    }
    fn neg(self) -> Cx {
        Cx { re: self.re.neg(), im: self.im.neg() }
    }
    fn conj(self) -> Cx {
        Cx { re: self.re, im: self.im.neg() }
    }
    fn scale2(self, k: i32) -> Cx {
        Cx { re: self.re.scale2(k), im: self.im.scale2(k) }
    }
    fn abs(self) -> f64 {
        self.re.f().hypot(self.im.f())
    }
}
fn vmag(z: &[Cx]) -> f64 {
    z.iter().fold(0.0f64, |a, c| a.max(c.abs()))
}

// =====================================================================================================
// element types
// =====================================================================================================
pub trait Elem: Float + FloatConst + FromPrimitive + ToPrimitive + std::fmt::Debug + Copy + 'static {
    const NAME: &'static str;
    /// mantissa bits
    const MANT: i32;
    /// largest log_delta used for plaintexts of this type (library limit is MANT+1... we stay below)
    const MAX_PT_DELTA: usize;
    fn of_dd(x: DD) -> Self {
        Self::from_f64(x.hi).unwrap() + Self::from_f64(x.lo).unwrap()
    }
    fn to_dd(self) -> DD {
        let hi = ToPrimitive::to_f64(&self).unwrap();
        let lo = ToPrimitive::to_f64(&(self - Self::from_f64(hi).unwrap())).unwrap();
        DD::renorm(hi, lo)
    }
}
impl Elem for f64 {
    const NAME: &'static str = "f64";
    const MANT: i32 = 53;
    const MAX_PT_DELTA: usize = 50;
}
#[cfg(feature = "f128")]
impl Elem for f128::f128 {
    const NAME: &'static str = "f128";
    const MANT: i32 = 113;
    const MAX_PT_DELTA: usize = 100;
}

// =====================================================================================================
// context
// =====================================================================================================
#[derive(Clone, Copy, Debug)]
struct Params {
    n: usize,
    base2k: usize,
    /// torus precision of fresh ciphertexts / keys (not necessarily a multiple of base2k)
    k: usize,
    /// default log_delta
    delta: usize,
    dsize: usize,
}

struct LibErr {
    ck: Option<CKKSCompositionError>,
    msg: String,
}
macro_rules! lib {
    ($e:expr) => {
        $e.map_err(|e| LibErr { ck: e.downcast_ref::<CKKSCompositionError>().cloned(), msg: format!("{e}") })
    };
}

struct Ctx<F: Elem> {
    p: Params,
    module: Module<BE>,
    sk: GLWESecretPrepared<DeviceBuf<BE>, BE>,
    tsk: GLWETensorKeyPrepared<DeviceBuf<BE>, BE>,
    atks: HashMap<i64, GLWEAutomorphismKeyPrepared<DeviceBuf<BE>, BE>>,
    rots: Vec<i64>,
    dnum: usize,
    encoder: Encoder<F>,
    scratch: ScratchOwned<BE>,
    glwe: GLWELayout,
}

impl<F: Elem> Ctx<F> {
    fn new(p: Params, rng: &mut Rng) -> Self {
        let n = p.n;
        let module: Module<BE> = Module::<BE>::new(n as u64);
        let glwe = GLWELayout { n: Degree(n as u32), base2k: Base2K(p.base2k as u32), k: TorusPrecision(p.k as u32), rank: Rank(1) };
        let kk = p.k + p.dsize * p.base2k;
        let dnum = kk.div_ceil(p.dsize * p.base2k);
        let tsk_infos = EncryptionLayout::new_from_default_sigma(GLWETensorKeyLayout {
            n: Degree(n as u32),
            base2k: Base2K(p.base2k as u32),
            k: TorusPrecision(kk as u32),
            rank: Rank(1),
            dsize: Dsize(p.dsize as u32),
            dnum: Dnum(dnum as u32),
        })
        .unwrap();
        let atk_infos = EncryptionLayout::new_from_default_sigma(GLWEAutomorphismKeyLayout {
            n: Degree(n as u32),
            base2k: Base2K(p.base2k as u32),
            k: TorusPrecision(kk as u32),
            rank: Rank(1),
            dsize: Dsize(p.dsize as u32),
            dnum: Dnum(dnum as u32),
        })
        .unwrap();
        let (mut xa, mut xe, mut xs) = (Source::new(rng.seed32()), Source::new(rng.seed32()), Source::new(rng.seed32()));
        let mut sk_raw = GLWESecret::alloc_from_infos(&glwe);
        sk_raw.fill_ternary_hw((n * 3 / 4).max(1), &mut xs);
        let mut sk = module.glwe_secret_prepared_alloc_from_infos(&glwe);
        module.glwe_secret_prepare(&mut sk, &sk_raw);
        let prec = CKKSMeta { log_delta: p.delta, log_budget: p.k - p.delta };
        // generous scratch: this property is not about scratch sizes (C12 is)
        let sbytes = module.ckks_all_ops_with_atk_tmp_bytes(&glwe, &tsk_infos, &atk_infos, &prec);
        let extra = module
            .ckks_mul_add_ct_tmp_bytes(&glwe, &tsk_infos)
            .max(module.ckks_mul_sub_ct_tmp_bytes(&glwe, &tsk_infos))
            .max(module.ckks_mul_many_tmp_bytes(4, &glwe, &tsk_infos))
            .max(module.ckks_dot_product_ct_tmp_bytes(4, &glwe, &tsk_infos));
        let mut scratch = ScratchOwned::<BE>::alloc(4 * (sbytes + extra) + (1 << 20));
        let mut tsk = GLWETensorKey::alloc_from_infos(&tsk_infos);
        module.glwe_tensor_key_encrypt_sk(&mut tsk, &sk_raw, &tsk_infos, &mut xa, &mut xe, scratch.borrow());
        let mut tskp = module.alloc_tensor_key_prepared_from_infos(&tsk_infos);
        module.prepare_tensor_key(&mut tskp, &tsk, scratch.borrow());
        let m = n / 2;
        // keys for a random subset of rotations (always 1) plus conjugation (-1)
        let mut rots: Vec<i64> = vec![1];
        for _ in 0..3 {
            let r = rng.usize_in(0, m - 1) as i64;
            if !rots.contains(&r) {
                rots.push(r);
            }
        }
        let mut atks = HashMap::new();
        for &idx in rots.iter().chain([-1i64].iter()) {
            let mut atk = GLWEAutomorphismKey::alloc_from_infos(&atk_infos);
            let g = if idx == -1 { -1 } else { module.galois_element(idx) };
            module.glwe_automorphism_key_encrypt_sk(&mut atk, g, &sk_raw, &atk_infos, &mut xa, &mut xe, scratch.borrow());
            let mut pk = module.glwe_automorphism_key_prepared_alloc_from_infos(&atk_infos);
            module.glwe_automorphism_key_prepare(&mut pk, &atk, scratch.borrow());
            atks.insert(idx, pk);
        }
        Ctx { p, module, sk, tsk: tskp, atks, rots, dnum, encoder: Encoder::<F>::new(m).unwrap(), scratch, glwe }
    }
    fn m(&self) -> usize {
        self.p.n / 2
    }
    fn sqn(&self) -> f64 {
        (self.p.n as f64).sqrt()
    }
    /// statistical rounding unit in slot space for precision 2^-d
    fn u(&self, d: usize) -> f64 {
        self.sqn() * 2f64.powi(-(d as i32))
    }
    /// key-switch noise in slot space for a result with log_budget b: dnum digits (uniform, 2^base2k/sqrt(12)) times
    /// fresh noise at 2^-(k+base2k), summed over N coefficients, seen through the N-term slot evaluation
    fn e_ks(&self, b: usize) -> f64 {
        self.p.n as f64 * SIGMA * (self.dnum as f64 / 12.0).sqrt() * 2f64.powi(b as i32 - self.p.k as i32)
    }
    /// worst-case slot error of a biased (floor) truncation of both ciphertext polynomials at 2^exp (message scale):
    /// the constant offset 2^exp/2 on every coefficient evaluates to |2/(1-zeta)| <= 2N/pi at the slot next to 1, and the
    /// mask polynomial's share is multiplied by |s(zeta)| (<= 3 sqrt(hw) with overwhelming probability)
    fn hard_ct(&self, exp: i32) -> f64 {
        let hw = (self.p.n * 3 / 4).max(1) as f64;
        (self.p.n as f64 / std::f64::consts::PI) * (1.0 + 3.0 * hw.sqrt()) * 2f64.powi(exp)
    }
    /// rounding of a ciphertext (message budget b) to max_k bits of torus precision: limb drops of balanced digits round
    /// to nearest (statistical part); sub-limb shifts may floor (worst-case part)
    fn trunc(&self, b: usize, max_k: usize) -> Eb {
        let exp = b as i32 - max_k as i32;
        Eb::new(self.sqn() * (1.0 + (self.p.n as f64 * 0.75 / 3.0).sqrt()) * 2f64.powi(exp), 0.0)
    }
    /// same for a plaintext polynomial (no secret involved)
    fn hard_pt(&self, exp: i32) -> f64 {
        (self.p.n as f64 / std::f64::consts::PI) * 2f64.powi(exp)
    }
    /// rounding of the element type in encode/decode (relative)
    fn eps_f(&self) -> f64 {
        2f64.powi(-(F::MANT - 1)) * ((self.p.n as f64).log2() + 2.0)
    }
    fn alloc_ct(&self, max_k: usize) -> Ct {
        CKKSCiphertext::alloc(Degree(self.p.n as u32), TorusPrecision(max_k as u32), Base2K(self.p.base2k as u32))
    }
    fn encode_rnx(&self, z: &[Cx]) -> CKKSPlaintextVecRnx<F> {
        let re: Vec<F> = z.iter().map(|c| F::of_dd(c.re)).collect();
        let im: Vec<F> = z.iter().map(|c| F::of_dd(c.im)).collect();
        let mut pt = CKKSPlaintextVecRnx::<F>::alloc(self.p.n).unwrap();
        self.encoder.encode_reim(&mut pt, &re, &im).unwrap();
        pt
    }
    fn encode_znx(&self, z: &[Cx], meta: CKKSMeta) -> Result<CKKSPlaintextVecZnx<Vec<u8>>, LibErr> {
        let rnx = self.encode_rnx(z);
        let mut pt = alloc_pt_vec_znx(Degree(self.p.n as u32), Base2K(self.p.base2k as u32), meta);
        lib!(rnx.to_znx(&mut pt))?;
        Ok(pt)
    }
    fn decode_znx(&self, pt: &CKKSPlaintextVecZnx<Vec<u8>>) -> Result<Vec<Cx>, LibErr> {
        let mut rnx = CKKSPlaintextVecRnx::<F>::alloc(self.p.n).unwrap();
        lib!(rnx.decode_from_znx(pt))?;
        let m = self.m();
        let mut re = vec![F::zero(); m];
        let mut im = vec![F::zero(); m];
        lib!(self.encoder.decode_reim(&rnx, &mut re, &mut im))?;
        Ok((0..m).map(|i| Cx { re: re[i].to_dd(), im: im[i].to_dd() }).collect())
    }
    /// decrypt + decode with the ciphertext's own metadata (plaintext budget clipped to what the types can hold)
    fn decrypt(&mut self, ct: &Ct) -> Result<Vec<Cx>, LibErr> {
        let d = ct.log_delta().min(F::MAX_PT_DELTA);
        let b = ct.log_budget().min(120 - d);
        let mut pt = alloc_pt_vec_znx(Degree(self.p.n as u32), ct.base2k(), CKKSMeta { log_delta: d, log_budget: b });
        lib!(self.module.ckks_decrypt(&mut pt, ct, &self.sk, self.scratch.borrow()))?;
        self.decode_znx(&pt)
    }
}

fn clone_ct(ct: &Ct) -> Ct {
    let mut c = CKKSCiphertext::alloc(ct.n(), ct.max_k(), ct.base2k());
    c.data_mut().data.copy_from_slice(&ct.data().data);
    c.set_meta_checked(ct.meta()).unwrap();
    c
}

fn limbs_needed(ct: &Ct) -> usize {
    ct.effective_k().div_ceil(ct.base2k().as_usize())
}
fn compacted(ct: &Ct) -> bool {
    ct.size() == limbs_needed(ct)
}

/// owned snapshot of an operand's metadata (for descriptors)
#[derive(Clone, Copy, Debug)]
struct OM {
    name: &'static str,
    d: usize,
    b: usize,
    size: usize,
    max_k: usize,
    comp: bool,
}
fn om(name: &'static str, ct: &Ct) -> OM {
    OM { name, d: ct.log_delta(), b: ct.log_budget(), size: ct.size(), max_k: ct.max_k().as_usize(), comp: compacted(ct) }
}

// =====================================================================================================
// registers
// =====================================================================================================
struct Reg {
    ct: Ct,
    z: Vec<Cx>,
    /// tracked absolute error bound on every slot
    e: Eb,
}
impl Reg {
    fn mag(&self) -> f64 {
        vmag(&self.z)
    }
}

#[derive(Clone, Copy, Debug, PartialEq)]
enum EK {
    Insufficient,
    MulUnderflow,
    MissingKey,
    Align,
    Realloc,
}
fn ek_name(e: EK) -> &'static str {
    match e {
        EK::Insufficient => "InsufficientHomomorphicCapacity",
        EK::MulUnderflow => "MultiplicationPrecisionUnderflow",
        EK::MissingKey => "MissingAutomorphismKey",
        EK::Align => "PlaintextAlignmentImpossible",
        EK::Realloc => "LimbReallocationShrinksBelowMetadata",
    }
}
fn ck_kind(e: &CKKSCompositionError) -> Option<EK> {
    Some(match e {
        CKKSCompositionError::InsufficientHomomorphicCapacity { .. } => EK::Insufficient,
        CKKSCompositionError::MultiplicationPrecisionUnderflow { .. } => EK::MulUnderflow,
        CKKSCompositionError::MissingAutomorphismKey { .. } => EK::MissingKey,
        CKKSCompositionError::PlaintextAlignmentImpossible { .. } => EK::Align,
        CKKSCompositionError::LimbReallocationShrinksBelowMetadata { .. } => EK::Realloc,
        _ => return None,
    })
}

/// what the reference algebra says about a step
#[derive(Clone, Debug)]
enum Expect {
    /// success; reference log_delta of the result (None: not pinned), reference log_budget, shadow, error bound
    Ok { delta: usize, budget: usize },
    /// must return one of these documented errors
    Err(Vec<EK>),
}

#[derive(Clone, Copy, Debug, PartialEq)]
enum DstMode {
    Full,
    Exact,
    Smaller,
    Tiny,
}

/// per-program policy: which known-defect situations may be generated
#[derive(Clone, Copy, Debug)]
struct Policy {
    allow_uncompacted_mul: bool,
    allow_unequal_delta_mul: bool,
    /// add/sub of a constant whose aligned encoding (log_budget + log_delta bits) is wider than the destination
    allow_wide_const: bool,
    /// `ckks_rescale_into` into a destination with fewer bits than the rescaled value
    allow_rescale_small_dst: bool,
    error_paths: bool,
}

struct Prog<'a, F: Elem> {
    ctx: &'a mut Ctx<F>,
    regs: Vec<Option<Reg>>,
    pol: Policy,
    id: String,
    step: usize,
    enc_ctr: u64,
    trace: bool,
    focus: Option<String>,
    /// what the decoded result would be if only the known unequal-log_delta budget defect were at work
    f17_alt: Option<Vec<Cx>>,
    /// the last `verify` could not read the value back (magnitude too close to the budget): do not keep the register
    unverified: bool,
}

fn rand_slots(rng: &mut Rng, m: usize, class: u64, r: f64) -> Vec<Cx> {
    let unit = |rng: &mut Rng| (rng.next_u64() >> 11) as f64 / (1u64 << 53) as f64 * 2.0 - 1.0;
    (0..m)
        .map(|i| match class {
            0 | 1 | 2 => Cx::new(unit(rng) * r * 0.7, unit(rng) * r * 0.7),
            3 => Cx::new(r * 0.96, 0.0),                                 // constant polynomial: coefficient magnitude == slot magnitude
            4 => Cx::new(unit(rng) * r * 0.99, 0.0),                     // real
            5 => if i % 2 == 0 { Cx::new(r * 0.7, -r * 0.68) } else { Cx::new(-r * 0.7, r * 0.68) },
            6 => Cx::new(0.0, 0.0),
            _ => Cx::new(0.0, r * 0.96),                                  // constant imaginary: coefficient N/2
        })
        .collect()
}

impl<'a, F: Elem> Prog<'a, F> {
    fn desc(&self, op: &str, form: &str, class: &str, kind: &str, operands: &[OM], extra: J) -> J {
        let p = self.ctx.p;
        let mut d = jo! {"backend" => BE_NAME, "elem" => F::NAME, "op" => op, "form" => form, "class" => class, "kind" => kind,
        "program" => self.id.as_str(), "step" => self.step, "n" => p.n, "base2k" => p.base2k, "k" => p.k, "delta0" => p.delta};
        for o in operands {
            let name = o.name;
            d.put(&format!("{name}_log_delta"), o.d);
            d.put(&format!("{name}_log_budget"), o.b);
            d.put(&format!("{name}_size"), o.size);
            d.put(&format!("{name}_max_k"), o.max_k);
            d.put(&format!("{name}_compacted"), o.comp);
        }
        if let J::O(o) = extra {
            for (k, v) in o {
                d.put(&k, v);
            }
        }
        d
    }

    /// fresh encryption into register r
    fn fresh(&mut self, r: usize, rng: &mut Rng, rep: &mut Report) {
        let p = self.ctx.p;
        let m = self.ctx.m();
        let class = rng.below(8);
        let r_mag = 2f64.powi(rng.i64_in(-6, 5) as i32);
        let z = rand_slots(rng, m, class, r_mag);
        // log_delta: mostly the default; sometimes a different one (unequal log_delta between registers)
        let delta = if self.pol.allow_unequal_delta_mul && rng.chance(1, 3) {
            (p.delta as i64 + *rng.pick(&[-7i64, -3, -1, 2, 5])).max(8) as usize
        } else {
            p.delta
        }
        .min(F::MAX_PT_DELTA);
        // torus precision of the encryption: full, or fewer limbs (unequal limb counts)
        let k_enc = if rng.chance(1, 4) { (p.k - rng.usize_in(1, p.k / 3)).max(delta + 12) } else { p.k };
        let budget = k_enc - delta;
        // the plaintext buffer (rounded up to whole limbs) may not be wider than the encryption precision
        let pt_k = (k_enc.min(120) / p.base2k) * p.base2k;
        if pt_k < delta + 8 {
            return;
        }
        let pt_meta = CKKSMeta { log_delta: delta, log_budget: pt_k - delta };
        let pt = match self.ctx.encode_znx(&z, pt_meta) {
            Ok(pt) => pt,
            Err(e) => {
                rep.violate("encode", self.desc("encode", "-", "generic", "unexpected_err", &[], jo! {"pt_log_delta" => delta, "pt_log_budget" => pt_meta.log_budget}), e.msg);
                return;
            }
        };
        // ciphertext buffer: exactly k_enc or the full size
        let alloc_k = if rng.coin() { k_enc } else { p.k };
        let mut ct = self.ctx.alloc_ct(alloc_k);
        let mut layout = self.ctx.glwe;
        layout.k = TorusPrecision(k_enc as u32);
        let enc_infos = EncryptionLayout::new_from_default_sigma(layout).unwrap();
        self.enc_ctr += 1;
        let (mut xa, mut xe) = (Source::new(rng.seed32()), Source::new(rng.seed32()));
        let ctx = &mut *self.ctx;
        let res = guarded(|| lib!(ctx.module.ckks_encrypt_sk(&mut ct, &pt, &ctx.sk, &enc_infos, &mut xa, &mut xe, ctx.scratch.borrow())));
        let key = format!("{}|{}|{}|{}|{}|{class}", BE_NAME, F::NAME, p.n, delta, k_enc);
        rep.case("encrypt", &key, class != 6);
        match res {
            Err(pm) => {
                let d = self.desc("encrypt", "-", "generic", "panic", &[], jo! {"pt_log_delta" => delta, "k_enc" => k_enc, "alloc_k" => alloc_k});
                rep.violate("encrypt", d, format!("panic: {pm}"));
            }
            Ok(Err(e)) => {
                let d = self.desc("encrypt", "-", "generic", "unexpected_err", &[], jo! {"pt_log_delta" => delta, "k_enc" => k_enc, "alloc_k" => alloc_k});
                rep.violate("encrypt", d, format!("error on an admissible encryption: {}", e.msg));
            }
            Ok(Ok(())) => {
                let e = Eb::new(self.ctx.u(delta) * (1.0 + SIGMA) + vmag(&z) * self.ctx.eps_f(), 0.0);
                let reg = Reg { ct, z, e };
                if reg.ct.log_delta() != delta || reg.ct.log_budget() != budget {
                    let d = self.desc("encrypt", "-", "generic", "meta", &[om("res", &reg.ct)], jo! {"want_log_delta" => delta, "want_log_budget" => budget});
                    rep.violate("encrypt", d, "fresh ciphertext metadata != (pt.log_delta, k - pt.log_delta)".into());
                    return;
                }
                if self.verify("encrypt", "-", &reg, &[], rep, jo! {"k_enc" => k_enc}, None) && !self.unverified {
                    self.regs[r] = Some(reg);
                }
            }
        }
    }

    /// decrypt `reg.ct`, compare with the shadow, check the metadata invariants. Returns true when consistent.
    /// `f17`: Some(bits) if the step multiplied operands whose log_delta differ by `bits` (signature check of the known defect).
    fn verify(&mut self, op: &str, form: &str, reg: &Reg, operands: &[OM], rep: &mut Report, extra: J, f17: Option<usize>) -> bool {
        let ct = &reg.ct;
        self.unverified = false;
        let mut ops: Vec<OM> = operands.to_vec();
        ops.push(om("res", ct));
        // metadata invariants
        if ct.effective_k() > ct.max_k().as_usize() || ct.log_budget() > self.ctx.p.k + 64 {
            let d = self.desc(op, form, "generic", "meta", &ops, extra.clone());
            rep.violate(op, d, format!("log_delta+log_budget={} exceeds stored precision max_k={}", ct.effective_k(), ct.max_k().as_usize()));
            return false;
        }
        let mag = reg.mag();
        // the plaintext read-out needs |m| < 2^(log_budget-1); the generator guarantees it (admissibility), re-assert here
        let bpt = ct.log_budget().min(120 - ct.log_delta().min(F::MAX_PT_DELTA));
        if !(mag * 1.01 + reg.e.limit() < 2f64.powi(bpt as i32 - 1)) {
            rep.count("skipped_verify_magnitude", 1);
            self.unverified = true;
            return true;
        }
        let ctx = &mut *self.ctx;
        let got = match guarded(|| ctx.decrypt(ct)) {
            Err(pm) => {
                let d = self.desc(op, form, "generic", "panic_decrypt", &ops, extra.clone());
                rep.violate(op, d, format!("panic while decrypting the result: {pm}"));
                return false;
            }
            Ok(Err(e)) => {
                let d = self.desc(op, form, "generic", "decrypt_err", &ops, extra.clone());
                rep.violate(op, d, format!("cannot decrypt/decode a result whose metadata the library produced: {}", e.msg));
                return false;
            }
            Ok(Ok(g)) => g,
        };
        let dpt = ct.log_delta().min(F::MAX_PT_DELTA);
        let tracked = reg.e.add(Eb::new(self.ctx.u(dpt) + mag * self.ctx.eps_f(), self.ctx.hard_pt(-(dpt as i32))));
        let bound = tracked.limit();
        let mut worst = 0.0f64;
        let mut wi = 0usize;
        for (i, (g, w)) in got.iter().zip(&reg.z).enumerate() {
            let err = g.sub(*w).abs();
            if err > worst || err.is_nan() {
                worst = if err.is_nan() { f64::INFINITY } else { err };
                wi = i;
            }
        }
        let ratio = worst / bound;
        if self.trace {
            eprintln!("[trace] step {} {op} res=({},{},size {}) err={worst:.3e} tracked s={:.3e} h={:.3e} err/limit={ratio:.3} mag={mag:.3e} slot={wi}", self.step, ct.log_delta(), ct.log_budget(), ct.size(), tracked.s, tracked.h);
        }
        if worst <= bound && f17.map(|b| b > 0).unwrap_or(false) {
            // a product whose budget is under-reported (known defect) but whose value is too small to show it:
            // not a calibration sample
            return true;
        }
        if worst <= bound {
            rep.maxf(&format!("err_over_limit:{op}"), ratio);
            rep.maxf("err_over_limit", ratio);
            // how much of the statistical allowance is used once the worst-case part is spent at face value
            rep.maxf("stat_sigmas_used", ((worst - tracked.h).max(0.0)) / tracked.s);
            if ratio > 0.4 && ratio >= rep.maxima.get("worst_case_ratio").copied().unwrap_or(0.0) {
                rep.maxf("worst_case_ratio", ratio);
                rep.notes.retain(|n| !n.starts_with("worst_case "));
                rep.notes.push(format!("worst_case {ratio:.3} {} slot={wi} err={worst:.3e} s={:.3e} h={:.3e} mag={mag:.3e}", self.desc(op, form, "-", "-", &ops, extra.clone()).render(), tracked.s, tracked.h));
            }
            return true;
        }
        rep.maxf("err_over_limit_failing", ratio);
        // mismatch: is it exactly the known unequal-log_delta signature (decoded = shadow / 2^bits)?
        let mut class = "generic";
        if let Some(bits) = f17 {
            if bits > 0 {
                let mut w2 = 0.0f64;
                match self.f17_alt.take() {
                    Some(alt) => {
                        for (g, w) in got.iter().zip(&alt) {
                            w2 = w2.max(g.sub(*w).abs());
                        }
                    }
                    None => {
                        for (g, w) in got.iter().zip(&reg.z) {
                            w2 = w2.max(g.sub(w.scale2(-(bits as i32))).abs());
                        }
                    }
                }
                if w2 <= bound {
                    class = "mul_unequal_log_delta";
                }
            }
        }
        let mut ex = extra.clone();
        ex.put("slot", wi);
        ex.put("got_re", got[wi].re.f());
        ex.put("got_im", got[wi].im.f());
        ex.put("want_re", reg.z[wi].re.f());
        ex.put("want_im", reg.z[wi].im.f());
        ex.put("err", worst);
        ex.put("tracked_stat", tracked.s);
        ex.put("tracked_hard", tracked.h);
        ex.put("limit", bound);
        ex.put("log2_ratio_got_want", (got[wi].abs() / reg.z[wi].abs()).log2());
        if let Some(b) = f17 {
            ex.put("f17_expected_log2_ratio", -(b as i64));
        }
        let d = self.desc(op, form, class, "value", &ops, ex);
        violate_classed(rep, op, class, d, format!("decoded slots differ from the shadow evaluation: err {worst:.3e} > {KTOL} x {:.3e} + {HTOL} x {:.3e}", tracked.s, tracked.h));
        false
    }
}

// =====================================================================================================
// steps
// =====================================================================================================
#[derive(Clone, Copy, Debug, Default)]
struct Flags {
    /// the step multiplies ciphertexts (F16/F17 situations are possible)
    mul_like: bool,
    /// some ciphertext operand of a ct x ct product carries more limbs than its effective_k needs
    uncompacted: bool,
    /// |log_delta(a) - log_delta(b)| of a ct x ct product
    delta_diff: usize,
    /// max(B_a,B_b) + max(delta_a,delta_b) - max(eff_a,eff_b): how many bits the documented budget rule
    /// min(B) - max(delta) under-reports w.r.t. the value-consistent B_a + B_b - max(eff) (0 when log_delta are equal)
    budget_disc: usize,
    /// smallest log_budget among the ciphertext inputs (the result's budget may never exceed it)
    min_in_budget: usize,
    /// the reference log_delta is pinned by the documented algebra
    pin_delta: bool,
    /// add/sub of a constant whose aligned digits need more limbs than the destination has
    wide_const: bool,
}

/// Violations of a known-defect class are written out at most KNOWN_CAP times per (class, op) and shard, the rest is
/// only counted: Report keeps at most 400 violations per shard and a flood of known ones must never crowd out a new one.
const KNOWN_CAP: i128 = 8;
fn violate_classed(rep: &mut Report, op: &str, class: &str, desc: J, detail: String) {
    if class == "generic" {
        rep.violate(op, desc, detail);
        return;
    }
    rep.count(&format!("class_total:{class}"), 1);
    let key = format!("class_recorded:{class}:{op}");
    if rep.counters.get(&key).copied().unwrap_or(0) < KNOWN_CAP {
        rep.count(&key, 1);
        rep.violate(op, desc, detail);
    } else {
        rep.count(&format!("class_suppressed:{class}"), 1);
    }
}

fn full_max_k(p: &Params) -> usize {
    p.k.div_ceil(p.base2k) * p.base2k
}
fn round_up(x: usize, b: usize) -> usize {
    x.div_ceil(b).max(1) * b
}

impl<'a, F: Elem> Prog<'a, F> {
    fn reg(&self, i: usize) -> &Reg {
        self.regs[i].as_ref().unwrap()
    }

    /// choose the destination's max_k for an `_into` form, given the natural effective_k of the result
    fn pick_dmax(&self, rng: &mut Rng, nat_eff: usize, nat_delta: usize) -> (DstMode, usize) {
        let p = self.ctx.p;
        let b = p.base2k;
        let full = full_max_k(&p);
        let exact = round_up(nat_eff, b);
        let w = rng.below(20);
        if w < 8 {
            (DstMode::Full, full)
        } else if w < 14 {
            (DstMode::Exact, exact)
        } else if w < 19 || !self.pol.error_paths {
            let drop = rng.usize_in(1, 2) * b;
            if exact > drop && exact - drop >= b { (DstMode::Smaller, exact - drop) } else { (DstMode::Exact, exact) }
        } else {
            // fewer bits than log_delta: the step needs more budget than remains
            let tiny = (nat_delta / b) * b;
            if tiny >= b && tiny < nat_delta { (DstMode::Tiny, if rng.coin() { b } else { tiny }) } else { (DstMode::Smaller, exact.saturating_sub(b).max(b)) }
        }
    }

    /// a destination buffer: fresh (zero data, default metadata) or stale (garbage data, some valid metadata)
    fn make_dst(&self, rng: &mut Rng, dmax: usize) -> Ct {
        let mut ct = self.ctx.alloc_ct(dmax);
        if rng.chance(1, 3) {
            let b = self.ctx.p.base2k;
            let mut r2 = rng.clone();
            {
                let bytes: &mut [u8] = &mut ct.data_mut().data;
                for c in bytes.chunks_mut(8) {
                    let v = r2.signed_bits(b).to_le_bytes();
                    c.copy_from_slice(&v[..c.len()]);
                }
            }
            *rng = r2;
            let mk = ct.max_k().as_usize();
            let d = rng.usize_in(0, mk);
            let _ = ct.set_meta_checked(CKKSMeta { log_delta: d, log_budget: rng.usize_in(0, mk - d) });
        }
        ct
    }

    fn admissible(&self, z: &[Cx], e: Eb, budget: usize) -> bool {
        let mag = vmag(z);
        mag < 2f64.powi(24) && e.tot().is_finite() && mag * 1.05 + e.limit() * 2.0 < 2f64.powi(budget.min(1000) as i32 - 1)
    }

    /// common tail of every step: classify the outcome against the expectation, verify, store into register `d`
    #[allow(clippy::too_many_arguments)]
    fn finish(
        &mut self,
        rep: &mut Report,
        op: &str,
        form: &str,
        d: Option<usize>,
        res: Result<Result<(), LibErr>, String>,
        expect: &Expect,
        out: Option<Reg>,
        operands: &[OM],
        extra: J,
        fl: Flags,
    ) -> bool {
        let key = format!(
            "{}|{}|{}|{}|{form}|{}|{:?}",
            BE_NAME,
            F::NAME,
            self.ctx.p.n,
            self.ctx.p.base2k,
            operands.iter().map(|o| format!("{}.{}.{}.{}", o.d, o.b, o.size, o.max_k)).collect::<Vec<_>>().join(","),
            match expect {
                Expect::Ok { .. } => "ok".to_string(),
                Expect::Err(k) => format!("{k:?}"),
            }
        );
        let opf = if form == "-" { op.to_string() } else { format!("{op}_{form}") };
        rep.case(&opf, &key, true);
        rep.sample_for_op(&format!("{BE_NAME}:{}:{opf}", F::NAME), || self.desc(op, form, "sample", "sample", operands, extra.clone()));
        match (res, expect) {
            (Err(pm), _) => {
                let f16 = fl.mul_like && fl.uncompacted && pm.contains("left == right");
                let f20 = fl.wide_const && pm.contains("self.size()");
                let class = if f16 { "mul_operand_not_compacted" } else if f20 { "add_const_wider_than_dst" } else { "generic" };
                let mut ex = extra.clone();
                ex.put("delta_diff", fl.delta_diff);
                ex.put("expected", match expect {
                    Expect::Ok { .. } => "ok".to_string(),
                    Expect::Err(k) => format!("{k:?}"),
                });
                rep.count(if f16 { "known_f16_panics" } else if f20 { "known_f20_panics" } else { "other_panics" }, 1);
                violate_classed(rep, &opf, class, self.desc(op, form, class, "panic", operands, ex), format!("panic: {pm}"));
                false
            }
            (Ok(Err(e)), Expect::Err(kinds)) => {
                rep.count("error_paths_exercised", 1);
                rep.count(&format!("error_path:{}", ek_name(kinds[0])), 1);
                let got = e.ck.as_ref().and_then(ck_kind);
                if got.is_none() || !kinds.contains(&got.unwrap()) {
                    let mut ex = extra.clone();
                    ex.put("expected_error", kinds.iter().map(|k| ek_name(*k)).collect::<Vec<_>>().join("|"));
                    ex.put("got_error", format!("{:?}", e.ck));
                    rep.violate(&opf, self.desc(op, form, "generic", "wrong_err", operands, ex), format!("error is not the documented CKKSCompositionError variant: {}", e.msg));
                }
                false
            }
            (Ok(Err(e)), Expect::Ok { .. }) => {
                // unequal-log_delta products: the library's budget rule differs from the value-consistent one; an error
                // of the budget family is tolerated there (the value defect itself is reported when it returns Ok)
                if fl.mul_like && fl.delta_diff > 0 && matches!(e.ck.as_ref().and_then(ck_kind), Some(EK::MulUnderflow) | Some(EK::Insufficient)) {
                    rep.count("unequal_delta_mul_err_tolerated", 1);
                    return false;
                }
                let mut ex = extra.clone();
                ex.put("got_error", format!("{:?}", e.ck));
                rep.violate(&opf, self.desc(op, form, "generic", "unexpected_err", operands, ex), format!("error on a step whose budget/keys/alignment suffice: {}", e.msg));
                false
            }
            (Ok(Ok(())), Expect::Err(kinds)) => {
                if fl.mul_like && fl.delta_diff > 0 {
                    rep.count("unequal_delta_mul_ok_tolerated", 1);
                    return false;
                }
                let mut ex = extra.clone();
                ex.put("expected_error", kinds.iter().map(|k| ek_name(*k)).collect::<Vec<_>>().join("|"));
                let mut ops = operands.to_vec();
                if let Some(o) = &out {
                    ops.push(om("res", &o.ct));
                }
                rep.violate(&opf, self.desc(op, form, "generic", "ok_expected_err", &ops, ex), "step needs more budget than remains / a missing key / an impossible alignment but returned Ok".into());
                false
            }
            (Ok(Ok(())), Expect::Ok { delta, budget }) => {
                let out = out.expect("shadow result");
                rep.count("steps_ok", 1);
                let mut ops = operands.to_vec();
                ops.push(om("res", &out.ct));
                let mut ex = extra.clone();
                ex.put("ref_log_delta", *delta);
                ex.put("ref_log_budget", *budget);
                ex.put("delta_diff", fl.delta_diff);
                if out.ct.log_budget() > fl.min_in_budget {
                    rep.violate(&opf, self.desc(op, form, "generic", "meta", &ops, ex.clone()), format!("log_budget increased: result {} > smallest input {}", out.ct.log_budget(), fl.min_in_budget));
                    return false;
                }
                ex.put("budget_discrepancy", fl.budget_disc);
                let f17 = if fl.mul_like && fl.delta_diff > 0 { Some(fl.budget_disc) } else { None };
                if !self.verify(&opf, form, &out, operands, rep, ex.clone(), f17) {
                    if fl.mul_like && fl.delta_diff > 0 {
                        rep.count("known_f17_or_unequal_delta_value", 1);
                    }
                    if let Some(d) = d {
                        self.regs[d] = None;
                    }
                    return false;
                }
                if self.unverified {
                    // the value could not be read back: the register is not allowed to flow into later steps
                    if let Some(d) = d {
                        self.regs[d] = None;
                    }
                    return true;
                }
                if fl.pin_delta && out.ct.log_delta() != *delta {
                    rep.violate(&opf, self.desc(op, form, "generic", "meta", &ops, ex.clone()), format!("log_delta {} does not follow the documented algebra (want {})", out.ct.log_delta(), delta));
                    return false;
                }
                if out.ct.log_budget() != *budget {
                    // the value check passed, so the library's budget is consistent with the data: our reference rule is off
                    rep.count("model_budget_mismatch", 1);
                    if rep.counters.get("model_budget_mismatch").copied().unwrap_or(0) <= 5 {
                        rep.notes.push(format!("model_budget_mismatch {opf} got {} ref {} {}", out.ct.log_budget(), budget, self.desc(op, form, "-", "-", &ops, J::obj()).render()));
                    }
                }
                if !compacted(&out.ct) {
                    rep.count("results_not_compacted", 1);
                }
                if fl.mul_like && fl.budget_disc > 0 {
                    // value too small to expose the under-reported budget: do not let the tainted register flow on
                    rep.count("unequal_delta_mul_passed_small_value", 1);
                    if let Some(d) = d {
                        self.regs[d] = None;
                    }
                    return true;
                }
                if let Some(d) = d {
                    self.regs[d] = Some(out);
                }
                true
            }
        }
    }

    // -------------------------------------------------------------------------------------------------
    // unary family: neg, rescale, mul_pow2, div_pow2, rotate, conjugate
    // -------------------------------------------------------------------------------------------------
    fn do_unary(&mut self, which: &'static str, rng: &mut Rng, rep: &mut Report) {
        let a = rng.usize_in(0, NREG - 1);
        let d = rng.usize_in(0, NREG - 1);
        let p = self.ctx.p;
        let m = self.ctx.m();
        let (da, ba, ea, amax, asize) = {
            let r = self.reg(a);
            (r.ct.log_delta(), r.ct.log_budget(), r.e, r.ct.max_k().as_usize(), r.ct.size())
        };
        let eff = da + ba;
        let assign = rng.chance(2, 5);
        // parameters
        let mut bits = 0usize;
        let mut rot = 0i64;
        let mut missing_key = false;
        match which {
            "rescale" => {
                let cap = if rng.coin() { 12 } else { 3 * p.base2k };
                bits = if self.pol.error_paths && rng.chance(1, 12) { ba + rng.usize_in(1, 70) } else { rng.usize_in(0, ba.min(cap)) };
            }
            "mul_pow2" => bits = rng.usize_in(0, 9),
            "div_pow2" => {
                bits = if self.pol.error_paths && rng.chance(1, 12) { ba + rng.usize_in(1, 70) } else { rng.usize_in(0, 12.min(ba)) };
                if !assign && da + bits > F::MAX_PT_DELTA && bits <= ba {
                    bits = F::MAX_PT_DELTA.saturating_sub(da).min(ba);
                }
            }
            "rotate" => {
                if self.pol.error_paths && rng.chance(1, 6) {
                    // any index, with or without key
                    rot = rng.i64_in(0, m as i64 - 1);
                    if rng.chance(1, 4) {
                        rot = *rng.pick(&[m as i64, -2, i64::MAX, 1 << 40, -(m as i64)]);
                    }
                    missing_key = !self.ctx.atks.contains_key(&rot);
                } else {
                    rot = *rng.pick(&self.ctx.rots);
                }
            }
            _ => {}
        }
        // natural result
        let (nat_d, nat_b) = match which {
            "rescale" => (da, ba.saturating_sub(bits)),
            "div_pow2" => (if assign { da } else { da + bits }, ba.saturating_sub(bits)),
            _ => (da, ba),
        };
        let (mut mode, mut dmax) = if assign { (DstMode::Full, amax) } else { self.pick_dmax(rng, nat_d + nat_b, nat_d) };
        if which == "rescale" && !assign && nat_d + nat_b > dmax && !self.pol.allow_rescale_small_dst {
            mode = DstMode::Exact;
            dmax = round_up(nat_d + nat_b, p.base2k);
        }
        // reference algebra
        let off = if assign || which == "rescale" { 0 } else { eff.saturating_sub(dmax) };
        let expect = if missing_key {
            Expect::Err(vec![EK::MissingKey])
        } else {
            match which {
                "rescale" => if bits > ba { Expect::Err(vec![EK::Insufficient]) } else { Expect::Ok { delta: da, budget: ba - bits } },
                "div_pow2" => if bits + off > ba { Expect::Err(vec![EK::Insufficient]) } else { Expect::Ok { delta: nat_d, budget: ba - bits - off } },
                _ => if off > ba { Expect::Err(vec![EK::Insufficient]) } else { Expect::Ok { delta: da, budget: ba - off } },
            }
        };
        if which == "rescale" && !assign {
            if let Expect::Ok { delta, budget } = &expect {
                if delta + budget > dmax {
                    // rescale_into has no destination-size rule of its own: the result must still fit the destination
                    // (metadata invariant). We keep the case: whatever the library answers must be consistent.
                    rep.count("rescale_into_small_dst", 1);
                }
            }
        }
        if matches!(expect, Expect::Err(_)) && !self.pol.error_paths {
            return;
        }
        // shadow
        let mut out_z: Vec<Cx> = Vec::new();
        let mut out_e = Eb::default();
        if let Expect::Ok { budget, .. } = &expect {
            let za = &self.reg(a).z;
            let trunc = if dmax < asize * p.base2k { self.ctx.trunc(*budget, dmax) } else { Eb::default() };
            let ks = Eb::new(self.ctx.e_ks(*budget), 0.0);
            let (z, e): (Vec<Cx>, Eb) = match which {
                "neg" => (za.iter().map(|c| c.neg()).collect(), ea.add(trunc)),
                "rescale" => (za.clone(), ea.add(trunc)),
                "mul_pow2" => (za.iter().map(|c| c.scale2(bits as i32)).collect(), ea.scale(2f64.powi(bits as i32)).add(trunc)),
                "div_pow2" => (za.iter().map(|c| c.scale2(-(bits as i32))).collect(), ea.scale(2f64.powi(-(bits as i32))).add(trunc)),
                "rotate" => ((0..m).map(|j| za[(j as i64 + rot).rem_euclid(m as i64) as usize]).collect(), ea.add(ks).add(trunc)),
                "conjugate" => (za.iter().map(|c| c.conj()).collect(), ea.add(ks).add(trunc)),
                _ => unreachable!(),
            };
            // rescale_into into a destination that cannot hold delta+budget: only admissible if the library reports an error
            // or a consistent smaller budget; our shadow cannot predict which, so such cases are generated only as error probes
            if which == "rescale" && !assign && da + budget > dmax {
                return self.probe_rescale_small(a, bits, dmax, rng, rep);
            }
            if !self.admissible(&z, e, *budget) {
                rep.count("skipped_inadmissible", 1);
                return;
            }
            out_z = z;
            out_e = e;
        }
        // execute
        let form = if assign { "assign" } else { "into" };
        let mut dst = if assign { clone_ct(&self.reg(a).ct) } else { self.make_dst(rng, dmax) };
        let oms = [om("a", &self.reg(a).ct)];
        let res = {
            let Prog { ctx, regs, .. } = self;
            let ctx = &mut **ctx;
            let src = &regs[a].as_ref().unwrap().ct;
            guarded(|| {
                let s = ctx.scratch.borrow();
                match (which, assign) {
                    ("neg", false) => lib!(ctx.module.ckks_neg_into(&mut dst, src, s)),
                    ("neg", true) => lib!(ctx.module.ckks_neg_assign(&mut dst)),
                    ("rescale", false) => lib!(ctx.module.ckks_rescale_into(&mut dst, bits, src, s)),
                    ("rescale", true) => lib!(ctx.module.ckks_rescale_assign(&mut dst, bits, s)),
                    ("mul_pow2", false) => lib!(ctx.module.ckks_mul_pow2_into(&mut dst, src, bits, s)),
                    ("mul_pow2", true) => lib!(ctx.module.ckks_mul_pow2_assign(&mut dst, bits, s)),
                    ("div_pow2", false) => lib!(ctx.module.ckks_div_pow2_into(&mut dst, src, bits, s)),
                    ("div_pow2", true) => lib!(ctx.module.ckks_div_pow2_assign(&mut dst, bits)),
                    ("rotate", false) => lib!(ctx.module.ckks_rotate_into(&mut dst, src, rot, &ctx.atks, s)),
                    ("rotate", true) => lib!(ctx.module.ckks_rotate_assign(&mut dst, rot, &ctx.atks, s)),
                    ("conjugate", false) => lib!(ctx.module.ckks_conjugate_into(&mut dst, src, &ctx.atks[&-1], s)),
                    ("conjugate", true) => lib!(ctx.module.ckks_conjugate_assign(&mut dst, &ctx.atks[&-1], s)),
                    _ => unreachable!(),
                }
            })
        };
        let extra = jo! {"bits" => bits, "rot" => rot, "dst_mode" => format!("{mode:?}"), "dst_max_k" => dmax, "has_key" => !missing_key};
        let out = if matches!(expect, Expect::Ok { .. }) { Some(Reg { ct: dst, z: out_z, e: out_e }) } else { None };
        let fl = Flags { min_in_budget: ba, pin_delta: true, ..Default::default() };
        self.finish(rep, which, form, Some(d), res, &expect, out, &oms, extra, fl);
    }

    /// `ckks_rescale_into` with a destination too small for the rescaled value: the call may fail or succeed, but a success
    /// must leave metadata that fits the destination (log_delta + log_budget <= max_k).
    fn probe_rescale_small(&mut self, a: usize, bits: usize, dmax: usize, rng: &mut Rng, rep: &mut Report) {
        let mut dst = self.make_dst(rng, dmax);
        let oms = [om("a", &self.reg(a).ct)];
        let res = {
            let Prog { ctx, regs, .. } = self;
            let ctx = &mut **ctx;
            let src = &regs[a].as_ref().unwrap().ct;
            guarded(|| lib!(ctx.module.ckks_rescale_into(&mut dst, bits, src, ctx.scratch.borrow())))
        };
        rep.case("rescale_into_small_dst", &format!("{}|{}|{}|{}|{}", BE_NAME, oms[0].d, oms[0].b, bits, dmax), true);
        let extra = jo! {"bits" => bits, "dst_max_k" => dmax, "dst_mode" => "Smaller"};
        match res {
            Err(pm) => rep.violate("rescale_into", self.desc("rescale", "into", "rescale_into_small_dst", "panic", &oms, extra), format!("panic: {pm}")),
            Ok(Err(_)) => rep.count("rescale_small_dst_err", 1),
            Ok(Ok(())) => {
                if dst.effective_k() > dst.max_k().as_usize() {
                    let mut ops = oms.to_vec();
                    ops.push(om("res", &dst));
                    violate_classed(
                        rep,
                        "rescale_into",
                        "rescale_into_small_dst",
                        self.desc("rescale", "into", "rescale_into_small_dst", "meta", &ops, extra),
                        format!("Ok with log_delta+log_budget={} > destination max_k={}", dst.effective_k(), dst.max_k().as_usize()),
                    );
                }
            }
        }
    }

    // -------------------------------------------------------------------------------------------------
    // ct x ct family: add, sub, mul, square
    // -------------------------------------------------------------------------------------------------
    fn ensure_compact(&mut self, idx: &[usize], rng: &mut Rng, rep: &mut Report) {
        for &i in idx {
            if !compacted(&self.reg(i).ct) {
                self.do_compact(i, rng.coin(), rep);
            }
        }
    }

    fn do_compact(&mut self, i: usize, copy: bool, rep: &mut Report) {
        let r = self.regs[i].take().unwrap();
        let oms = [om("a", &r.ct)];
        let (da, ba) = (r.ct.log_delta(), r.ct.log_budget());
        let mut ct = r.ct;
        let mut newct: Option<Ct> = None;
        let res = {
            let ctx = &mut *self.ctx;
            guarded(|| {
                if copy {
                    lib!(ctx.module.ckks_compact_limbs_copy(&ct)).map(|c| {
                        newct = Some(c);
                    })
                } else {
                    lib!(ctx.module.ckks_compact_limbs(&mut ct))
                }
            })
        };
        let outct = if copy { newct.unwrap_or(ct) } else { ct };
        let expect = Expect::Ok { delta: da, budget: ba };
        let want_size = (da + ba).div_ceil(self.ctx.p.base2k);
        let size_ok = outct.size() == want_size;
        let shrink = if outct.size() < oms[0].size { self.ctx.trunc(ba, outct.max_k().as_usize()) } else { Eb::default() };
        let out = Reg { ct: outct, z: r.z, e: r.e.add(shrink) };
        let fl = Flags { min_in_budget: ba, pin_delta: true, ..Default::default() };
        let op = if copy { "compact_limbs_copy" } else { "compact_limbs" };
        let ok = matches!(res, Ok(Ok(())));
        let oms2 = oms;
        self.finish(rep, op, "-", Some(i), res, &expect, Some(out), &oms2, J::obj(), fl);
        if ok && !size_ok {
            rep.violate(op, self.desc(op, "-", "generic", "meta", &oms2, jo! {"want_size" => want_size}), "compacted ciphertext does not have ceil(effective_k/base2k) limbs".into());
        }
    }

    fn do_binary(&mut self, which: &'static str, rng: &mut Rng, rep: &mut Report) {
        let p = self.ctx.p;
        let a = rng.usize_in(0, NREG - 1);
        let b = if which == "square" { a } else { rng.usize_in(0, NREG - 1) };
        let d = rng.usize_in(0, NREG - 1);
        let mul_like = which == "mul" || which == "square";
        if mul_like {
            if !self.pol.allow_uncompacted_mul {
                self.ensure_compact(&[a, b], rng, rep);
                if self.regs[a].is_none() || self.regs[b].is_none() {
                    return;
                }
            }
            if !self.pol.allow_unequal_delta_mul && self.reg(a).ct.log_delta() != self.reg(b).ct.log_delta() {
                rep.count("skipped_unequal_delta_mul", 1);
                return;
            }
        }
        let (da, ba, ea, amax, asize) = {
            let r = self.reg(a);
            (r.ct.log_delta(), r.ct.log_budget(), r.e, r.ct.max_k().as_usize(), r.ct.size())
        };
        let (db, bb, eb, bmax, bsize) = {
            let r = self.reg(b);
            (r.ct.log_delta(), r.ct.log_budget(), r.e, r.ct.max_k().as_usize(), r.ct.size())
        };
        let (effa, effb) = (da + ba, db + bb);
        let assign = rng.chance(2, 5);
        let unsafe_form = !assign && !mul_like && rng.chance(1, 4);
        let dmin = da.min(db);
        // natural result
        let (nat_d, nat_b, nat_err): (usize, usize, Option<EK>) = if mul_like {
            if ba + bb < effa.max(effb) {
                // the product needs more budget than the operands hold together
                (dmin, 0, Some(EK::MulUnderflow))
            } else {
                // value-consistent budget: t_a t_b 2^{cnv} with cnv = max(eff)  =>  B = Ba + Bb - max(eff_a, eff_b)
                (dmin, (ba + bb).saturating_sub(effa.max(effb)), None)
            }
        } else {
            (dmin, ba.min(bb), None)
        };
        let (mode, dmax) = if assign { (DstMode::Full, amax) } else { self.pick_dmax(rng, nat_d + nat_b, nat_d) };
        let expect = if let Some(k) = nat_err {
            Expect::Err(vec![k, EK::Insufficient])
        } else if mul_like {
            let off = (nat_b + nat_d).saturating_sub(dmax);
            // either documented variant is a faithful report of "more budget needed than remains" for a product
            if off > nat_b { Expect::Err(vec![EK::Insufficient, EK::MulUnderflow]) } else { Expect::Ok { delta: nat_d, budget: nat_b - off } }
        } else if assign {
            Expect::Ok { delta: nat_d, budget: nat_b }
        } else {
            let off = effa.min(effb).saturating_sub(dmax);
            if off > nat_b { Expect::Err(vec![EK::Insufficient]) } else { Expect::Ok { delta: nat_d, budget: nat_b - off } }
        };
        if matches!(expect, Expect::Err(_)) && !self.pol.error_paths {
            return;
        }
        let mut out_z: Vec<Cx> = Vec::new();
        let mut out_e = Eb::default();
        let oms_comp = (compacted(&self.reg(a).ct), compacted(&self.reg(b).ct));
        if let Expect::Ok { budget, delta } = &expect {
            let (za, zb) = (&self.reg(a).z, &self.reg(b).z);
            let (ma, mb) = (vmag(za), vmag(zb));
            let trunc = self.ctx.trunc(*budget, dmax);
            let lin_trunc = if dmax < asize.max(bsize) * p.base2k { trunc.scale(2.0) } else { Eb::default() };
            let (z, e): (Vec<Cx>, Eb) = match which {
                "add" => (za.iter().zip(zb).map(|(x, y)| x.add(*y)).collect(), ea.add(eb).add(lin_trunc)),
                "sub" => (za.iter().zip(zb).map(|(x, y)| x.sub(*y)).collect(), ea.add(eb).add(lin_trunc)),
                _ => {
                    // bits of an operand below its effective_k are masked off (floor) before the tensor product
                    // (an operand with spare limbs is cut at its effective precision as well: the limbs below it are dropped)
                    let mask_a = if (da + ba) % p.base2k != 0 || !oms_comp.0 { Eb::new(self.ctx.u(da), self.ctx.hard_ct(-(da as i32))) } else { Eb::default() };
                    let mask_b = if (db + bb) % p.base2k != 0 || !oms_comp.1 { Eb::new(self.ctx.u(db), self.ctx.hard_ct(-(db as i32))) } else { Eb::default() };
                    let tensor_k = amax.max(bmax).min(dmax);
                    let e = eb
                        .add(mask_b)
                        .scale(ma)
                        .add(ea.add(mask_a).scale(mb))
                        .add(Eb::new(self.ctx.u(*delta) + self.ctx.e_ks(*budget), ea.add(mask_a).limit() * eb.add(mask_b).limit() / HTOL))
                        .add(self.ctx.trunc(*budget, tensor_k).scale(2.0));
                    (za.iter().zip(zb).map(|(x, y)| x.mul(*y)).collect(), e)
                }
            };
            if !self.admissible(&z, e, *budget) {
                rep.count("skipped_inadmissible", 1);
                return;
            }
            out_z = z;
            out_e = e;
        }
        let form = if assign { "assign" } else if unsafe_form { "into_unsafe_normalize" } else { "into" };
        let mut dst = if assign { clone_ct(&self.reg(a).ct) } else { self.make_dst(rng, dmax) };
        let oms = [om("a", &self.reg(a).ct), om("b", &self.reg(b).ct)];
        let uncompacted = !oms[0].comp || !oms[1].comp;
        let res = {
            let Prog { ctx, regs, .. } = self;
            let ctx = &mut **ctx;
            let ca = &regs[a].as_ref().unwrap().ct;
            let cb = &regs[b].as_ref().unwrap().ct;
            guarded(|| {
                let s = ctx.scratch.borrow();
                match (which, assign) {
                    ("add", false) if unsafe_form => {
                        let r = lib!(unsafe { ctx.module.ckks_add_into_unsafe(&mut dst, ca, cb, s) });
                        if r.is_ok() {
                            ctx.module.glwe_normalize_assign(&mut dst, s);
                        }
                        r
                    }
                    ("sub", false) if unsafe_form => {
                        let r = lib!(unsafe { ctx.module.ckks_sub_into_unsafe(&mut dst, ca, cb, s) });
                        if r.is_ok() {
                            ctx.module.glwe_normalize_assign(&mut dst, s);
                        }
                        r
                    }
                    ("add", false) => lib!(ctx.module.ckks_add_into(&mut dst, ca, cb, s)),
                    ("add", true) => lib!(ctx.module.ckks_add_assign(&mut dst, cb, s)),
                    ("sub", false) => lib!(ctx.module.ckks_sub_into(&mut dst, ca, cb, s)),
                    ("sub", true) => lib!(ctx.module.ckks_sub_assign(&mut dst, cb, s)),
                    ("mul", false) => lib!(ctx.module.ckks_mul_into(&mut dst, ca, cb, &ctx.tsk, s)),
                    ("mul", true) => lib!(ctx.module.ckks_mul_assign(&mut dst, cb, &ctx.tsk, s)),
                    ("square", false) => lib!(ctx.module.ckks_square_into(&mut dst, ca, &ctx.tsk, s)),
                    ("square", true) => lib!(ctx.module.ckks_square_assign(&mut dst, &ctx.tsk, s)),
                    _ => unreachable!(),
                }
            })
        };
        let extra = jo! {"dst_mode" => format!("{mode:?}"), "dst_max_k" => dmax, "same_operand" => a == b};
        let out = if matches!(expect, Expect::Ok { .. }) { Some(Reg { ct: dst, z: out_z, e: out_e }) } else { None };
        let budget_disc = if mul_like { (ba.max(bb) + da.max(db)).saturating_sub(effa.max(effb)) } else { 0 };
        let fl = Flags { mul_like, uncompacted, delta_diff: da.abs_diff(db), budget_disc, min_in_budget: ba.min(bb), pin_delta: true, wide_const: false };
        self.finish(rep, which, form, Some(d), res, &expect, out, &oms[..if which == "square" { 1 } else { 2 }], extra, fl);
    }
}

// =====================================================================================================
// driver
// =====================================================================================================
fn param_sets(f128: bool) -> Vec<Params> {
    let mk = |n, base2k, k, delta| Params { n, base2k, k, delta, dsize: 1 };
    if IS_FFT64 {
        // inside the FFT64 exactness domain (the crate's own FFT64 parameter family: base2k <= 19 at N <= 256)
        if f128 { vec![mk(64, 19, 152, 30)] } else { vec![mk(256, 19, 152, 30), mk(64, 19, 152, 30), mk(128, 17, 153, 28), mk(32, 18, 150, 30)] }
    } else if f128 {
        vec![mk(256, 52, 640, 80), mk(64, 52, 624, 80), mk(32, 52, 500, 70)]
    } else {
        vec![mk(256, 52, 320, 40), mk(64, 52, 364, 45), mk(16, 52, 312, 40), mk(128, 52, 300, 36)]
    }
}

fn run_elem<F: Elem>(cfg: &Cfg, rep: &mut Report, programs: u64, f128: bool) {
    let sets = param_sets(f128);
    let only_clean = cfg.mode == "avoid-known";
    let only = cfg.extra.get("only").cloned();
    for (si, p) in sets.iter().enumerate() {
        let nprog = (programs as usize).div_ceil(sets.len()).max(1);
        let mut rng = cfg.rng(&format!("c16-{BE_NAME}-{}-set{si}", F::NAME));
        if let Some(o) = &only {
            if !o.contains(&format!("{}-{}-s{}-sh{}-set{}-", BE_NAME, F::NAME, cfg.seed, cfg.shard, si)) {
                continue;
            }
        }
        let mut ctx = match guarded(|| Ctx::<F>::new(*p, &mut rng.clone())) {
            Ok(c) => c,
            Err(pm) => {
                rep.inconclusive.push(format!("c16: context construction panicked for {p:?} on {BE_NAME}: {pm}"));
                continue;
            }
        };
        rng.next_u64();
        encode_checks(&mut ctx, &mut rng, rep);
        for pi in 0..nprog {
            let id = format!("{}-{}-s{}-sh{}-set{}-p{}", BE_NAME, F::NAME, cfg.seed, cfg.shard, si, pi);
            let mut rng = cfg.rng(&format!("c16-prog-{id}"));
            let w = rng.below(8);
            let pol = Policy {
                allow_uncompacted_mul: !only_clean && w == 0,
                allow_unequal_delta_mul: !only_clean && w == 1,
                allow_wide_const: !only_clean && w == 2,
                allow_rescale_small_dst: !only_clean && w == 3,
                error_paths: rng.chance(3, 5),
            };
            if let Some(o) = &only {
                if *o != id {
                    continue;
                }
            }
            let trace = only.is_some();
            let mut prog = Prog { ctx: &mut ctx, regs: (0..NREG).map(|_| None).collect(), pol, id, step: 0, enc_ctr: 0, trace, focus: cfg.extra.get("focus").cloned(), f17_alt: None, unverified: false };
            let steps = rng.usize_in(10, 28);
            rep.count("programs", 1);
            for _ in 0..steps {
                prog.step(&mut rng, rep);
            }
        }
    }
}

impl<'a, F: Elem> Prog<'a, F> {
    fn step(&mut self, rng: &mut Rng, rep: &mut Report) {
        self.step += 1;
        self.f17_alt = None;
        for r in 0..NREG {
            if self.regs[r].is_none() {
                self.fresh(r, rng, rep);
            }
        }
        if self.regs.iter().any(|r| r.is_none()) {
            return;
        }
        const OPS: &[(&str, u64)] = &[
            ("neg", 4), ("rescale", 6), ("mul_pow2", 4), ("div_pow2", 5), ("rotate", 7), ("conjugate", 4),
            ("add", 8), ("sub", 6), ("mul", 12), ("square", 7),
            ("add_pt", 8), ("sub_pt", 5), ("mul_pt", 9),
            ("mul_add", 5), ("mul_sub", 4), ("add_many", 3), ("mul_many", 2), ("dot_ct", 2), ("align", 3), ("realloc", 3),
            ("compact", 4), ("fresh", 2),
        ];
        let tot: u64 = OPS.iter().map(|o| o.1).sum();
        let mut w = rng.below(tot);
        let mut which = OPS[0].0;
        for (n, wt) in OPS {
            if w < *wt {
                which = n;
                break;
            }
            w -= wt;
        }
        // `--focus <op>`: every other step is the given operation (calibration aid)
        if let Some(f) = &self.focus {
            if rng.coin() {
                if let Some(o) = OPS.iter().find(|o| o.0 == f.as_str()) {
                    which = o.0;
                }
            }
        }
        match which {
            "neg" | "rescale" | "mul_pow2" | "div_pow2" | "rotate" | "conjugate" => self.do_unary(which, rng, rep),
            "add" | "sub" | "mul" | "square" => self.do_binary(which, rng, rep),
            "add_pt" => self.do_pt("add", rng, rep),
            "sub_pt" => self.do_pt("sub", rng, rep),
            "mul_pt" => self.do_pt("mul", rng, rep),
            "mul_add" => self.do_muladd(false, rng, rep),
            "mul_sub" => self.do_muladd(true, rng, rep),
            "add_many" => self.do_add_many(rng, rep),
            "mul_many" => self.do_mul_many(false, rng, rep),
            "dot_ct" => self.do_mul_many(true, rng, rep),
            "align" => self.do_align(rng, rep),
            "realloc" => self.do_realloc(rng, rep),
            "compact" => {
                let i = rng.usize_in(0, NREG - 1);
                self.do_compact(i, rng.coin(), rep)
            }
            "fresh" => {
                let i = rng.usize_in(0, NREG - 1);
                self.fresh(i, rng, rep)
            }
            _ => unreachable!(),
        }
    }
}

/// encode -> decode identity (element type precision), encode -> quantise -> decode (2^-log_delta), and for small
/// rings the encoder against a naive evaluation of the packed polynomial at the roots zeta^(5^j)
fn encode_checks<F: Elem>(ctx: &mut Ctx<F>, rng: &mut Rng, rep: &mut Report) {
    let p = ctx.p;
    let m = ctx.m();
    for it in 0..6 {
        let class = rng.below(8);
        let r = 2f64.powi(rng.i64_in(-8, 10) as i32);
        let z = rand_slots(rng, m, class, r);
        let mag = vmag(&z);
        let rnx = ctx.encode_rnx(&z);
        // (1) slot encoder round trip in the element type
        let mut re = vec![F::zero(); m];
        let mut im = vec![F::zero(); m];
        let rr = guarded(|| lib!(ctx.encoder.decode_reim(&rnx, &mut re, &mut im)));
        let desc = jo! {"backend" => BE_NAME, "elem" => F::NAME, "op" => "encode_decode", "class" => "generic", "n" => p.n, "value_class" => class, "radius" => r};
        rep.case("encode_decode", &format!("{}|{}|{}|{class}|{r}", BE_NAME, F::NAME, p.n), class != 6);
        match rr {
            Err(pm) => rep.violate("encode_decode", desc.clone(), format!("panic: {pm}")),
            Ok(Err(e)) => rep.violate("encode_decode", desc.clone(), format!("error: {}", e.msg)),
            Ok(Ok(())) => {
                let mut worst = 0.0f64;
                for i in 0..m {
                    let g = Cx { re: re[i].to_dd(), im: im[i].to_dd() };
                    worst = worst.max(g.sub(z[i]).abs());
                }
                let unit = mag.max(f64::MIN_POSITIVE) * 2f64.powi(-(F::MANT - 1)) * ((p.n as f64).log2() + 2.0);
                rep.maxf(&format!("encode_decode_err_over_eps:{}", F::NAME), worst / unit);
                if worst > KTOL * unit {
                    rep.violate("encode_decode", desc.clone(), format!("decode(encode(z)) differs from z by {worst:.3e} > {KTOL} x {unit:.3e}"));
                }
            }
        }
        // (2) naive evaluation at the roots for small rings: slot j = p(zeta^(5^j)), zeta = exp(i pi / N)
        if p.n <= 64 && it < 2 {
            let coeffs: Vec<f64> = rnx.data().iter().map(|c| ToPrimitive::to_f64(c).unwrap()).collect();
            let two_n = 2 * p.n;
            let mut g = 1usize;
            let mut worst = 0.0f64;
            for j in 0..m {
                let (mut sr, mut si) = (0.0f64, 0.0f64);
                for (t, c) in coeffs.iter().enumerate() {
                    let ang = std::f64::consts::PI * ((g * t) % two_n) as f64 / p.n as f64;
                    sr += c * ang.cos();
                    si += c * ang.sin();
                }
                worst = worst.max(Cx::new(sr, si).sub(z[j]).abs());
                g = (g * 5) % two_n;
            }
            let unit = mag.max(f64::MIN_POSITIVE) * 2f64.powi(-44) * p.n as f64;
            rep.case("encode_vs_naive", &format!("{}|{}|{}|{class}|{r}", BE_NAME, F::NAME, p.n), class != 6);
            rep.maxf("encode_vs_naive_err_over_unit", worst / unit);
            if worst > unit {
                let mut d = desc.clone();
                d.put("op", "encode_vs_naive");
                rep.violate("encode_vs_naive", d, format!("packed polynomial evaluated at zeta^(5^j) differs from slot j by {worst:.3e}"));
            }
        }
        // (3) quantised round trip: encode -> to_znx -> decode_from_znx -> decode
        let delta = *rng.pick(&[p.delta, p.delta.saturating_sub(9).max(6), (p.delta + 8).min(F::MAX_PT_DELTA)]);
        let need = (mag.log2().ceil() as i64 + 2).max(1) as usize;
        let budget = rng.usize_in(need, (need + 20).min(120 - delta));
        let meta = CKKSMeta { log_delta: delta, log_budget: budget };
        let r3 = guarded(|| ctx.encode_znx(&z, meta).and_then(|pt| ctx.decode_znx(&pt)));
        let mut d3 = desc.clone();
        d3.put("op", "encode_quantise_decode");
        d3.put("pt_log_delta", delta);
        d3.put("pt_log_budget", budget);
        rep.case("encode_quantise_decode", &format!("{}|{}|{}|{class}|{r}|{delta}|{budget}", BE_NAME, F::NAME, p.n), class != 6);
        match r3 {
            Err(pm) => rep.violate("encode_quantise_decode", d3, format!("panic: {pm}")),
            Ok(Err(e)) => rep.violate("encode_quantise_decode", d3, format!("error: {}", e.msg)),
            Ok(Ok(got)) => {
                let worst = got.iter().zip(&z).map(|(g, w)| g.sub(*w).abs()).fold(0.0f64, f64::max);
                let unit = ctx.u(delta) + mag * ctx.eps_f();
                rep.maxf("quantise_err_over_unit", worst / unit);
                if worst > QTOL * unit {
                    rep.violate("encode_quantise_decode", d3, format!("quantised round trip error {worst:.3e} > {QTOL} x {unit:.3e}"));
                }
            }
        }
    }
}

pub fn run(cfg: &Cfg, rep: &mut Report) {
    // programs per backend for the whole run (all shards together)
    let total = cfg.budget(18_000, 360_000);
    run_elem::<f64>(cfg, rep, total, false);
    #[cfg(feature = "f128")]
    run_elem::<f128::f128>(cfg, rep, (total / 4).max(1), true);
    #[cfg(not(feature = "f128"))]
    rep.notes.push("c16: built without the f128 feature: only the f64 element type was exercised".into());
}

// =====================================================================================================
// plaintext operands
// =====================================================================================================
struct PtOp<F: Elem> {
    kind: &'static str,
    /// slot-wise value of the plaintext (a constant is replicated)
    z: Vec<Cx>,
    mag: f64,
    meta: CKKSMeta,
    /// rounded-up storage width of the plaintext (prec.min_k)
    max_k: usize,
    vec_znx: Option<CKKSPlaintextVecZnx<Vec<u8>>>,
    vec_rnx: Option<CKKSPlaintextVecRnx<F>>,
    cst_rnx: Option<CKKSPlaintextCstRnx<F>>,
    cst: (Option<f64>, Option<f64>),
}
const PT_KINDS: [&str; 4] = ["pt_vec_znx", "pt_vec_rnx", "pt_const_znx", "pt_const_rnx"];

impl<'a, F: Elem> Prog<'a, F> {
    fn make_pt(&mut self, rng: &mut Rng, kind: &'static str, a_delta: usize) -> Option<PtOp<F>> {
        let p = self.ctx.p;
        let m = self.ctx.m();
        let dp = (*rng.pick(&[p.delta as i64, p.delta as i64 - 6, p.delta as i64 + 4, a_delta as i64, a_delta as i64 - 3])).clamp(8, F::MAX_PT_DELTA as i64) as usize;
        let is_const = kind.contains("const");
        let r = 2f64.powi(rng.i64_in(-4, 3) as i32);
        let unit = |rng: &mut Rng| ((rng.next_u64() >> 24) as f64 / (1u64 << 40) as f64 * 2.0 - 1.0) * r;
        let (z, cst): (Vec<Cx>, (Option<f64>, Option<f64>)) = if is_const {
            let c = match rng.below(8) {
                0 => (None, None),
                1 | 2 => (Some(unit(rng)), None),
                3 => (None, Some(unit(rng))),
                4 => (Some(r), Some(-r)),
                _ => (Some(unit(rng)), Some(unit(rng))),
            };
            (vec![Cx::new(c.0.unwrap_or(0.0), c.1.unwrap_or(0.0)); m], c)
        } else {
            let class = rng.below(8);
            (rand_slots(rng, m, class, r), (None, None))
        };
        let mag = vmag(&z);
        let need = if mag > 0.0 { (mag.log2().floor() as i64 + 3).max(1) as usize } else { 1 };
        let bp = need + rng.usize_in(0, 8);
        if dp + bp > 118 {
            return None;
        }
        let meta = CKKSMeta { log_delta: dp, log_budget: bp };
        let max_k = round_up(dp + bp, p.base2k);
        let mut op = PtOp { kind, z, mag, meta, max_k, vec_znx: None, vec_rnx: None, cst_rnx: None, cst };
        match kind {
            "pt_vec_znx" => match self.ctx.encode_znx(&op.z, meta) {
                Ok(pt) => op.vec_znx = Some(pt),
                Err(_) => return None,
            },
            "pt_vec_rnx" => op.vec_rnx = Some(self.ctx.encode_rnx(&op.z)),
            _ => op.cst_rnx = Some(CKKSPlaintextCstRnx::<F>::new(cst.0.map(|x| F::from_f64(x).unwrap()), cst.1.map(|x| F::from_f64(x).unwrap()))),
        }
        Some(op)
    }

    /// quantisation error of the plaintext operand in slot space
    fn pt_err(&self, pt: &PtOp<F>) -> Eb {
        if pt.kind.contains("const") {
            Eb::new(2f64.powi(-(pt.meta.log_delta as i32)) + pt.mag * 2f64.powi(-(F::MANT - 2)), 0.0)
        } else {
            Eb::new(self.ctx.u(pt.meta.log_delta) + pt.mag * self.ctx.eps_f(), 0.0)
        }
    }

    // -------------------------------------------------------------------------------------------------
    // ct (+,-,x) plaintext: vector / constant, ZNX / RNX, into / assign
    // -------------------------------------------------------------------------------------------------
    fn do_pt(&mut self, which: &'static str, rng: &mut Rng, rep: &mut Report) {
        let p = self.ctx.p;
        let a = rng.usize_in(0, NREG - 1);
        let d = rng.usize_in(0, NREG - 1);
        let kind = *rng.pick(&PT_KINDS);
        let is_mul = which == "mul";
        let vec_mul = is_mul && kind.contains("vec");
        if vec_mul && !self.pol.allow_uncompacted_mul {
            self.ensure_compact(&[a], rng, rep);
            if self.regs[a].is_none() {
                return;
            }
        }
        let (da, ba, ea, amax, asize) = {
            let r = self.reg(a);
            (r.ct.log_delta(), r.ct.log_budget(), r.e, r.ct.max_k().as_usize(), r.ct.size())
        };
        let Some(pt) = self.make_pt(rng, kind, da) else { return };
        let (dp, _bp) = (pt.meta.log_delta, pt.meta.log_budget);
        let eff = da + ba;
        let assign = rng.chance(2, 5);
        let empty_const = kind.contains("const") && pt.cst == (None, None);
        // natural result and destination
        let (nat_b, nat_err) = if is_mul { if ba < dp { (0, Some(EK::MulUnderflow)) } else { (ba - dp, None) } } else { (ba, None) };
        let (mode, dmax) = if assign { (DstMode::Full, amax) } else { self.pick_dmax(rng, da + nat_b, da) };
        // reference algebra
        let mut misalign = 0usize;
        let expect = if let Some(k) = nat_err {
            Expect::Err(vec![k])
        } else if is_mul {
            let off = (nat_b + da).saturating_sub(dmax);
            if off > nat_b { Expect::Err(vec![EK::Insufficient]) } else { Expect::Ok { delta: da, budget: nat_b - off } }
        } else {
            let off = if assign { 0 } else { eff.saturating_sub(dmax) };
            if off > ba {
                Expect::Err(vec![EK::Insufficient])
            } else {
                let b1 = ba - off;
                if kind.contains("vec") && b1 + dp < pt.max_k {
                    Expect::Err(vec![EK::Align])
                } else {
                    if kind == "pt_const_znx" && !empty_const && self.pol.error_paths && rng.chance(1, 10) {
                        // a constant encoded for more precision than the destination offers cannot be aligned
                        misalign = rng.usize_in(1, 40);
                        Expect::Err(vec![EK::Align])
                    } else {
                        Expect::Ok { delta: da, budget: b1 }
                    }
                }
            }
        };
        if matches!(expect, Expect::Err(_)) && !self.pol.error_paths {
            return;
        }
        let mut wide_const = false;
        if let (false, true, false, Expect::Ok { budget, .. }) = (is_mul, kind.contains("const"), empty_const, &expect) {
            wide_const = (budget + dp).div_ceil(p.base2k) > dmax / p.base2k;
            if wide_const && !self.pol.allow_wide_const {
                rep.count("skipped_wide_const", 1);
                return;
            }
        }
        // the constant in ZNX form: for add/sub it must be pre-aligned to the destination (documented: to_znx_at_k with
        // k = dst.log_budget + log_delta); for mul the default encoding is used
        let mut cst_znx: Option<CKKSPlaintextCstZnx> = None;
        if kind == "pt_const_znx" {
            let rnx = pt.cst_rnx.as_ref().unwrap();
            let r = if is_mul {
                lib!(rnx.to_znx(Base2K(p.base2k as u32), pt.meta))
            } else {
                let b1 = match &expect {
                    Expect::Ok { budget, .. } => *budget,
                    _ => ba.saturating_sub(if assign { 0 } else { eff.saturating_sub(dmax) }),
                };
                lib!(rnx.to_znx_at_k(Base2K(p.base2k as u32), b1 + dp + misalign, dp))
            };
            match r {
                Ok(c) => cst_znx = Some(c),
                Err(_) => return,
            }
        }
        // shadow
        let mut out_z: Vec<Cx> = Vec::new();
        let mut out_e = Eb::default();
        if let Expect::Ok { budget, .. } = &expect {
            let za = &self.reg(a).z;
            let ma = vmag(za);
            let qe = self.pt_err(&pt);
            let trunc = if dmax < asize * p.base2k || is_mul { self.ctx.trunc(*budget, dmax) } else { Eb::default() };
            let (z, e): (Vec<Cx>, Eb) = match which {
                "add" => (za.iter().zip(&pt.z).map(|(x, y)| x.add(*y)).collect(), ea.add(qe).add(trunc).add(Eb::new(self.ctx.sqn() * 2f64.powi(*budget as i32 - dmax as i32), self.ctx.hard_pt(*budget as i32 - dmax as i32)))),
                "sub" => (za.iter().zip(&pt.z).map(|(x, y)| x.sub(*y)).collect(), ea.add(qe).add(trunc).add(Eb::new(self.ctx.sqn() * 2f64.powi(*budget as i32 - dmax as i32), self.ctx.hard_pt(*budget as i32 - dmax as i32)))),
                _ => {
                    let mask_a = if vec_mul && (eff % p.base2k != 0 || !compacted(&self.reg(a).ct)) { Eb::new(self.ctx.u(da), self.ctx.hard_ct(-(da as i32))) } else { Eb::default() };
                    let e = ea
                        .add(mask_a)
                        .scale(pt.mag)
                        .add(qe.scale(ma))
                        .add(Eb::new(self.ctx.u(da), ea.add(mask_a).limit() * qe.limit() / HTOL))
                        .add(trunc.scale(3.0));
                    (za.iter().zip(&pt.z).map(|(x, y)| x.mul(*y)).collect(), e)
                }
            };
            if !self.admissible(&z, e, *budget) {
                rep.count("skipped_inadmissible", 1);
                return;
            }
            out_z = z;
            out_e = e;
        }
        let form = if assign { "assign" } else { "into" };
        let mut dst = if assign { clone_ct(&self.reg(a).ct) } else { self.make_dst(rng, dmax) };
        let oms = [om("a", &self.reg(a).ct)];
        let prec = pt.meta;
        let res = {
            let Prog { ctx, regs, .. } = self;
            let ctx = &mut **ctx;
            let ca = &regs[a].as_ref().unwrap().ct;
            guarded(|| {
                let s = ctx.scratch.borrow();
                let md = &ctx.module;
                match (which, kind, assign) {
                    ("add", "pt_vec_znx", false) => lib!(md.ckks_add_pt_vec_znx_into(&mut dst, ca, pt.vec_znx.as_ref().unwrap(), s)),
                    ("add", "pt_vec_znx", true) => lib!(md.ckks_add_pt_vec_znx_assign(&mut dst, pt.vec_znx.as_ref().unwrap(), s)),
                    ("add", "pt_vec_rnx", false) => lib!(md.ckks_add_pt_vec_rnx_into(&mut dst, ca, pt.vec_rnx.as_ref().unwrap(), prec, s)),
                    ("add", "pt_vec_rnx", true) => lib!(md.ckks_add_pt_vec_rnx_assign(&mut dst, pt.vec_rnx.as_ref().unwrap(), prec, s)),
                    ("add", "pt_const_znx", false) => lib!(md.ckks_add_pt_const_znx_into(&mut dst, ca, cst_znx.as_ref().unwrap(), s)),
                    ("add", "pt_const_znx", true) => lib!(md.ckks_add_pt_const_znx_assign(&mut dst, cst_znx.as_ref().unwrap(), s)),
                    ("add", "pt_const_rnx", false) => lib!(md.ckks_add_pt_const_rnx_into(&mut dst, ca, pt.cst_rnx.as_ref().unwrap(), prec, s)),
                    ("add", "pt_const_rnx", true) => lib!(md.ckks_add_pt_const_rnx_assign(&mut dst, pt.cst_rnx.as_ref().unwrap(), prec, s)),
                    ("sub", "pt_vec_znx", false) => lib!(md.ckks_sub_pt_vec_znx_into(&mut dst, ca, pt.vec_znx.as_ref().unwrap(), s)),
                    ("sub", "pt_vec_znx", true) => lib!(md.ckks_sub_pt_vec_znx_assign(&mut dst, pt.vec_znx.as_ref().unwrap(), s)),
                    ("sub", "pt_vec_rnx", false) => lib!(md.ckks_sub_pt_vec_rnx_into(&mut dst, ca, pt.vec_rnx.as_ref().unwrap(), prec, s)),
                    ("sub", "pt_vec_rnx", true) => lib!(md.ckks_sub_pt_vec_rnx_assign(&mut dst, pt.vec_rnx.as_ref().unwrap(), prec, s)),
                    ("sub", "pt_const_znx", false) => lib!(md.ckks_sub_pt_const_znx_into(&mut dst, ca, cst_znx.as_ref().unwrap(), s)),
                    ("sub", "pt_const_znx", true) => lib!(md.ckks_sub_pt_const_znx_assign(&mut dst, cst_znx.as_ref().unwrap(), s)),
                    ("sub", "pt_const_rnx", false) => lib!(md.ckks_sub_pt_const_rnx_into(&mut dst, ca, pt.cst_rnx.as_ref().unwrap(), prec, s)),
                    ("sub", "pt_const_rnx", true) => lib!(md.ckks_sub_pt_const_rnx_assign(&mut dst, pt.cst_rnx.as_ref().unwrap(), prec, s)),
                    ("mul", "pt_vec_znx", false) => lib!(md.ckks_mul_pt_vec_znx_into(&mut dst, ca, pt.vec_znx.as_ref().unwrap(), s)),
                    ("mul", "pt_vec_znx", true) => lib!(md.ckks_mul_pt_vec_znx_assign(&mut dst, pt.vec_znx.as_ref().unwrap(), s)),
                    ("mul", "pt_vec_rnx", false) => lib!(md.ckks_mul_pt_vec_rnx_into(&mut dst, ca, pt.vec_rnx.as_ref().unwrap(), prec, s)),
                    ("mul", "pt_vec_rnx", true) => lib!(md.ckks_mul_pt_vec_rnx_assign(&mut dst, pt.vec_rnx.as_ref().unwrap(), prec, s)),
                    ("mul", "pt_const_znx", false) => lib!(md.ckks_mul_pt_const_znx_into(&mut dst, ca, cst_znx.as_ref().unwrap(), s)),
                    ("mul", "pt_const_znx", true) => lib!(md.ckks_mul_pt_const_znx_assign(&mut dst, cst_znx.as_ref().unwrap(), s)),
                    ("mul", "pt_const_rnx", false) => lib!(md.ckks_mul_pt_const_rnx_into(&mut dst, ca, pt.cst_rnx.as_ref().unwrap(), prec, s)),
                    ("mul", "pt_const_rnx", true) => lib!(md.ckks_mul_pt_const_rnx_assign(&mut dst, pt.cst_rnx.as_ref().unwrap(), prec, s)),
                    _ => unreachable!(),
                }
            })
        };
        let extra = jo! {"dst_mode" => format!("{mode:?}"), "dst_max_k" => dmax, "pt_kind" => kind, "pt_log_delta" => dp, "pt_log_budget" => pt.meta.log_budget,
        "pt_max_k" => pt.max_k, "const_re" => pt.cst.0.is_some(), "const_im" => pt.cst.1.is_some(), "misalign" => misalign};
        let out = if matches!(expect, Expect::Ok { .. }) { Some(Reg { ct: dst, z: out_z, e: out_e }) } else { None };
        // log_delta of ct x pt: the implementation keeps the ciphertext's, the crate's test helper documents max(): pinned only when equal
        let fl = Flags { mul_like: vec_mul, uncompacted: !oms[0].comp, min_in_budget: ba, pin_delta: !is_mul || da == dp, wide_const, ..Default::default() };
        let opn: &'static str = match which {
            "add" => "add_pt",
            "sub" => "sub_pt",
            _ => "mul_pt",
        };
        self.finish(rep, &format!("{opn}:{kind}"), form, Some(d), res, &expect, out, &oms, extra, fl);
    }
}

// =====================================================================================================
// composite operations: mul_add / mul_sub, add_many, mul_many, dot products; maintenance: align, reallocate
// =====================================================================================================
impl<'a, F: Elem> Prog<'a, F> {
    /// error bound of the product of registers a and b written with `budget` into a buffer of `dmax` bits
    fn mul_ct_err(&self, a: usize, b: usize, delta: usize, budget: usize, dmax: usize) -> Eb {
        let p = self.ctx.p;
        let (ra, rb) = (self.reg(a), self.reg(b));
        let (da, ba, db, bb) = (ra.ct.log_delta(), ra.ct.log_budget(), rb.ct.log_delta(), rb.ct.log_budget());
        let (ma, mb) = (ra.mag(), rb.mag());
        // same rule as the stand-alone product in do_binary: bits of an operand below its effective_k are masked off (floor) before
        // the tensor product, and an operand with spare limbs is cut at its effective precision as well
        let mask_a = if (da + ba) % p.base2k != 0 || !compacted(&ra.ct) { Eb::new(self.ctx.u(da), self.ctx.hard_ct(-(da as i32))) } else { Eb::default() };
        let mask_b = if (db + bb) % p.base2k != 0 || !compacted(&rb.ct) { Eb::new(self.ctx.u(db), self.ctx.hard_ct(-(db as i32))) } else { Eb::default() };
        let tensor_k = ra.ct.max_k().as_usize().max(rb.ct.max_k().as_usize()).min(dmax);
        rb.e.add(mask_b)
            .scale(ma)
            .add(ra.e.add(mask_a).scale(mb))
            .add(Eb::new(self.ctx.u(delta) + self.ctx.e_ks(budget), ra.e.add(mask_a).limit() * rb.e.add(mask_b).limit() / HTOL))
            .add(self.ctx.trunc(budget, tensor_k).scale(2.0))
    }

    /// reference algebra of ct x ct into a buffer of dmax bits
    fn mul_ct_model(&self, a: usize, b: usize, dmax: usize) -> Result<(usize, usize), EK> {
        let (ra, rb) = (self.reg(a), self.reg(b));
        let (da, ba, db, bb) = (ra.ct.log_delta(), ra.ct.log_budget(), rb.ct.log_delta(), rb.ct.log_budget());
        if ba.min(bb) < da.max(db) {
            return Err(EK::MulUnderflow);
        }
        let nat = (ba + bb).saturating_sub((da + ba).max(db + bb));
        let d = da.min(db);
        let off = (nat + d).saturating_sub(dmax);
        if off > nat { Err(EK::Insufficient) } else { Ok((d, nat - off)) }
    }

    fn do_muladd(&mut self, sub: bool, rng: &mut Rng, rep: &mut Report) {
        let p = self.ctx.p;
        let (a, c, d) = (rng.usize_in(0, NREG - 1), rng.usize_in(0, NREG - 1), rng.usize_in(0, NREG - 1));
        let with_ct = rng.chance(1, 2);
        let b = rng.usize_in(0, NREG - 1);
        let kind: &'static str = if with_ct { "ct" } else { *rng.pick(&PT_KINDS) };
        let needs_compact = with_ct || kind.contains("vec");
        if needs_compact && !self.pol.allow_uncompacted_mul {
            let idx: Vec<usize> = if with_ct { vec![a, b] } else { vec![a] };
            self.ensure_compact(&idx, rng, rep);
            if idx.iter().any(|i| self.regs[*i].is_none()) || self.regs[c].is_none() {
                return;
            }
        }
        if with_ct && !self.pol.allow_unequal_delta_mul && self.reg(a).ct.log_delta() != self.reg(b).ct.log_delta() {
            return;
        }
        let (da, ba) = (self.reg(a).ct.log_delta(), self.reg(a).ct.log_budget());
        let (dc, bc, cmax) = (self.reg(c).ct.log_delta(), self.reg(c).ct.log_budget(), self.reg(c).ct.max_k().as_usize());
        let pt = if with_ct { None } else { self.make_pt(rng, kind, da) };
        if !with_ct && pt.is_none() {
            return;
        }
        let empty_const = pt.as_ref().map(|p| p.kind.contains("const") && p.cst == (None, None)).unwrap_or(false);
        // product part into a temporary with the accumulator's layout
        let prod: Result<(usize, usize), EK> = if with_ct {
            self.mul_ct_model(a, b, cmax)
        } else {
            let dp = pt.as_ref().unwrap().meta.log_delta;
            if empty_const {
                Ok((dc, bc))
            } else if ba < dp {
                Err(EK::MulUnderflow)
            } else {
                let nat = ba - dp;
                let off = (nat + da).saturating_sub(cmax);
                if off > nat { Err(EK::Insufficient) } else { Ok((da, nat - off)) }
            }
        };
        let expect = match prod {
            Err(k) => Expect::Err(vec![k]),
            Ok((dt, bt)) => Expect::Ok { delta: dc.min(dt), budget: bc.min(bt) },
        };
        if matches!(expect, Expect::Err(_)) && !self.pol.error_paths {
            return;
        }
        let mut out_z = Vec::new();
        let mut out_e = Eb::default();
        let mut f17_alt: Option<Vec<Cx>> = None;
        if let (Expect::Ok { budget, .. }, Ok((dt, bt))) = (&expect, &prod) {
            let zc = &self.reg(c).z;
            let za = &self.reg(a).z;
            let (prod_z, prod_e): (Vec<Cx>, Eb) = if with_ct {
                (za.iter().zip(&self.reg(b).z).map(|(x, y)| x.mul(*y)).collect(), self.mul_ct_err(a, b, *dt, *bt, cmax))
            } else if empty_const {
                (vec![Cx::new(0.0, 0.0); za.len()], Eb::default())
            } else {
                let ptr = pt.as_ref().unwrap();
                let qe = self.pt_err(ptr);
                let ea = self.reg(a).e;
                let mask_a = if kind.contains("vec") && ((da + ba) % p.base2k != 0 || !compacted(&self.reg(a).ct)) { Eb::new(self.ctx.u(da), self.ctx.hard_ct(-(da as i32))) } else { Eb::default() };
                let e = ea
                    .add(mask_a)
                    .scale(ptr.mag)
                    .add(qe.scale(vmag(za)))
                    .add(Eb::new(self.ctx.u(da), ea.add(mask_a).limit() * qe.limit() / HTOL))
                    .add(self.ctx.trunc(*bt, cmax).scale(3.0));
                (za.iter().zip(&ptr.z).map(|(x, y)| x.mul(*y)).collect(), e)
            };
            let z: Vec<Cx> = zc.iter().zip(&prod_z).map(|(x, y)| if sub { x.sub(*y) } else { x.add(*y) }).collect();
            if with_ct {
                let (db, bb) = (self.reg(b).ct.log_delta(), self.reg(b).ct.log_budget());
                let disc = (ba.max(bb) + da.max(db)).saturating_sub((da + ba).max(db + bb)) as i32;
                f17_alt = Some(zc.iter().zip(&prod_z).map(|(x, y)| if sub { x.sub(y.scale2(-disc)) } else { x.add(y.scale2(-disc)) }).collect());
            }
            let e = self.reg(c).e.add(prod_e);
            if !self.admissible(&z, e, *budget) {
                rep.count("skipped_inadmissible", 1);
                return;
            }
            out_z = z;
            out_e = e;
        }
        let cst_znx: Option<CKKSPlaintextCstZnx> = if kind == "pt_const_znx" {
            let ptr = pt.as_ref().unwrap();
            match lib!(ptr.cst_rnx.as_ref().unwrap().to_znx(Base2K(p.base2k as u32), ptr.meta)) {
                Ok(c) => Some(c),
                Err(_) => return,
            }
        } else {
            None
        };
        let mut dst = clone_ct(&self.reg(c).ct);
        let mut oms = vec![om("a", &self.reg(a).ct), om("acc", &self.reg(c).ct)];
        if with_ct {
            oms.insert(1, om("b", &self.reg(b).ct));
        }
        let prec = pt.as_ref().map(|p| p.meta).unwrap_or_default();
        let res = {
            let Prog { ctx, regs, .. } = self;
            let ctx = &mut **ctx;
            let ca = &regs[a].as_ref().unwrap().ct;
            let cb = &regs[b].as_ref().unwrap().ct;
            guarded(|| {
                let s = ctx.scratch.borrow();
                let md = &ctx.module;
                match (kind, sub) {
                    ("ct", false) => lib!(md.ckks_mul_add_ct_into(&mut dst, ca, cb, &ctx.tsk, s)),
                    ("ct", true) => lib!(md.ckks_mul_sub_ct_into(&mut dst, ca, cb, &ctx.tsk, s)),
                    ("pt_vec_znx", false) => lib!(md.ckks_mul_add_pt_vec_znx_into(&mut dst, ca, pt.as_ref().unwrap().vec_znx.as_ref().unwrap(), s)),
                    ("pt_vec_znx", true) => lib!(md.ckks_mul_sub_pt_vec_znx_into(&mut dst, ca, pt.as_ref().unwrap().vec_znx.as_ref().unwrap(), s)),
                    ("pt_vec_rnx", false) => lib!(md.ckks_mul_add_pt_vec_rnx_into(&mut dst, ca, pt.as_ref().unwrap().vec_rnx.as_ref().unwrap(), prec, s)),
                    ("pt_vec_rnx", true) => lib!(md.ckks_mul_sub_pt_vec_rnx_into(&mut dst, ca, pt.as_ref().unwrap().vec_rnx.as_ref().unwrap(), prec, s)),
                    ("pt_const_znx", false) => lib!(md.ckks_mul_add_pt_const_znx_into(&mut dst, ca, cst_znx.as_ref().unwrap(), s)),
                    ("pt_const_znx", true) => lib!(md.ckks_mul_sub_pt_const_znx_into(&mut dst, ca, cst_znx.as_ref().unwrap(), s)),
                    ("pt_const_rnx", false) => lib!(md.ckks_mul_add_pt_const_rnx_into(&mut dst, ca, pt.as_ref().unwrap().cst_rnx.as_ref().unwrap(), prec, s)),
                    ("pt_const_rnx", true) => lib!(md.ckks_mul_sub_pt_const_rnx_into(&mut dst, ca, pt.as_ref().unwrap().cst_rnx.as_ref().unwrap(), prec, s)),
                    _ => unreachable!(),
                }
            })
        };
        let extra = jo! {"b_kind" => kind, "pt_log_delta" => prec.log_delta, "pt_log_budget" => prec.log_budget, "empty_const" => empty_const, "dst_max_k" => cmax};
        if self.trace && with_ct && matches!(expect, Expect::Ok { .. }) {
            // diagnosis: the same computation through the two public steps mul_into + add/sub_assign
            let za: Vec<Cx> = self.reg(a).z.clone();
            let zb: Vec<Cx> = self.reg(b).z.clone();
            let zc: Vec<Cx> = self.reg(c).z.clone();
            let mut tmp = self.ctx.alloc_ct(cmax);
            let mut d2 = clone_ct(&self.reg(c).ct);
            let r2 = {
                let Prog { ctx, regs, .. } = self;
                let ctx = &mut **ctx;
                let ca = &regs[a].as_ref().unwrap().ct;
                let cb = &regs[b].as_ref().unwrap().ct;
                guarded(|| {
                    let s = ctx.scratch.borrow();
                    let md = &ctx.module;
                    let r = lib!(md.ckks_mul_into(&mut tmp, ca, cb, &ctx.tsk, s));
                    let r2 = if sub { lib!(md.ckks_sub_assign(&mut d2, &tmp, s)) } else { lib!(md.ckks_add_assign(&mut d2, &tmp, s)) };
                    (r.is_ok(), r2.is_ok())
                })
            };
            let worst = |got: &[Cx], want: &[Cx]| got.iter().zip(want).map(|(g, w)| g.sub(*w).abs()).fold(0.0f64, f64::max);
            let pz: Vec<Cx> = za.iter().zip(&zb).map(|(x, y)| x.mul(*y)).collect();
            let wz: Vec<Cx> = zc.iter().zip(&pz).map(|(x, y)| if sub { x.sub(*y) } else { x.add(*y) }).collect();
            let e_tmp = self.ctx.decrypt(&tmp).map(|g| worst(&g, &pz)).unwrap_or(-1.0);
            let e_d2 = self.ctx.decrypt(&d2).map(|g| worst(&g, &wz)).unwrap_or(-1.0);
            let e_dst = self.ctx.decrypt(&dst).map(|g| worst(&g, &wz)).unwrap_or(-1.0);
            let acc_copy = clone_ct(&self.reg(c).ct);
            let e_acc = self.ctx.decrypt(&acc_copy).map(|g| worst(&g, &zc)).unwrap_or(-1.0);
            eprintln!("[diag] {:?} product alone err={e_tmp:.3e} (meta {},{}) | two-step result err={e_d2:.3e} (meta {},{}) | fused result err={e_dst:.3e} (meta {},{}) | acc err={e_acc:.3e} (meta {},{} size {})",
                r2, tmp.log_delta(), tmp.log_budget(), d2.log_delta(), d2.log_budget(), dst.log_delta(), dst.log_budget(), self.reg(c).ct.log_delta(), self.reg(c).ct.log_budget(), self.reg(c).ct.size());
        }
        let out = if matches!(expect, Expect::Ok { .. }) { Some(Reg { ct: dst, z: out_z, e: out_e }) } else { None };
        let (delta_diff, budget_disc, uncompacted) = if with_ct {
            let (db, bb) = (self.reg(b).ct.log_delta(), self.reg(b).ct.log_budget());
            (da.abs_diff(db), (ba.max(bb) + da.max(db)).saturating_sub((da + ba).max(db + bb)), !oms[0].comp || !oms[1].comp)
        } else {
            (0, 0, !oms[0].comp)
        };
        let min_in = if empty_const { bc } else if with_ct { bc.min(ba).min(self.reg(b).ct.log_budget()) } else { bc.min(ba) };
        let fl = Flags { mul_like: needs_compact, uncompacted, delta_diff, budget_disc, min_in_budget: min_in, pin_delta: with_ct || empty_const, wide_const: false };
        let opn = if sub { "mul_sub" } else { "mul_add" };
        self.f17_alt = f17_alt;
        self.finish(rep, &format!("{opn}:{kind}"), "into", Some(d), res, &expect, out, &oms, extra, fl);
    }

    fn do_add_many(&mut self, rng: &mut Rng, rep: &mut Report) {
        let p = self.ctx.p;
        let n = rng.usize_in(1, 4);
        let idx: Vec<usize> = (0..n).map(|_| rng.usize_in(0, NREG - 1)).collect();
        let d = rng.usize_in(0, NREG - 1);
        let metas: Vec<(usize, usize)> = idx.iter().map(|i| (self.reg(*i).ct.log_delta(), self.reg(*i).ct.log_budget())).collect();
        let dmin = metas.iter().map(|m| m.0).min().unwrap();
        let bmin = metas.iter().map(|m| m.1).min().unwrap();
        let (mode, dmax) = self.pick_dmax(rng, dmin + bmin, dmin);
        // reference: first pair (or the single input) is written with the destination offset, the rest is accumulated
        let first_eff = if n == 1 { metas[0].0 + metas[0].1 } else { (metas[0].0 + metas[0].1).min(metas[1].0 + metas[1].1) };
        let first_b = if n == 1 { metas[0].1 } else { metas[0].1.min(metas[1].1) };
        let off = first_eff.saturating_sub(dmax);
        let expect = if off > first_b {
            Expect::Err(vec![EK::Insufficient])
        } else {
            let mut b = first_b - off;
            for m in metas.iter().skip(2) {
                b = b.min(m.1);
            }
            Expect::Ok { delta: dmin, budget: b }
        };
        if matches!(expect, Expect::Err(_)) && !self.pol.error_paths {
            return;
        }
        let mut out_z = Vec::new();
        let mut out_e = Eb::default();
        if let Expect::Ok { budget, .. } = &expect {
            let m = self.ctx.m();
            let mut z = vec![Cx::new(0.0, 0.0); m];
            // the first pair is rounded into the destination at ITS budget (before later, smaller-budget terms shift it up)
            let mut e = self.ctx.trunc(first_b - off, dmax).scale(2.0).add(self.ctx.trunc(*budget, dmax).scale(n as f64));
            for i in &idx {
                for (zz, x) in z.iter_mut().zip(&self.reg(*i).z) {
                    *zz = zz.add(*x);
                }
                e = e.add(self.reg(*i).e);
            }
            if !self.admissible(&z, e, *budget) {
                rep.count("skipped_inadmissible", 1);
                return;
            }
            out_z = z;
            out_e = e;
        }
        let mut dst = self.make_dst(rng, dmax);
        let names = ["a", "b", "c", "e"];
        let oms: Vec<OM> = idx.iter().enumerate().map(|(j, i)| om(names[j], &self.reg(*i).ct)).collect();
        let res = {
            let Prog { ctx, regs, .. } = self;
            let ctx = &mut **ctx;
            let ins: Vec<&Ct> = idx.iter().map(|i| &regs[*i].as_ref().unwrap().ct).collect();
            guarded(|| lib!(ctx.module.ckks_add_many(&mut dst, &ins, ctx.scratch.borrow())))
        };
        let extra = jo! {"terms" => n, "dst_mode" => format!("{mode:?}"), "dst_max_k" => dmax};
        let out = if matches!(expect, Expect::Ok { .. }) { Some(Reg { ct: dst, z: out_z, e: out_e }) } else { None };
        let fl = Flags { min_in_budget: bmin, pin_delta: true, ..Default::default() };
        self.finish(rep, "add_many", "-", Some(d), res, &expect, out, &oms, extra, fl);
    }

    /// products of 2..4 ciphertexts (`mul_many`) and inner products (`dot_product_ct`) on compacted operands of equal log_delta
    fn do_mul_many(&mut self, dot: bool, rng: &mut Rng, rep: &mut Report) {
        let p = self.ctx.p;
        let n = if dot { rng.usize_in(1, 3) } else { rng.usize_in(1, 4) };
        let cnt = if dot { 2 * n } else { n };
        let idx: Vec<usize> = (0..cnt).map(|_| rng.usize_in(0, NREG - 1)).collect();
        let d = rng.usize_in(0, NREG - 1);
        self.ensure_compact(&idx, rng, rep);
        if idx.iter().any(|i| self.regs[*i].is_none()) {
            return;
        }
        let metas: Vec<(usize, usize)> = idx.iter().map(|i| (self.reg(*i).ct.log_delta(), self.reg(*i).ct.log_budget())).collect();
        let d0 = metas[0].0;
        if metas.iter().any(|m| m.0 != d0) {
            return;
        }
        let bmin = metas.iter().map(|m| m.1).min().unwrap();
        let depth = if dot { 1 } else if n <= 1 { 0 } else { (n - 1).ilog2() as usize + 1 };
        // generated only with comfortable head-room: the internal temporaries of the product tree are the library's business
        if bmin < depth * d0 + 2 * p.base2k + 8 {
            return;
        }
        let nat_b = bmin - depth * d0;
        let full = full_max_k(&p);
        let dmax = if rng.coin() { full } else { round_up(d0 + nat_b, p.base2k) };
        let off = (d0 + nat_b).saturating_sub(dmax);
        let budget = nat_b - off;
        let m = self.ctx.m();
        // shadow
        let (z, e): (Vec<Cx>, Eb) = if dot {
            let mut z = vec![Cx::new(0.0, 0.0); m];
            let mut e = Eb::default();
            for t in 0..n {
                let (ia, ib) = (idx[t], idx[n + t]);
                for (j, zz) in z.iter_mut().enumerate() {
                    *zz = zz.add(self.reg(ia).z[j].mul(self.reg(ib).z[j]));
                }
                e = e.add(self.mul_ct_err(ia, ib, d0, budget, dmax));
                // operands are first aligned (rescaled) to the smallest budget of their side: exact
            }
            (z, e)
        } else {
            // balanced product tree (split in halves); every product is rounded to log_delta bits below its budget
            // and its operands are masked to their effective precision
            let leaves: Vec<(Vec<Cx>, Eb)> = idx.iter().map(|i| (self.reg(*i).z.clone(), self.reg(*i).e)).collect();
            let lvl = Eb::new(self.ctx.u(d0) * (2.0 + (p.n as f64 * 0.25).sqrt()) + self.ctx.e_ks(bmin), self.ctx.hard_ct(-(d0 as i32)));
            fn rec(l: &[(Vec<Cx>, Eb)], lvl: Eb) -> (Vec<Cx>, Eb) {
                if l.len() == 1 {
                    return l[0].clone();
                }
                let (x, y) = l.split_at(l.len() / 2);
                let (zx, ex) = rec(x, lvl);
                let (zy, ey) = rec(y, lvl);
                let (mx, my) = (vmag(&zx), vmag(&zy));
                let (ex, ey) = (ex.add(lvl), ey.add(lvl));
                let e = ey.scale(mx).add(ex.scale(my)).add(Eb::new(0.0, ex.limit() * ey.limit() / HTOL)).add(lvl);
                (zx.iter().zip(&zy).map(|(a, b)| a.mul(*b)).collect(), e)
            }
            rec(&leaves, lvl)
        };
        if !self.admissible(&z, e, budget.saturating_sub(2)) {
            rep.count("skipped_inadmissible", 1);
            return;
        }
        let mut dst = self.make_dst(rng, dmax);
        let names = ["a", "b", "c", "e", "f", "g"];
        let oms: Vec<OM> = idx.iter().enumerate().map(|(j, i)| om(names[j], &self.reg(*i).ct)).collect();
        let res = {
            let Prog { ctx, regs, .. } = self;
            let ctx = &mut **ctx;
            let ins: Vec<&Ct> = idx.iter().map(|i| &regs[*i].as_ref().unwrap().ct).collect();
            guarded(|| {
                if dot {
                    lib!(ctx.module.ckks_dot_product_ct(&mut dst, &ins[..n], &ins[n..], &ctx.tsk, ctx.scratch.borrow()))
                } else {
                    lib!(ctx.module.ckks_mul_many(&mut dst, &ins, &ctx.tsk, ctx.scratch.borrow()))
                }
            })
        };
        let extra = jo! {"terms" => n, "dst_max_k" => dmax};
        // the budget of a product tree depends on the library's internal temporaries: not pinned; the value check decides
        let rep_b = dst.log_budget();
        let expect = Expect::Ok { delta: d0, budget: if matches!(res, Ok(Ok(()))) { rep_b } else { budget } };
        let out = Some(Reg { ct: dst, z, e });
        let fl = Flags { mul_like: true, uncompacted: false, min_in_budget: bmin, pin_delta: true, ..Default::default() };
        self.finish(rep, if dot { "dot_product_ct" } else { "mul_many" }, "-", Some(d), res, &expect, out, &oms, extra, fl);
    }

    fn do_align(&mut self, rng: &mut Rng, rep: &mut Report) {
        let a = rng.usize_in(0, NREG - 1);
        let mut b = rng.usize_in(0, NREG - 1);
        if a == b {
            b = (a + 1) % NREG;
        }
        let (ba, bb) = (self.reg(a).ct.log_budget(), self.reg(b).ct.log_budget());
        let oms = [om("a", &self.reg(a).ct), om("b", &self.reg(b).ct)];
        let mut ca = clone_ct(&self.reg(a).ct);
        let mut cb = clone_ct(&self.reg(b).ct);
        let res = {
            let ctx = &mut *self.ctx;
            guarded(|| lib!(ctx.module.ckks_align_assign(&mut ca, &mut cb, ctx.scratch.borrow())))
        };
        let ok = matches!(res, Ok(Ok(())));
        let bm = ba.min(bb);
        // both sides are checked: the one that was rescaled and the one that must be untouched
        let (ra, rb) = (self.regs[a].take().unwrap(), self.regs[b].take().unwrap());
        let (da, db) = (ra.ct.log_delta(), rb.ct.log_delta());
        let fl = Flags { min_in_budget: ba, pin_delta: true, ..Default::default() };
        let good = self.finish(rep, "align", "assign", Some(a), res, &Expect::Ok { delta: da, budget: bm }, Some(Reg { ct: ca, z: ra.z.clone(), e: ra.e }), &oms, J::obj(), fl);
        if !good && self.regs[a].is_none() && ok {
            // keep going with the original
        }
        if self.regs[a].is_none() {
            self.regs[a] = Some(ra);
        }
        if ok {
            let fl = Flags { min_in_budget: bb, pin_delta: true, ..Default::default() };
            self.finish(rep, "align", "assign_other", Some(b), Ok(Ok(())), &Expect::Ok { delta: db, budget: bm }, Some(Reg { ct: cb, z: rb.z.clone(), e: rb.e }), &oms, J::obj(), fl);
        }
        if self.regs[b].is_none() {
            self.regs[b] = Some(rb);
        }
    }

    fn do_realloc(&mut self, rng: &mut Rng, rep: &mut Report) {
        let p = self.ctx.p;
        let a = rng.usize_in(0, NREG - 1);
        let r = self.regs[a].take().unwrap();
        let need = limbs_needed(&r.ct);
        let cur = r.ct.size();
        let size = if self.pol.error_paths && need > 1 && rng.chance(1, 4) { rng.usize_in(1, need - 1) } else { rng.usize_in(need, full_max_k(&p) / p.base2k + 1) };
        let oms = [om("a", &r.ct)];
        let (da, ba) = (r.ct.log_delta(), r.ct.log_budget());
        let expect = if size < need { Expect::Err(vec![EK::Realloc]) } else { Expect::Ok { delta: da, budget: ba } };
        let mut ct = clone_ct(&r.ct);
        let res = {
            let ctx = &mut *self.ctx;
            guarded(|| lib!(ctx.module.ckks_reallocate_limbs_checked(&mut ct, size)))
        };
        let ok = matches!(res, Ok(Ok(())));
        let size_ok = ct.size() == size;
        let shrink = if size < cur && size >= need { self.ctx.trunc(ba, size * p.base2k) } else { Eb::default() };
        let fl = Flags { min_in_budget: ba, pin_delta: true, ..Default::default() };
        let out = if size >= need { Some(Reg { ct, z: r.z.clone(), e: r.e.add(shrink) }) } else { None };
        self.finish(rep, "reallocate_limbs", "-", Some(a), res, &expect, out, &oms, jo! {"requested_limbs" => size, "needed_limbs" => need}, fl);
        if ok && size >= need && !size_ok {
            rep.violate("reallocate_limbs", self.desc("reallocate_limbs", "-", "generic", "meta", &oms, jo! {"requested_limbs" => size}), "limb count after reallocation differs from the request".into());
        }
        if self.regs[a].is_none() {
            self.regs[a] = Some(r);
        }
    }
}
