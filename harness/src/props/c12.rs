// C12 — declared scratch size suffices and scratch contents never matter (HAL part).
// Oracle: scratch window of exactly `*_tmp_bytes` bytes, flush against the end of its allocation, two fills.
// mode "uninit": the window is handed over uninitialised and every output byte is folded through a branch
// (definedness tracking by memcheck / Miri).

pub fn run(cfg: &Cfg, rep: &mut Report) {
    let mut rng = cfg.rng(&format!("c12-{BE_NAME}"));
    let uninit = cfg.mode == "uninit";
    let total = cfg.budget(200_000, 10_000_000) / 4;
    let total = if uninit { (total / 24).max(if cfg!(debug_assertions) { 8 } else { 40 }) } else { total };
    // ring degrees whose byte sizes are / are not multiples of the 64-byte scratch alignment
    let ns_coef: &[usize] = if cfg!(debug_assertions) { &[2, 4, 8, 16, 32] } else { &[1, 2, 4, 8, 16, 32] }; // Module::new(1) trips an overflow check in debug builds only
    let ns_dft: &[usize] = if cfg!(debug_assertions) { &[8, 16] } else { &[8, 16, 32, 64] };
    let ops: Vec<&'static str> = hal_ops::HAL_OPS.iter().copied().filter(|o| takes_scratch(o)).collect();
    for it in 0..total {
        let op = ops[(it as usize + rng.below(5) as usize) % ops.len()];
        let n = if hal_ops::op_needs_dft(op) { *rng.pick(ns_dft) } else { *rng.pick(ns_coef) };
        let seed = rng.next_u64();
        let mode = if uninit { hal_ops::ScratchMode::ExactUninit } else { hal_ops::ScratchMode::Exact };
        let o1 = hal_ops::run_case(op, n, seed, &hal_ops::Opts { fill_seed: 0xaaaa, scratch: mode, fold: uninit, ..Default::default() });
        if o1.key.is_empty() || o1.tmp_bytes == 0 && !takes_scratch(op) {
            continue;
        }
        rep.case(op, &o1.key, o1.nontrivial);
        rep.sample_for_op(&format!("{BE_NAME}:{op}"), || o1.desc.clone().set("tmp_bytes", o1.tmp_bytes));
        rep.count("exact_windows", 1);
        rep.count(&format!("pair:{op}"), 1);
        let mut d = o1.desc.clone();
        d.put("tmp_bytes", o1.tmp_bytes);
        if let Some(p) = &o1.panic {
            rep.violate(op, d, format!("panic with a scratch window of exactly the declared {} bytes: {p}", o1.tmp_bytes));
            continue;
        }
        if let Some(s) = &o1.stray {
            rep.violate(op, d, format!("memory outside the buffers touched: {s}"));
            continue;
        }
        if uninit {
            rep.count("folded", o1.folded as i128 & 1);
            continue;
        }
        let o2 = hal_ops::run_case(op, n, seed, &hal_ops::Opts { fill_seed: 0xbbbb_0001, scratch: mode, ..Default::default() });
        if o2.panic.is_none() && o1.selected_bytes != o2.selected_bytes {
            rep.violate(op, d, "result depends on the bytes the scratch/output held before the call".into());
        }
    }
}

fn takes_scratch(op: &str) -> bool {
    matches!(
        op,
        "vec_znx_normalize" | "vec_znx_normalize_assign" | "vec_znx_lsh" | "vec_znx_lsh_assign" | "vec_znx_lsh_add_into" | "vec_znx_lsh_sub" | "vec_znx_rsh"
            | "vec_znx_rsh_assign" | "vec_znx_rsh_add_into" | "vec_znx_rsh_sub" | "vec_znx_rotate_assign" | "vec_znx_automorphism_assign"
            | "vec_znx_mul_xp_minus_one_assign" | "vec_znx_split_ring" | "vec_znx_merge_rings" | "vec_znx_big_automorphism_assign" | "vec_znx_big_normalize"
            | "vec_znx_big_normalize_add_assign" | "vec_znx_big_normalize_sub_assign" | "vec_znx_big_normalize_negate" | "vec_znx_idft_apply" | "vmp_prepare"
            | "vmp_apply_dft" | "vmp_apply_dft_to_dft" | "cnv_prepare_left" | "cnv_prepare_right" | "cnv_prepare_self" | "cnv_apply_dft" | "cnv_pairwise_apply_dft"
            | "cnv_by_const_apply"
    )
}
