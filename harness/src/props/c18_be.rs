// C18, per-backend part: objects produced by THIS backend's encryption, serialised. The plain module c18
// checks that every backend's bytes follow the same format model with the same header, and round-trips them.
use poulpy_core::layouts::{
    GLWE, GLWELayout, GLWEPlaintext, GLWEPlaintextLayout, GLWESecret, GLWESecretPreparedFactory,
    compressed::GLWECompressed,
    prepared::GLWESecretPrepared,
};
use poulpy_core::{EncryptionLayout, GLWECompressedEncryptSk, GLWEEncryptSk};
use poulpy_hal::layouts::WriterTo;

/// (object name, serialised bytes) for a GLWE and a compressed GLWE of rank 1 and 2, N=16, base2k=12, k=37
pub fn samples(seed: u64) -> Vec<(String, Vec<u8>)> {
    let mut out = Vec::new();
    let n = 16usize;
    let base2k = 12usize;
    let module = new_module(n);
    let mut rng = util::Rng::new(seed, 0xc18be);
    let (s_xs, s_xe, s_xa, s_c) = (rng.seed32(), rng.seed32(), rng.seed32(), rng.seed32());
    for rank in 1usize..3 {
        let infos = EncryptionLayout::new_from_default_sigma(GLWELayout { n: n.into(), base2k: base2k.into(), k: (3 * base2k + 1).into(), rank: rank.into() }).unwrap();
        let pt_infos = GLWEPlaintextLayout { n: n.into(), base2k: base2k.into(), k: (2 * base2k + 1).into() };
        let mut ct: GLWE<Vec<u8>> = GLWE::alloc_from_infos(&infos);
        let mut ctc: GLWECompressed<Vec<u8>> = GLWECompressed::alloc_from_infos(&infos);
        let mut pt: GLWEPlaintext<Vec<u8>> = GLWEPlaintext::alloc_from_infos(&pt_infos);
        let mut source_xs = Source::new(s_xs);
        let mut source_xe = Source::new(s_xe);
        let mut source_xa = Source::new(s_xa);
        let mut scratch: ScratchOwned<BE> =
            ScratchOwned::alloc(module.glwe_encrypt_sk_tmp_bytes(&infos).max(module.glwe_compressed_encrypt_sk_tmp_bytes(&infos)));
        let mut sk: GLWESecret<Vec<u8>> = GLWESecret::alloc_from_infos(&infos);
        sk.fill_ternary_prob(0.5, &mut source_xs);
        let mut skp: GLWESecretPrepared<DeviceBuf<BE>, BE> = module.glwe_secret_prepared_alloc(rank.into());
        module.glwe_secret_prepare(&mut skp, &sk);
        module.vec_znx_fill_uniform(base2k, &mut pt.data, 0, &mut source_xa);
        module.glwe_encrypt_sk(&mut ct, &pt, &skp, &infos, &mut source_xe, &mut source_xa, scratch.borrow());
        module.glwe_compressed_encrypt_sk(&mut ctc, &pt, &skp, s_c, &infos, &mut source_xe, scratch.borrow());
        let mut b = Vec::new();
        ct.write_to(&mut b).expect("write");
        out.push((format!("GLWE/rank{rank}"), b));
        let mut b = Vec::new();
        ctc.write_to(&mut b).expect("write");
        out.push((format!("GLWECompressed/rank{rank}"), b));
    }
    out
}
