// C04 — external products and CMux multiply by the GGSW plaintext within noise; GGSWs produced by row expansion,
// GGSW key-switch and GGSW automorphism encrypt the same plaintext in every row and column.
//
// Oracle: exact phases (big integers, clear secret through the verif-hooks accessor) of inputs and outputs, exact negacyclic
// products, and a *hard* gadget-product bound derived from the algorithm (c0405_common.rs: GadgetShape): every digit group is
// bounded by 2^{dsize*b-1}(1+..), the key-cell errors are *measured* exactly (1-norm), input limbs beyond dnum*dsize are a
// truncation term, one unit of the last output limb per output column for the final normalisation.
// ratio = |phase(res) - m2 * phase(a)| / bound must stay < 1 (pinned tree: see NOTES.md for the calibration).

use poulpy_bin_fhe::bdd_arithmetic::Cmux;

fn pick_n(rng: &mut Rng) -> usize {
    *rng.pick(&[8usize, 8, 16, 16, 16, 32, 32, 64])
}

/// radix inside the exactness domain of the backend for a gadget product with `terms` accumulated products
fn pick_base2k(rng: &mut Rng, n: usize, terms: usize, extra: usize) -> usize {
    let cap = if IS_FFT64 { 26 } else { 52 };
    let hi = max_base2k(n, terms, extra, cap);
    let lo = 4.min(hi);
    match rng.below(6) {
        0 => hi,
        1 => hi.saturating_sub(1).max(lo),
        2 => lo + rng.below(4) as usize,
        _ => rng.usize_in(lo, hi),
    }
    .clamp(lo, hi)
}

fn glwe_layout(n: usize, b: usize, k: usize, rank: usize) -> GLWELayout {
    GLWELayout { n: Degree(n as u32), base2k: Base2K(b as u32), k: TorusPrecision(k as u32), rank: Rank(rank as u32) }
}

fn ggsw_layout(n: usize, b: usize, k: usize, rank: usize, dnum: usize, dsize: usize) -> GGSWLayout {
    GGSWLayout { n: Degree(n as u32), base2k: Base2K(b as u32), k: TorusPrecision(k as u32), rank: Rank(rank as u32), dnum: Dnum(dnum as u32), dsize: Dsize(dsize as u32) }
}

fn gglwe_layout(n: usize, b: usize, k: usize, rank_in: usize, rank_out: usize, dnum: usize, dsize: usize) -> GGLWELayout {
    GGLWELayout {
        n: Degree(n as u32),
        base2k: Base2K(b as u32),
        k: TorusPrecision(k as u32),
        rank_in: Rank(rank_in as u32),
        rank_out: Rank(rank_out as u32),
        dnum: Dnum(dnum as u32),
        dsize: Dsize(dsize as u32),
    }
}

/// (size, k) with k in ((size-1)*b, size*b]
fn pick_k(rng: &mut Rng, b: usize, size: usize) -> usize {
    let slack = match rng.below(4) {
        0 => 0,
        1 => b - 1,
        _ => rng.below(b as u64) as usize,
    };
    (size * b - slack).max(1)
}

struct Sources {
    xa: Source,
    xe: Source,
}

fn sources(rng: &mut Rng) -> Sources {
    Sources { xa: Source::new(rng.seed32()), xe: Source::new(rng.seed32()) }
}

// ---------------------------------------------------------------------------------------------
// library-side construction helpers (every call with an exact-size scratch window)
// ---------------------------------------------------------------------------------------------
fn enc_glwe(module: &Module<BE>, lay: &GLWELayout, pt_cls: usize, sk: &Sk, rng: &mut Rng, rep: &mut Report, desc: &J) -> Result<GLWE<Vec<u8>>, String> {
    let mut pt: GLWEPlaintext<Vec<u8>> = GLWEPlaintext::alloc_from_infos(lay);
    fill_pt(&mut pt, pt_cls, lay.k.0 as usize, rng);
    let mut ct: GLWE<Vec<u8>> = GLWE::alloc_from_infos(lay);
    let enc = EncryptionLayout::new_from_default_sigma(*lay).map_err(|e| format!("EncryptionLayout: {e}"))?;
    let mut src = sources(rng);
    let need = module.glwe_encrypt_sk_tmp_bytes(lay);
    with_scratch(rep, "glwe_encrypt_sk", desc, need, rng, |s| module.glwe_encrypt_sk(&mut ct, &pt, &sk.prep, &enc, &mut src.xe, &mut src.xa, s))?;
    Ok(ct)
}

fn make_glwe(module: &Module<BE>, lay: &GLWELayout, cls: usize, sk: &Sk, rng: &mut Rng, rep: &mut Report, desc: &J) -> Result<GLWE<Vec<u8>>, String> {
    // classes 0..=5: encryption of a plaintext of that digit class; 6..=8: hand-made ciphertext with extreme digits
    if cls < 6 {
        enc_glwe(module, lay, cls, sk, rng, rep, desc)
    } else {
        let mut ct: GLWE<Vec<u8>> = GLWE::alloc_from_infos(lay);
        craft_glwe(&mut ct, cls - 6, rng);
        Ok(ct)
    }
}

fn in_class_name(cls: usize) -> String {
    if cls < 6 { format!("enc_{}", PT_CLASSES[cls]) } else { format!("crafted_{}", ["allminneg", "allmaxpos", "alternate", "uniform"][cls - 6]) }
}

fn enc_ggsw(module: &Module<BE>, lay: &GGSWLayout, m: &[i64], sk: &Sk, rng: &mut Rng, rep: &mut Report, desc: &J) -> Result<GGSW<Vec<u8>>, String> {
    let mut g: GGSW<Vec<u8>> = GGSW::alloc_from_infos(lay);
    let pt = scalar_from(m);
    let enc = EncryptionLayout::new_from_default_sigma(*lay).map_err(|e| format!("EncryptionLayout: {e}"))?;
    let mut src = sources(rng);
    let need = module.ggsw_encrypt_sk_tmp_bytes(lay);
    with_scratch(rep, "ggsw_encrypt_sk", desc, need, rng, |s| module.ggsw_encrypt_sk(&mut g, &pt, &sk.prep, &enc, &mut src.xe, &mut src.xa, s))?;
    Ok(g)
}

fn prep_ggsw(module: &Module<BE>, lay: &GGSWLayout, g: &GGSW<Vec<u8>>, rng: &mut Rng, rep: &mut Report, desc: &J) -> Result<GGSWPrepared<DeviceBuf<BE>, BE>, String> {
    let mut p: GGSWPrepared<DeviceBuf<BE>, BE> = module.ggsw_prepared_alloc_from_infos(lay);
    let need = module.ggsw_prepare_tmp_bytes(lay);
    with_scratch(rep, "ggsw_prepare", desc, need, rng, |s| module.ggsw_prepare(&mut p, g, s))?;
    Ok(p)
}

fn enc_gglwe(module: &Module<BE>, lay: &GGLWELayout, pts: &[Vec<i64>], sk: &Sk, rng: &mut Rng, rep: &mut Report, desc: &J) -> Result<GGLWE<Vec<u8>>, String> {
    let n = pts[0].len();
    let mut g: GGLWE<Vec<u8>> = GGLWE::alloc_from_infos(lay);
    let mut pt = ScalarZnx::alloc(n, pts.len());
    for (c, p) in pts.iter().enumerate() {
        pt.at_mut(c, 0).copy_from_slice(p);
    }
    let enc = EncryptionLayout::new_from_default_sigma(*lay).map_err(|e| format!("EncryptionLayout: {e}"))?;
    let mut src = sources(rng);
    let need = module.gglwe_encrypt_sk_tmp_bytes(lay);
    with_scratch(rep, "gglwe_encrypt_sk", desc, need, rng, |s| module.gglwe_encrypt_sk(&mut g, &pt, &sk.prep, &enc, &mut src.xe, &mut src.xa, s))?;
    Ok(g)
}

// ---------------------------------------------------------------------------------------------
// verdict helper
// ---------------------------------------------------------------------------------------------
/// one oracle evaluation: |err| / bound must be < 1
fn judge(rep: &mut Report, op: &str, desc: &J, key: &str, err: f64, bound: f64, nontrivial: bool, what: &str) {
    judge2(rep, op, desc, key, err, 0.0, bound, nontrivial, what)
}

/// `prop` = error inherited from the inputs (measured exactly, or bounded exactly): the operation's own share of the error,
/// max(err - prop, 0), must stay below `bound`
fn judge2(rep: &mut Report, op: &str, desc: &J, key: &str, err_total: f64, prop: f64, bound: f64, nontrivial: bool, what: &str) {
    judge3(rep, op, desc, key, err_total, prop, bound, nontrivial, true, what)
}

/// `calibrate = false`: the case is judged like any other but its ratio is kept out of the calibration maxima
#[allow(clippy::too_many_arguments)]
fn judge3(rep: &mut Report, op: &str, desc: &J, key: &str, err_total: f64, prop: f64, bound: f64, nontrivial: bool, calibrate: bool, what: &str) {
    rep.case(op, key, nontrivial);
    rep.sample_for_op(op, || desc.clone());
    let err = (err_total - prop * (1.0 + 1e-9)).max(0.0);
    let bound = bound * (1.0 + 1e-6); // floating-point slack of the bound computation itself
    let ratio = if bound > 0.0 { err / bound } else if err == 0.0 { 0.0 } else { f64::INFINITY };
    if nontrivial && calibrate && ratio < 1.0 {
        rep.maxf(&format!("ratio:{op}"), ratio);
        note_worst(op, ratio, desc, err, bound);
    }
    if !(ratio < 1.0) {
        let mut d = desc.clone();
        if d.render().contains("\"class_hint\":\"result_depends_on_scratch_contents\"") {
            d.put("class", "depends_on_scratch_contents");
        } else {
            d.put("class", "phase_error_exceeds_hard_bound");
        }
        d.put("err_log2", err.log2());
        d.put("bound_log2", bound.log2());
        rep.violate(op, d, format!("{what}: |error| = 2^{:.2} exceeds the hard bound 2^{:.2} (ratio {:.3e})", err.log2(), bound.log2(), ratio));
    }
}

/// the cell with the largest (own error / bound)
struct Worst {
    row: usize,
    col: usize,
    ratio: f64,
    err: f64,
    prop: f64,
    bound: f64,
}

impl Worst {
    fn new() -> Self {
        Worst { row: 0, col: 0, ratio: -1.0, err: 0.0, prop: 0.0, bound: 1.0 }
    }
    fn see(&mut self, row: usize, col: usize, err: f64, prop: f64, bound: f64) {
        let r = (err - prop * (1.0 + 1e-9)).max(0.0) / bound;
        if r > self.ratio {
            *self = Worst { row, col, ratio: r, err, prop, bound };
        }
    }
}

fn panic_violation(rep: &mut Report, op: &str, desc: &J, key: &str, p: &str) {
    panic_violation_class(rep, op, desc, key, p, "panic")
}

fn panic_violation_class(rep: &mut Report, op: &str, desc: &J, key: &str, p: &str, class: &str) {
    rep.case(op, key, true);
    let mut d = desc.clone();
    d.put("class", class);
    rep.violate(op, d, format!("panic: {p}"));
}

// ---------------------------------------------------------------------------------------------
// context: one secret, one prepared GGSW
// ---------------------------------------------------------------------------------------------
struct XpCtx {
    n: usize,
    rank: usize,
    sk: Sk,
    lay: GGSWLayout,
    b: usize,
    k: usize,
    dnum: usize,
    dsize: usize,
    prep: GGSWPrepared<DeviceBuf<BE>, BE>,
    m2: M2,
    noise: CellNoise,
    shape: GadgetShape,
    /// ||m2 * sigma_c||_1 per GGSW column
    pl1: Vec<f64>,
    desc: J,
    key: String,
}

fn build_ctx(module: &Module<BE>, n: usize, m2cls: usize, m2k: usize, for_cmux: bool, rng: &mut Rng, rep: &mut Report) -> Option<XpCtx> {
    let rank = rng.usize_in(1, 3);
    let dsize = *rng.pick(&[1usize, 1, 2, 2, 3, 4]);
    // limbs of the GGSW: more than dsize, at least dnum*dsize
    let size = dsize + 1 + rng.below(6) as usize;
    let dnum_max = size / dsize;
    let dnum = match rng.below(4) {
        0 => 1,
        1 => dnum_max,
        _ => rng.usize_in(1, dnum_max),
    };
    let b = pick_base2k(rng, n, (rank + 1) * dnum, 1);
    let k = pick_k(rng, b, size).max((dnum * dsize - 1) * b + 1).max(dsize * b + 1);
    let dist = rng.below(4) as usize;
    let sk_seed = rng.next_u64();
    let sk = gen_sk(module, n, rank, dist, sk_seed);
    let m2 = if for_cmux { gen_m2(n, (m2cls % 2).min(1), 0, rng) } else { gen_m2(n, m2cls, m2k, rng) };
    let lay = ggsw_layout(n, b, k, rank, dnum, dsize);
    let desc = jo! {"backend" => BE_NAME, "n" => n, "rank" => rank, "sk_dist" => DISTS[dist], "sk_seed" => sk_seed, "ggsw_base2k" => b, "ggsw_k" => k,
    "dnum" => dnum, "dsize" => dsize, "m2" => m2.name.as_str()};
    let key = format!("{BE_NAME}|{n}|{rank}|{dist}|{b}|{k}|{dnum}|{dsize}|{}", m2.name);
    let ggsw = match enc_ggsw(module, &lay, &m2.m, &sk, rng, rep, &desc) {
        Ok(g) => g,
        Err(p) => {
            panic_violation(rep, "ggsw_encrypt_sk", &desc, &key, &p);
            return None;
        }
    };
    // every cell of the fresh GGSW: m2 * sigma_col * 2^{-(row+1) dsize b} + fresh error
    let noise = ggsw_cell_noise(&ggsw, &m2.m, &sk);
    let (wr, wc, we) = noise.worst();
    let mut d = desc.clone();
    d.put("row", wr);
    d.put("col", wc);
    judge(rep, "ggsw_encrypt_sk", &d, &key, we, fresh_bound(k, b), true, "fresh GGSW cell vs m2*sigma_col*2^-((row+1)*dsize*base2k)");
    rep.count("ggsw_cells_decrypted", ((rank + 1) * dnum) as i128);
    let prep = match prep_ggsw(module, &lay, &ggsw, rng, rep, &desc) {
        Ok(p) => p,
        Err(p) => {
            panic_violation(rep, "ggsw_prepare", &desc, &key, &p);
            return None;
        }
    };
    let pl1 = (0..=rank).map(|c| l1_small(&neg_small(&m2.m, &sk.sigma(c)))).collect();
    let shape = GadgetShape { b, dsize, dnum, key_size: k.div_ceil(b) };
    Some(XpCtx { n, rank, sk, lay, b, k, dnum, dsize, prep, m2, noise, shape, pl1, desc, key })
}

impl XpCtx {
    /// hard bound on |phase(res) - m2 * phase(a)| for one GLWE external product.
    /// a: `a_size` limbs in radix `a_b` with digits bounded by dig * 2^{a_b-1}; res: res_bits bits of precision
    fn xp_bound(&self, a_b: usize, a_size: usize, dig: f64, res_bits: usize) -> f64 {
        // an input in another radix is first re-expressed in the radix of the GGSW (exactly: the copy has at least as many bits);
        // the cross-radix normaliser does not promise balanced digits, only |digit| <= 2^b
        let (in_size, dig) = if a_b == self.b { (a_size, dig) } else { ((a_size * a_b).div_ceil(self.b), 2.0) };
        let sh = &self.shape;
        let rows = sh.rows_used(in_size);
        let tail: f64 = self.pl1.iter().map(|p| p * sh.tail(in_size, dig)).sum();
        let noise = sh.noise(self.noise.l1_rows(rows), dig);
        let out_l1 = 1.0 + self.sk.l1_sum();
        let dropped = out_l1 * sh.dropped(self.n, self.rank + 1, rows, dig);
        HARD_MARGIN * (tail + noise + dropped) + ROUND_UNITS * out_l1 * ulp(res_bits)
    }
}

fn pick_res_base2k(rng: &mut Rng, a_b: usize, g_b: usize) -> usize {
    let cap = if IS_FFT64 { 26 } else { 52 };
    match rng.below(4) {
        0 => a_b,
        1 => g_b,
        2 => rng.usize_in(4, cap.min(g_b + 9)),
        _ => a_b,
    }
    .max(2)
}

fn pick_in_base2k(rng: &mut Rng, g_b: usize, n: usize, rank: usize) -> usize {
    // the input radix only goes through encryption (svp with a ternary secret) and the cross-radix normaliser
    let cap = if IS_FFT64 { max_base2k(n, rank, 0, 26).min(26) } else { 52 };
    match rng.below(3) {
        0 => g_b,
        1 => rng.usize_in(4, cap),
        _ => (g_b + rng.below(5) as usize).saturating_sub(2).clamp(4, cap),
    }
}

// ---------------------------------------------------------------------------------------------
// GLWE x GGSW
// ---------------------------------------------------------------------------------------------
fn case_xp_glwe(cx: &XpCtx, module: &Module<BE>, inplace: bool, rng: &mut Rng, rep: &mut Report) {
    let op = if inplace { "glwe_external_product_assign" } else { "glwe_external_product" };
    let n = cx.n;
    let a_b = pick_in_base2k(rng, cx.b, n, cx.rank);
    let a_size = rng.usize_in(1, 5);
    let a_k = pick_k(rng, a_b, a_size);
    let a_lay = glwe_layout(n, a_b, a_k, cx.rank);
    let cls = rng.below(9) as usize;
    let (r_b, r_size) = if inplace { (a_b, a_size) } else { (pick_res_base2k(rng, a_b, cx.b), rng.usize_in(1, 6)) };
    let r_k = if inplace { a_k } else { pick_k(rng, r_b, r_size) };
    let r_lay = glwe_layout(n, r_b, r_k, cx.rank);
    let mut desc = cx.desc.clone();
    desc.put("op", op);
    desc.put("a_base2k", a_b);
    desc.put("a_k", a_k);
    desc.put("a_class", in_class_name(cls));
    desc.put("res_base2k", r_b);
    desc.put("res_k", r_k);
    let key = format!("{}|{op}|{a_b}|{a_k}|{cls}|{r_b}|{r_k}", cx.key);
    let a = match make_glwe(module, &a_lay, cls, &cx.sk, rng, rep, &desc) {
        Ok(a) => a,
        Err(p) => return panic_violation(rep, "glwe_encrypt_sk", &desc, &key, &p),
    };
    let mut res: GLWE<Vec<u8>> = if inplace { a.clone() } else { GLWE::alloc_from_infos(&r_lay) };
    let r = if inplace {
        let need = module.glwe_external_product_tmp_bytes(&r_lay, &r_lay, &cx.lay);
        with_scratch(rep, op, &desc, need, rng, |s| {
            res = a.clone();
            module.glwe_external_product_assign(&mut res, &cx.prep, s)
        })
    } else {
        garbage_vec(res.data_mut(), r_b, rng);
        let need = module.glwe_external_product_tmp_bytes(&r_lay, &a_lay, &cx.lay);
        with_scratch(rep, op, &desc, need, rng, |s| module.glwe_external_product(&mut res, &a, &cx.prep, s))
    };
    if let Err(p) = r {
        return panic_violation(rep, op, &desc, &key, &p);
    }
    let a_bits = a_size * a_b;
    let r_bits = r_size * r_b;
    let w = a_bits.max(r_bits).max(cx.k.div_ceil(cx.b) * cx.b) + 8;
    let pa = glwe_phase(&a, &cx.sk, w);
    let want = poly_centre(&negacyclic_mul_big_small(&pa, &cx.m2.m), w);
    let have = glwe_phase(&res, &cx.sk, w);
    let err = inf_torus(&diff_centre(&have, &want, w), w);
    let bound = cx.xp_bound(a_b, a_size, 1.0, r_bits);
    judge(rep, op, &desc, &key, err, bound, bound < 0.0625, "phase(res) vs m2 * phase(a)");
}

// ---------------------------------------------------------------------------------------------
// CMux (poulpy-bin-fhe): res = (t - f) * GGSW(bit) + f
// ---------------------------------------------------------------------------------------------
fn case_cmux(cx: &XpCtx, module: &Module<BE>, form: usize, rng: &mut Rng, rep: &mut Report) {
    let op = ["cmux", "cmux_assign", "cmux_assign_neg"][form];
    let n = cx.n;
    let b = cx.b; // all radices must agree (glwe_sub + external_product_internal + add_small of f)
    let bit = cx.m2.m[0];
    let t_size = rng.usize_in(1, 5);
    let f_size = if rng.below(3) == 0 { rng.usize_in(1, 5) } else { t_size };
    let r_size = if form == 0 && rng.below(3) == 0 { rng.usize_in(1, 6) } else { t_size.max(f_size) };
    let t_k = pick_k(rng, b, t_size);
    let f_k = pick_k(rng, b, f_size);
    let r_k = pick_k(rng, b, r_size);
    let (t_lay, f_lay, r_lay) = (glwe_layout(n, b, t_k, cx.rank), glwe_layout(n, b, f_k, cx.rank), glwe_layout(n, b, r_k, cx.rank));
    let (tc, fc) = (rng.below(9) as usize, rng.below(9) as usize);
    let mut desc = cx.desc.clone();
    desc.put("op", op);
    desc.put("bit", bit);
    desc.put("t_k", t_k);
    desc.put("f_k", f_k);
    desc.put("res_k", r_k);
    desc.put("t_class", in_class_name(tc));
    desc.put("f_class", in_class_name(fc));
    let key = format!("{}|{op}|{t_k}|{f_k}|{r_k}|{tc}|{fc}", cx.key);
    // for the in-place forms the result operand doubles as one input: it gets the layout of that input
    let (t, f) = match (make_glwe(module, &t_lay, tc, &cx.sk, rng, rep, &desc), make_glwe(module, &f_lay, fc, &cx.sk, rng, rep, &desc)) {
        (Ok(t), Ok(f)) => (t, f),
        (Err(p), _) | (_, Err(p)) => return panic_violation(rep, "glwe_encrypt_sk", &desc, &key, &p),
    };
    let w = (t_size.max(f_size).max(r_size) * b).max(cx.k.div_ceil(b) * b) + 8;
    let pt = glwe_phase(&t, &cx.sk, w);
    let pf = glwe_phase(&f, &cx.sk, w);
    let want: &Vec<Big> = if bit == 1 { &pt } else { &pf };
    let res_size = [r_size, t_size, f_size][form];
    // (t - f) has digits up to 2 * 2^{b-1}; it is cut to the limbs of res before the product; f is added back at the
    // precision of the GGSW
    let q = pow2f(b as i64);
    let out_l1 = 1.0 + cx.sk.l1_sum();
    let in_max = t_size.max(f_size);
    let diff_size = res_size.min(in_max);
    let cut = if res_size < in_max { TAIL_MARGIN * 2.0 * out_l1 * 0.5 * ulp(res_size * b) * q / (q - 1.0) } else { 0.0 };
    let g_size = cx.k.div_ceil(b);
    let f_cut = if in_max > g_size { TAIL_MARGIN * out_l1 * 0.5 * ulp(g_size * b) * q / (q - 1.0) } else { 0.0 };
    let bound = cx.xp_bound(b, diff_size, 2.0, res_size * b) + cut + f_cut;
    let mut exec = |dirty: bool, rep: &mut Report, rng: &mut Rng| -> Result<f64, String> {
        let res: GLWE<Vec<u8>> = match form {
            0 => {
                let mut res: GLWE<Vec<u8>> = GLWE::alloc_from_infos(&r_lay);
                garbage_vec(res.data_mut(), b, rng);
                let need = module.cmux_tmp_bytes(&r_lay, &r_lay, &cx.lay);
                with_scratch_opt(rep, op, &desc, need, rng, dirty, |s| module.cmux(&mut res, &t, &f, &cx.prep, s))?;
                res
            }
            1 => {
                // res = (res - a) * s + a : res plays t, a plays f
                let mut res: GLWE<Vec<u8>> = t.clone();
                let need = module.cmux_tmp_bytes(&t_lay, &t_lay, &cx.lay);
                with_scratch_opt(rep, op, &desc, need, rng, dirty, |s| {
                    res = t.clone();
                    module.cmux_assign(&mut res, &f, &cx.prep, s)
                })?;
                res
            }
            _ => {
                // res = (a - res) * s + res : a plays t, res plays f. The temporary (a - res) is taken from the scratch on top
                // of what cmux_tmp_bytes (documented for `cmux`) declares, so it is added here.
                let mut res: GLWE<Vec<u8>> = f.clone();
                let tmp_lay = glwe_layout(n, b, in_max * b, cx.rank);
                let need = module.cmux_tmp_bytes(&f_lay, &tmp_lay, &cx.lay) + GLWE::<Vec<u8>>::bytes_of_from_infos(&tmp_lay);
                with_scratch_opt(rep, op, &desc, need, rng, dirty, |s| {
                    res = f.clone();
                    module.cmux_assign_neg(&mut res, &t, &cx.prep, s)
                })?;
                res
            }
        };
        let have = glwe_phase(&res, &cx.sk, w);
        Ok(inf_torus(&diff_centre(&have, want, w), w))
    };
    let err = match exec(true, rep, rng) {
        Ok(e) => e,
        Err(p) => return panic_violation(rep, op, &desc, &key, &p),
    };
    if err >= bound {
        // classify: does the same call succeed when the scratch window holds zeroes instead of garbage?
        if let Ok(e2) = exec(false, rep, rng) {
            desc.put("err_with_zeroed_scratch_log2", e2.log2());
            if e2 < bound {
                desc.put("class_hint", "result_depends_on_scratch_contents");
            }
        }
    }
    // dsize >= 3 is the region of the scratch-content defect: even passing cases there are polluted, keep them out of the calibration
    judge3(rep, op, &desc, &key, err, 0.0, bound, bound < 0.0625, cx.dsize < 3, "phase(res) vs the selected input");
}

// ---------------------------------------------------------------------------------------------
// GGSW x GGSW and GGLWE x GGSW: the product is applied to every cell
// ---------------------------------------------------------------------------------------------
fn case_xp_ggsw(cx: &XpCtx, module: &Module<BE>, inplace: bool, rng: &mut Rng, rep: &mut Report) {
    let op = if inplace { "ggsw_external_product_assign" } else { "ggsw_external_product" };
    let n = cx.n;
    let a_b = pick_in_base2k(rng, cx.b, n, cx.rank);
    let a_dsize = rng.usize_in(1, 2);
    let a_size = a_dsize + rng.usize_in(1, 3);
    let a_dnum = rng.usize_in(1, a_size / a_dsize);
    let a_k = pick_k(rng, a_b, a_size).max((a_dnum * a_dsize - 1) * a_b + 1).max(a_dsize * a_b + 1);
    let a_lay = ggsw_layout(n, a_b, a_k, cx.rank, a_dnum, a_dsize);
    // res: same radix and digit size; precision and row count may differ (out-of-place only)
    let (r_size, r_dnum) = if inplace {
        (a_size, a_dnum)
    } else {
        let s = a_dsize + rng.usize_in(1, 4);
        (s, rng.usize_in(1, s / a_dsize))
    };
    let r_k = if inplace { a_k } else { pick_k(rng, a_b, r_size).max((r_dnum * a_dsize - 1) * a_b + 1).max(a_dsize * a_b + 1) };
    let r_lay = ggsw_layout(n, a_b, r_k, cx.rank, r_dnum, a_dsize);
    let m1 = gen_m2(n, *rng.pick(&[1usize, 3, 4, 5, 5, 6, 7]), rng.below(n as u64) as usize, rng);
    let mut desc = cx.desc.clone();
    desc.put("op", op);
    desc.put("a_base2k", a_b);
    desc.put("a_k", a_k);
    desc.put("a_dnum", a_dnum);
    desc.put("a_dsize", a_dsize);
    desc.put("res_k", r_k);
    desc.put("res_dnum", r_dnum);
    desc.put("m1", m1.name.as_str());
    let key = format!("{}|{op}|{a_b}|{a_k}|{a_dnum}|{a_dsize}|{r_k}|{r_dnum}|{}", cx.key, m1.name);
    let a = match enc_ggsw(module, &a_lay, &m1.m, &cx.sk, rng, rep, &desc) {
        Ok(a) => a,
        Err(p) => return panic_violation(rep, "ggsw_encrypt_sk", &desc, &key, &p),
    };
    let a_noise = ggsw_cell_noise(&a, &m1.m, &cx.sk);
    let mut res: GGSW<Vec<u8>> = if inplace { a.clone() } else { GGSW::alloc_from_infos(&r_lay) };
    let r = if inplace {
        let need = module.ggsw_external_product_tmp_bytes(&r_lay, &r_lay, &cx.lay);
        with_scratch(rep, op, &desc, need, rng, |s| {
            res = a.clone();
            module.ggsw_external_product_assign(&mut res, &cx.prep, s)
        })
    } else {
        let need = module.ggsw_external_product_tmp_bytes(&r_lay, &a_lay, &cx.lay);
        with_scratch(rep, op, &desc, need, rng, |s| module.ggsw_external_product(&mut res, &a, &cx.prep, s))
    };
    if let Err(p) = r {
        return panic_violation(rep, op, &desc, &key, &p);
    }
    // every cell (row < min(dnum), col) of res must encrypt m1*m2 * sigma_col * 2^{-(row+1) dsize b}
    let m12 = neg_small(&m1.m, &cx.m2.m);
    let res_noise = ggsw_cell_noise(&res, &m12, &cx.sk);
    let rows = r_dnum.min(a_dnum);
    let xpb = cx.xp_bound(a_b, a_size, 1.0, r_size * a_b);
    let m2l1 = l1_small(&cx.m2.m);
    let mut worst = Worst::new();
    for row in 0..rows {
        for col in 0..=cx.rank {
            worst.see(row, col, res_noise.inf[row][col], m2l1 * a_noise.inf[row][col], xpb);
        }
    }
    rep.count("ggsw_cells_decrypted", (rows * (cx.rank + 1)) as i128);
    desc.put("row", worst.row);
    desc.put("col", worst.col);
    // a row is decodable only if its gadget position sits above the error bound
    let top = pow2f(-((a_dsize * a_b) as i64));
    judge2(rep, op, &desc, &key, worst.err, worst.prop, worst.bound, worst.bound + worst.prop < top / 8.0, "cell(row, col) of the product GGSW vs m1*m2*sigma_col*2^-((row+1)*dsize*base2k)");
}

fn case_xp_gglwe(cx: &XpCtx, module: &Module<BE>, inplace: bool, rng: &mut Rng, rep: &mut Report) {
    let op = if inplace { "gglwe_external_product_assign" } else { "gglwe_external_product" };
    let n = cx.n;
    let a_b = pick_in_base2k(rng, cx.b, n, cx.rank);
    let a_dsize = rng.usize_in(1, 2);
    let a_size = a_dsize + rng.usize_in(1, 3);
    let a_dnum = rng.usize_in(1, a_size / a_dsize);
    let rank_in = rng.usize_in(1, 3);
    let a_k = pick_k(rng, a_b, a_size).max((a_dnum * a_dsize - 1) * a_b + 1).max(a_dsize * a_b + 1);
    let a_lay = gglwe_layout(n, a_b, a_k, rank_in, cx.rank, a_dnum, a_dsize);
    let (r_size, r_dnum) = if inplace {
        (a_size, a_dnum)
    } else {
        let s = a_dsize + rng.usize_in(1, 4);
        // res.dnum > a.dnum (extra rows are zeroed by the library) only now and then: it panics on the pinned tree
        let d = rng.usize_in(1, s / a_dsize);
        (s, if d > a_dnum && rng.below(8) != 0 { a_dnum.min(s / a_dsize) } else { d })
    };
    let r_k = if inplace { a_k } else { pick_k(rng, a_b, r_size).max((r_dnum * a_dsize - 1) * a_b + 1).max(a_dsize * a_b + 1) };
    let r_lay = gglwe_layout(n, a_b, r_k, rank_in, cx.rank, r_dnum, a_dsize);
    let pts: Vec<Vec<i64>> = (0..rank_in).map(|_| gen_m2(n, *rng.pick(&[1usize, 3, 5, 6, 7]), rng.below(n as u64) as usize, rng).m).collect();
    let mut desc = cx.desc.clone();
    desc.put("op", op);
    desc.put("a_base2k", a_b);
    desc.put("a_k", a_k);
    desc.put("a_dnum", a_dnum);
    desc.put("a_dsize", a_dsize);
    desc.put("a_rank_in", rank_in);
    desc.put("res_k", r_k);
    desc.put("res_dnum", r_dnum);
    let key = format!("{}|{op}|{a_b}|{a_k}|{a_dnum}|{a_dsize}|{rank_in}|{r_k}|{r_dnum}", cx.key);
    let a = match enc_gglwe(module, &a_lay, &pts, &cx.sk, rng, rep, &desc) {
        Ok(a) => a,
        Err(p) => return panic_violation(rep, "gglwe_encrypt_sk", &desc, &key, &p),
    };
    let a_noise = gglwe_cell_noise(&a, &pts, &cx.sk);
    let mut res: GGLWE<Vec<u8>> = if inplace { a.clone() } else { GGLWE::alloc_from_infos(&r_lay) };
    let r = if inplace {
        let need = module.gglwe_external_product_tmp_bytes(&r_lay, &r_lay, &cx.lay);
        with_scratch(rep, op, &desc, need, rng, |s| {
            res = a.clone();
            module.gglwe_external_product_assign(&mut res, &cx.prep, s)
        })
    } else {
        let need = module.gglwe_external_product_tmp_bytes(&r_lay, &a_lay, &cx.lay);
        with_scratch(rep, op, &desc, need, rng, |s| module.gglwe_external_product(&mut res, &a, &cx.prep, s))
    };
    if let Err(p) = r {
        let class = if r_dnum > a_dnum { "gglwe_xp_res_dnum_gt_a_dnum" } else { "panic" };
        return panic_violation_class(rep, op, &desc, &key, &p, class);
    }
    let prod: Vec<Vec<i64>> = pts.iter().map(|p| neg_small(p, &cx.m2.m)).collect();
    let res_noise = gglwe_cell_noise(&res, &prod, &cx.sk);
    let rows = r_dnum.min(a_dnum);
    let xpb = cx.xp_bound(a_b, a_size, 1.0, r_size * a_b);
    let m2l1 = l1_small(&cx.m2.m);
    let mut worst = Worst::new();
    for row in 0..rows {
        for col in 0..rank_in {
            worst.see(row, col, res_noise.inf[row][col], m2l1 * a_noise.inf[row][col], xpb);
        }
    }
    rep.count("gglwe_cells_decrypted", (rows * rank_in) as i128);
    desc.put("row", worst.row);
    desc.put("col", worst.col);
    let top = pow2f(-((a_dsize * a_b) as i64));
    judge2(rep, op, &desc, &key, worst.err, worst.prop, worst.bound, worst.bound + worst.prop < top / 8.0, "cell(row, col) of the product GGLWE vs pt_col*m2*2^-((row+1)*dsize*base2k)");
}

// ---------------------------------------------------------------------------------------------
// GGSW-producing operations: GGSW from GGLWE (row expansion with a GGLWE-to-GGSW key), GGSW key-switch, GGSW automorphism.
// EVERY cell (row, col) of the produced GGSW must decrypt to m * sigma_col * 2^{-(row+1)*dsize*base2k}
// (sigma_0 = 1, sigma_j = s_{j-1} of the key the result is under; m = m2, or its image under X -> X^p for the automorphism).
// ---------------------------------------------------------------------------------------------
struct TskCtx {
    n: usize,
    rank: usize,
    b: usize,
    size: usize,
    prep: GGLWEToGGSWKeyPrepared<DeviceBuf<BE>, BE>,
    lay: GGLWEToGGSWKeyLayout,
    /// noise of key i (plaintexts s_i * s_j, j = input column)
    noise: Vec<CellNoise>,
    shape: GadgetShape,
    /// ||s_i * s_j||_1
    sl1: Vec<Vec<f64>>,
}

fn pick_gadget(rng: &mut Rng, n: usize, terms_per_row: usize, want_bits: usize) -> (usize, usize, usize, usize, usize) {
    // returns (b, k, size, dnum, dsize) of a key whose rows cover about want_bits bits of the input
    let dsize = *rng.pick(&[1usize, 1, 2, 3]);
    let cap = if IS_FFT64 { 26 } else { 52 };
    // first guess of the radix, then the row count it needs, then re-check the exactness domain with that row count
    let mut b = rng.usize_in(6, cap);
    let mut dnum;
    loop {
        dnum = want_bits.div_ceil(b * dsize).max(1);
        // sometimes fewer rows than needed (truncating key), sometimes one more
        let hi = max_base2k(n, terms_per_row * dnum, 1, cap);
        if b <= hi {
            break;
        }
        b = hi;
    }
    match rng.below(5) {
        0 => dnum = (dnum + 1).min(8),
        1 => dnum = dnum.saturating_sub(1).max(1),
        _ => {}
    }
    let size = dnum * dsize + rng.usize_in(1, 2).max(if dnum * dsize <= dsize { 1 } else { 0 });
    let k = pick_k(rng, b, size).max((size - 1) * b + 1);
    (b, k, size, dnum, dsize)
}

fn build_tsk(module: &Module<BE>, sk: &Sk, want_bits: usize, rng: &mut Rng, rep: &mut Report, desc: &mut J, key: &mut String) -> Option<TskCtx> {
    let (n, rank) = (sk.n, sk.rank);
    let (b, k, size, dnum, dsize) = pick_gadget(rng, n, rank, want_bits);
    let lay = GGLWEToGGSWKeyLayout { n: Degree(n as u32), base2k: Base2K(b as u32), k: TorusPrecision(k as u32), rank: Rank(rank as u32), dnum: Dnum(dnum as u32), dsize: Dsize(dsize as u32) };
    desc.put("tsk_base2k", b);
    desc.put("tsk_k", k);
    desc.put("tsk_dnum", dnum);
    desc.put("tsk_dsize", dsize);
    key.push_str(&format!("|tsk:{b}:{k}:{dnum}:{dsize}"));
    let mut tsk: GGLWEToGGSWKey<Vec<u8>> = GGLWEToGGSWKey::alloc_from_infos(&lay);
    let enc = EncryptionLayout::new_from_default_sigma(lay).ok()?;
    let mut src = sources(rng);
    let need = GGLWEToGGSWKeyEncryptSk::gglwe_to_ggsw_key_encrypt_sk_tmp_bytes(module, &lay);
    if let Err(p) = with_scratch(rep, "gglwe_to_ggsw_key_encrypt_sk", desc, need, rng, |s| GGLWEToGGSWKeyEncryptSk::gglwe_to_ggsw_key_encrypt_sk(module, &mut tsk, &sk.sk, &enc, &mut src.xe, &mut src.xa, s)) {
        panic_violation(rep, "gglwe_to_ggsw_key_encrypt_sk", desc, key, &p);
        return None;
    }
    // key i, input column j, row r: s_i * s_j * 2^{-(r+1) dsize b}
    let mut noise = Vec::new();
    let mut sl1 = Vec::new();
    let mut worst = 0f64;
    for i in 0..rank {
        let pts: Vec<Vec<i64>> = (0..rank).map(|j| neg_small(&sk.s[i], &sk.s[j])).collect();
        sl1.push(pts.iter().map(|p| l1_small(p)).collect::<Vec<f64>>());
        let cn = gglwe_cell_noise(tsk.at(i), &pts, sk);
        worst = worst.max(cn.worst().2);
        noise.push(cn);
    }
    rep.count("tsk_cells_decrypted", (rank * rank * dnum) as i128);
    judge(rep, "gglwe_to_ggsw_key_encrypt_sk", desc, key, worst, fresh_bound(k, b), true, "GGLWE-to-GGSW key cell vs s_i*s_j*2^-((row+1)*dsize*base2k)");
    let mut prep: GGLWEToGGSWKeyPrepared<DeviceBuf<BE>, BE> = module.gglwe_to_ggsw_key_prepared_alloc_from_infos(&lay);
    let need = module.gglwe_to_ggsw_key_prepare_tmp_bytes(&lay);
    if let Err(p) = with_scratch(rep, "gglwe_to_ggsw_key_prepare", desc, need, rng, |s| module.gglwe_to_ggsw_key_prepare(&mut prep, &tsk, s)) {
        panic_violation(rep, "gglwe_to_ggsw_key_prepare", desc, key, &p);
        return None;
    }
    Some(TskCtx { n, rank, b, size, prep, lay, noise, shape: GadgetShape { b, dsize, dnum, key_size: size }, sl1 })
}

impl TskCtx {
    /// hard bound on the error that row expansion adds to cell (row, col >= 1), on top of ||s_{col-1}||_1 * |e(row, 0)|
    fn expand_bound(&self, sk: &Sk, col: usize, r_b: usize, r_size: usize) -> f64 {
        let sh = &self.shape;
        let (in_size, dig) = if r_b == self.b { (r_size, 1.0) } else { ((r_size * r_b).div_ceil(self.b), 2.0) };
        let rows = sh.rows_used(in_size);
        let tail: f64 = self.sl1[col - 1].iter().map(|p| p * sh.tail(in_size, dig)).sum();
        let noise = sh.noise(self.noise[col - 1].l1_rows(rows), dig);
        let out_l1 = 1.0 + sk.l1_sum();
        let dropped = out_l1 * sh.dropped(self.n, self.rank, rows, dig);
        // the body of the row is added on column `col` at the key's precision
        let q = pow2f(self.b as i64);
        // Row expansion composes a product with the tensor key, the addition of the row's body and a normalisation; each term below is a
        // worst-case statement, their composition is not proved tight: the first thorough sweeps (27 M evaluations) reached 1.20 of the
        // bound at margin 1.25 on two cells (N = 8, errors of 2^-39 and 2^-103). The expansion bound therefore carries its own margin;
        // defects of this path (wrong cell, wrong limb, dropped term) exceed it by many orders of magnitude.
        const EXPAND_MARGIN: f64 = 2.0 * HARD_MARGIN;
        let body_cut = if in_size > self.size { EXPAND_MARGIN * dig * sk.l1[col - 1] * 0.5 * ulp(self.size * self.b) * q / (q - 1.0) } else { 0.0 };
        EXPAND_MARGIN * (tail + noise + dropped) + body_cut + ROUND_UNITS * out_l1 * ulp(r_size * r_b)
    }
}

/// check every cell of a produced GGSW; column 0: inherited error `col0_prop[row]` + own bound `col0_bound`; the other columns:
/// the measured error of column 0 times ||s_{col-1}||_1 (inherited) + the expansion bound
#[allow(clippy::too_many_arguments)]
fn check_ggsw_cells(rep: &mut Report, op: &str, desc: &J, key: &str, res: &GGSW<Vec<u8>>, m: &[i64], sk: &Sk, tk: &TskCtx, col0_prop: &[f64], col0_bound: f64, rows: usize) {
    let b = res.base2k().0 as usize;
    let size = res.size();
    let dsize = res.dsize().0 as usize;
    let noise = ggsw_cell_noise(res, m, sk);
    rep.count("ggsw_cells_decrypted", (rows * (sk.rank + 1)) as i128);
    let mut worst = Worst::new();
    for row in 0..rows {
        for col in 0..=sk.rank {
            if col == 0 {
                worst.see(row, col, noise.inf[row][col], col0_prop[row], col0_bound);
            } else {
                worst.see(row, col, noise.inf[row][col], sk.l1[col - 1] * noise.inf[row][0], tk.expand_bound(sk, col, b, size));
            }
        }
    }
    let mut d = desc.clone();
    d.put("row", worst.row);
    d.put("col", worst.col);
    let top = pow2f(-((dsize * b) as i64));
    judge2(rep, op, &d, key, worst.err, worst.prop, worst.bound, worst.bound + worst.prop < top / 8.0, "cell(row, col) of the produced GGSW vs m*sigma_col*2^-((row+1)*dsize*base2k)");
}

fn pick_ggsw_shape(rng: &mut Rng, b: usize) -> (usize, usize, usize, usize) {
    // (k, size, dnum, dsize)
    let dsize = rng.usize_in(1, 2);
    let size = dsize + rng.usize_in(1, 3);
    let dnum = rng.usize_in(1, size / dsize);
    let k = pick_k(rng, b, size).max((dnum * dsize - 1) * b + 1).max(dsize * b + 1);
    (k, size, dnum, dsize)
}

fn run_ggsw_ops(module: &Module<BE>, n: usize, it: u64, rng: &mut Rng, rep: &mut Report) {
    let rank = rng.usize_in(1, 3);
    let dist = rng.below(4) as usize;
    let sk_seed = rng.next_u64();
    let sk = gen_sk(module, n, rank, dist, sk_seed);
    let cap = if IS_FFT64 { max_base2k(n, rank, 0, 26) } else { 52 };
    let a_b = rng.usize_in(5, cap);
    let (a_k, a_size, a_dnum, a_dsize) = pick_ggsw_shape(rng, a_b);
    let m2 = gen_m2(n, rng.below(8) as usize, rng.below(n as u64) as usize, rng);
    let mut desc = jo! {"backend" => BE_NAME, "n" => n, "rank" => rank, "sk_dist" => DISTS[dist], "sk_seed" => sk_seed, "a_base2k" => a_b, "a_k" => a_k,
    "a_dnum" => a_dnum, "a_dsize" => a_dsize, "m2" => m2.name.as_str()};
    let mut key = format!("{BE_NAME}|{n}|{rank}|{dist}|{a_b}|{a_k}|{a_dnum}|{a_dsize}|{}", m2.name);
    let Some(tk) = build_tsk(module, &sk, a_size * a_b, rng, rep, &mut desc, &mut key) else { return };
    let q = pow2f(a_b as i64);
    let out_l1 = 1.0 + sk.l1_sum();

    match it % 3 {
        // ---------------- GGSW from a GGLWE by row expansion
        0 => {
            let op = "ggsw_from_gglwe";
            let a_lay = gglwe_layout(n, a_b, a_k, 1, rank, a_dnum, a_dsize);
            // result: same radix / rows / digit size; precision equal, one limb shorter or one limb longer
            let r_size = match rng.below(4) {
                0 if a_size > a_dnum * a_dsize && a_size - 1 > a_dsize => a_size - 1,
                1 => a_size + 1,
                _ => a_size,
            };
            let r_k = if r_size == a_size { a_k } else { pick_k(rng, a_b, r_size).max((a_dnum * a_dsize - 1) * a_b + 1).max(a_dsize * a_b + 1) };
            let r_lay = ggsw_layout(n, a_b, r_k, rank, a_dnum, a_dsize);
            desc.put("op", op);
            desc.put("res_k", r_k);
            key.push_str(&format!("|{op}|{r_k}"));
            let a = match enc_gglwe(module, &a_lay, &[m2.m.clone()], &sk, rng, rep, &desc) {
                Ok(a) => a,
                Err(p) => return panic_violation(rep, "gglwe_encrypt_sk", &desc, &key, &p),
            };
            let a_noise = gglwe_cell_noise(&a, &[m2.m.clone()], &sk);
            let mut res: GGSW<Vec<u8>> = GGSW::alloc_from_infos(&r_lay);
            let need = module.ggsw_from_gglwe_tmp_bytes(&r_lay, &tk.lay);
            if let Err(p) = with_scratch(rep, op, &desc, need, rng, |s| module.ggsw_from_gglwe(&mut res, &a, &tk.prep, s)) {
                return panic_violation(rep, op, &desc, &key, &p);
            }
            let cut = if r_size < a_size { TAIL_MARGIN * out_l1 * 0.5 * ulp(r_size * a_b) * q / (q - 1.0) } else { 0.0 };
            let col0: Vec<f64> = (0..a_dnum).map(|r| a_noise.inf[r][0]).collect();
            // column 0 is a copy of the GGLWE row: nothing of its own unless limbs are cut
            check_ggsw_cells(rep, op, &desc, &key, &res, &m2.m, &sk, &tk, &col0, cut + ulp(a_size.max(r_size) * a_b), a_dnum);
        }
        // ---------------- GGSW key-switch (s_in -> s_out), into and assign
        1 => {
            let inplace = rng.coin();
            let op = if inplace { "ggsw_keyswitch_assign" } else { "ggsw_keyswitch" };
            let sk_in_seed = rng.next_u64();
            let sk_in = gen_sk(module, n, rank, rng.below(4) as usize, sk_in_seed);
            let (k_b, k_k, k_size, k_dnum, k_dsize) = pick_gadget(rng, n, rank, a_size * a_b);
            let k_lay = GLWESwitchingKeyLayout {
                n: Degree(n as u32),
                base2k: Base2K(k_b as u32),
                k: TorusPrecision(k_k as u32),
                rank_in: Rank(rank as u32),
                rank_out: Rank(rank as u32),
                dnum: Dnum(k_dnum as u32),
                dsize: Dsize(k_dsize as u32),
            };
            let a_lay = ggsw_layout(n, a_b, a_k, rank, a_dnum, a_dsize);
            let r_dnum = if inplace || rng.below(6) != 0 { a_dnum } else { rng.usize_in(1, a_dnum) };
            let r_size = if inplace { a_size } else { (r_dnum * a_dsize).max(a_dsize + 1).max(a_size + rng.below(3) as usize - 1) };
            let r_k = if inplace { a_k } else { pick_k(rng, a_b, r_size).max((r_dnum * a_dsize - 1) * a_b + 1).max(a_dsize * a_b + 1) };
            let r_lay = ggsw_layout(n, a_b, r_k, rank, r_dnum, a_dsize);
            desc.put("op", op);
            desc.put("sk_in_seed", sk_in_seed);
            desc.put("ksk_base2k", k_b);
            desc.put("ksk_k", k_k);
            desc.put("ksk_dnum", k_dnum);
            desc.put("ksk_dsize", k_dsize);
            desc.put("res_k", r_k);
            desc.put("res_dnum", r_dnum);
            key.push_str(&format!("|{op}|{k_b}|{k_k}|{k_dnum}|{k_dsize}|{r_k}|{r_dnum}"));
            let mut ksk: GLWESwitchingKey<Vec<u8>> = GLWESwitchingKey::alloc_from_infos(&k_lay);
            let Ok(enc) = EncryptionLayout::new_from_default_sigma(k_lay) else { return };
            let mut src = sources(rng);
            let need = module.glwe_switching_key_encrypt_sk_tmp_bytes(&k_lay);
            if let Err(p) = with_scratch(rep, "glwe_switching_key_encrypt_sk", &desc, need, rng, |s| module.glwe_switching_key_encrypt_sk(&mut ksk, &sk_in.sk, &sk.sk, &enc, &mut src.xe, &mut src.xa, s)) {
                return panic_violation(rep, "glwe_switching_key_encrypt_sk", &desc, &key, &p);
            }
            let ksk_noise = gglwe_cell_noise(&ksk, &sk_in.s, &sk);
            let mut kp: GLWESwitchingKeyPrepared<DeviceBuf<BE>, BE> = module.glwe_switching_key_prepared_alloc_from_infos(&k_lay);
            let need = module.glwe_switching_key_prepare_tmp_bytes(&k_lay);
            if let Err(p) = with_scratch(rep, "glwe_switching_key_prepare", &desc, need, rng, |s| module.glwe_switching_key_prepare(&mut kp, &ksk, s)) {
                return panic_violation(rep, "glwe_switching_key_prepare", &desc, &key, &p);
            }
            let a = match enc_ggsw(module, &a_lay, &m2.m, &sk_in, rng, rep, &desc) {
                Ok(a) => a,
                Err(p) => return panic_violation(rep, "ggsw_encrypt_sk", &desc, &key, &p),
            };
            let a_noise = ggsw_cell_noise(&a, &m2.m, &sk_in);
            let mut res: GGSW<Vec<u8>> = if inplace { a.clone() } else { GGSW::alloc_from_infos(&r_lay) };
            let r = if inplace {
                let need = module.ggsw_keyswitch_tmp_bytes(&r_lay, &r_lay, &k_lay, &tk.lay);
                with_scratch(rep, op, &desc, need, rng, |s| {
                    res = a.clone();
                    module.ggsw_keyswitch_assign(&mut res, &kp, &tk.prep, s)
                })
            } else {
                let need = module.ggsw_keyswitch_tmp_bytes(&r_lay, &a_lay, &k_lay, &tk.lay);
                with_scratch(rep, op, &desc, need, rng, |s| module.ggsw_keyswitch(&mut res, &a, &kp, &tk.prep, s))
            };
            if let Err(p) = r {
                let class = if r_dnum < a_dnum { "ggsw_keyswitch_res_dnum_lt_a_dnum" } else { "panic" };
                return panic_violation_class(rep, op, &desc, &key, &p, class);
            }
            // column 0: key-switch of the row
            let ks = GadgetShape { b: k_b, dsize: k_dsize, dnum: k_dnum, key_size: k_size };
            let (in_size, dig) = if a_b == k_b { (a_size, 1.0) } else { ((a_size * a_b).div_ceil(k_b), 2.0) };
            let rows = ks.rows_used(in_size);
            let tail: f64 = sk_in.l1.iter().map(|p| p * ks.tail(in_size, dig)).sum();
            let ksb = HARD_MARGIN * (tail + ks.noise(ksk_noise.l1_rows(rows), dig) + out_l1 * ks.dropped(n, rank, rows, dig)) + ROUND_UNITS * out_l1 * ulp(r_size * a_b);
            let col0: Vec<f64> = (0..r_dnum).map(|r| a_noise.inf[r][0]).collect();
            check_ggsw_cells(rep, op, &desc, &key, &res, &m2.m, &sk, &tk, &col0, ksb, r_dnum);
        }
        // ---------------- GGSW automorphism X -> X^p, into and assign
        _ => {
            let inplace = rng.coin();
            let op = if inplace { "ggsw_automorphism_assign" } else { "ggsw_automorphism" };
            let p: i64 = {
                let v = 2 * rng.below(n as u64) as i64 + 1; // odd in [1, 2N)
                if rng.coin() { v } else { -v }
            };
            let (k_b, k_k, k_size, k_dnum, k_dsize) = pick_gadget(rng, n, rank, a_size * a_b);
            let k_lay = GLWEAutomorphismKeyLayout { n: Degree(n as u32), base2k: Base2K(k_b as u32), k: TorusPrecision(k_k as u32), rank: Rank(rank as u32), dnum: Dnum(k_dnum as u32), dsize: Dsize(k_dsize as u32) };
            let a_lay = ggsw_layout(n, a_b, a_k, rank, a_dnum, a_dsize);
            let r_dnum = if inplace || rng.below(6) != 0 { a_dnum } else { rng.usize_in(1, a_dnum) };
            let r_size = if inplace { a_size } else { (r_dnum * a_dsize).max(a_dsize + 1).max(a_size + rng.below(3) as usize - 1) };
            let r_k = if inplace { a_k } else { pick_k(rng, a_b, r_size).max((r_dnum * a_dsize - 1) * a_b + 1).max(a_dsize * a_b + 1) };
            let r_lay = ggsw_layout(n, a_b, r_k, rank, r_dnum, a_dsize);
            desc.put("op", op);
            desc.put("p", p);
            desc.put("atk_base2k", k_b);
            desc.put("atk_k", k_k);
            desc.put("atk_dnum", k_dnum);
            desc.put("atk_dsize", k_dsize);
            desc.put("res_k", r_k);
            desc.put("res_dnum", r_dnum);
            key.push_str(&format!("|{op}|{p}|{k_b}|{k_k}|{k_dnum}|{k_dsize}|{r_k}|{r_dnum}"));
            let mut atk: GLWEAutomorphismKey<Vec<u8>> = GLWEAutomorphismKey::alloc_from_infos(&k_lay);
            let Ok(enc) = EncryptionLayout::new_from_default_sigma(k_lay) else { return };
            let mut src = sources(rng);
            let need = module.glwe_automorphism_key_encrypt_sk_tmp_bytes(&k_lay);
            if let Err(e) = with_scratch(rep, "glwe_automorphism_key_encrypt_sk", &desc, need, rng, |s| module.glwe_automorphism_key_encrypt_sk(&mut atk, p, &sk.sk, &enc, &mut src.xe, &mut src.xa, s)) {
                return panic_violation(rep, "glwe_automorphism_key_encrypt_sk", &desc, &key, &e);
            }
            let mut kp: GLWEAutomorphismKeyPrepared<DeviceBuf<BE>, BE> = module.glwe_automorphism_key_prepared_alloc_from_infos(&k_lay);
            let need = module.glwe_automorphism_key_prepare_tmp_bytes(&k_lay);
            if let Err(e) = with_scratch(rep, "glwe_automorphism_key_prepare", &desc, need, rng, |s| module.glwe_automorphism_key_prepare(&mut kp, &atk, s)) {
                return panic_violation(rep, "glwe_automorphism_key_prepare", &desc, &key, &e);
            }
            let a = match enc_ggsw(module, &a_lay, &m2.m, &sk, rng, rep, &desc) {
                Ok(a) => a,
                Err(e) => return panic_violation(rep, "ggsw_encrypt_sk", &desc, &key, &e),
            };
            let a_noise = ggsw_cell_noise(&a, &m2.m, &sk);
            let mut res: GGSW<Vec<u8>> = if inplace { a.clone() } else { GGSW::alloc_from_infos(&r_lay) };
            let r = if inplace {
                let need = module.ggsw_automorphism_tmp_bytes(&r_lay, &r_lay, &k_lay, &tk.lay);
                with_scratch(rep, op, &desc, need, rng, |s| {
                    res = a.clone();
                    module.ggsw_automorphism_assign(&mut res, &kp, &tk.prep, s)
                })
            } else {
                let need = module.ggsw_automorphism_tmp_bytes(&r_lay, &a_lay, &k_lay, &tk.lay);
                with_scratch(rep, op, &desc, need, rng, |s| module.ggsw_automorphism(&mut res, &a, &kp, &tk.prep, s))
            };
            if let Err(e) = r {
                return panic_violation(rep, op, &desc, &key, &e);
            }
            // column 0: key-switch with the automorphism key (worst-case key error: its cells are under the automorphed secret),
            // then the ring automorphism, which permutes coefficients up to sign (norms unchanged)
            let ks = GadgetShape { b: k_b, dsize: k_dsize, dnum: k_dnum, key_size: k_size };
            let (in_size, dig) = if a_b == k_b { (a_size, 1.0) } else { ((a_size * a_b).div_ceil(k_b), 2.0) };
            let rows = ks.rows_used(in_size);
            let tail: f64 = sk.l1.iter().map(|x| x * ks.tail(in_size, dig)).sum();
            let l1_rows = (rank * rows * n) as f64 * fresh_bound(k_k, k_b);
            let ksb = HARD_MARGIN * (tail + ks.noise(l1_rows, dig) + out_l1 * ks.dropped(n, rank, rows, dig)) + ROUND_UNITS * out_l1 * ulp(r_size * a_b);
            let col0: Vec<f64> = (0..r_dnum).map(|r| a_noise.inf[r][0]).collect();
            let m_img = automorphism_i64(&m2.m, p);
            check_ggsw_cells(rep, op, &desc, &key, &res, &m_img, &sk, &tk, &col0, ksb, r_dnum);
        }
    }
}

pub fn run(cfg: &Cfg, rep: &mut Report) {
    let mut rng = cfg.rng(&format!("c04-{BE_NAME}"));
    let sc = bscale();
    // ---- grid: m2 = +-X^k for every k, N in {8, 16} (sharded by index; the other parameters vary with the seed)
    let mut idx = 0u64;
    for &n in &[8usize, 16] {
        let module = cached_module(n);
        for k in 0..n {
            for cls in [3usize, 4] {
                idx += 1;
                if idx % cfg.nshards != cfg.shard {
                    continue;
                }
                if let Some(cx) = build_ctx(module, n, cls, k, false, &mut rng, rep) {
                    case_xp_glwe(&cx, module, false, &mut rng, rep);
                    case_xp_glwe(&cx, module, true, &mut rng, rep);
                }
            }
        }
    }
    rep.count("grid_all_monomials_n8_n16", 1);

    // ---- random contexts: external products and CMux
    let contexts = ((cfg.budget(40_000, 900_000) as f64) * sc).ceil() as u64;
    for it in 0..contexts {
        let n = pick_n(&mut rng);
        let module = cached_module(n);
        let for_cmux = it % 4 == 3;
        let m2cls = rng.below(8) as usize;
        let m2k = rng.below(n as u64) as usize;
        let Some(cx) = build_ctx(module, n, m2cls, m2k, for_cmux, &mut rng, rep) else { continue };
        if for_cmux {
            for form in 0..3 {
                case_cmux(&cx, module, form, &mut rng, rep);
            }
            case_cmux(&cx, module, 0, &mut rng, rep);
        } else {
            case_xp_glwe(&cx, module, false, &mut rng, rep);
            case_xp_glwe(&cx, module, false, &mut rng, rep);
            case_xp_glwe(&cx, module, true, &mut rng, rep);
            match it % 4 {
                0 => {
                    case_xp_ggsw(&cx, module, false, &mut rng, rep);
                    case_xp_ggsw(&cx, module, true, &mut rng, rep);
                }
                1 => {
                    case_xp_gglwe(&cx, module, false, &mut rng, rep);
                    case_xp_gglwe(&cx, module, true, &mut rng, rep);
                }
                _ => {}
            }
        }
    }

    // ---- GGSW-producing operations: row expansion, GGSW key-switch, GGSW automorphism
    let contexts = ((cfg.budget(12_000, 270_000) as f64) * sc).ceil() as u64;
    for it in 0..contexts {
        let n = pick_n(&mut rng);
        let module = cached_module(n);
        run_ggsw_ops(module, n, it, &mut rng, rep);
    }
    flush_worst(rep, "c04");
}
