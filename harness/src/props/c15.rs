// C15 — encrypted integers: bootstrap, word operations and bit surgery match u32.
// Oracle: plain Rust word semantics; exact-phase decryption (clear secret, integer arithmetic) of GLWE
// coefficients, LWE samples and of every GGSW cell. Nothing of the library is used to compute an expected value.
// (c1520_common.rs is included by the parent module.)

pub trait Word: UnsignedInteger + ToBits + FromBits + PartialEq + std::fmt::Debug {
    const NAME: &'static str;
    fn from_u64(x: u64) -> Self;
    fn to_u64(self) -> u64;
}
macro_rules! impl_word { ($($t:ty),*) => { $( impl Word for $t {
    const NAME: &'static str = stringify!($t);
    fn from_u64(x: u64) -> Self { x as $t }
    fn to_u64(self) -> u64 { self as u64 }
} )* } }
impl_word!(u8, u16, u32);

const OPS2: &[&str] = &["add", "sub", "sll", "srl", "sra", "slt", "sltu", "and", "or", "xor"];

fn plain_op(op: &str, a: u32, b: u32) -> u32 {
    match op {
        "add" => a.wrapping_add(b),
        "sub" => a.wrapping_sub(b),
        // RISC-V register shifts: the amount is the low five bits of b
        "sll" => a << (b & 31),
        "srl" => a >> (b & 31),
        "sra" => ((a as i32) >> (b & 31)) as u32,
        "slt" => ((a as i32) < (b as i32)) as u32,
        "sltu" => (a < b) as u32,
        "and" => a & b,
        "or" => a | b,
        "xor" => a ^ b,
        "identity" => a,
        _ => unreachable!(),
    }
}

fn exec_op(ctx: &mut Ctx, op: &str, threads: usize, res: &mut Packed<u32>, a: &Prepared<u32>, b: &Prepared<u32>) {
    let m = &ctx.module;
    let k = &ctx.key;
    let s = ctx.scratch.borrow();
    if threads == 0 {
        match op {
            "add" => res.add(m, a, b, k, s),
            "sub" => res.sub(m, a, b, k, s),
            "sll" => res.sll(m, a, b, k, s),
            "srl" => res.srl(m, a, b, k, s),
            "sra" => res.sra(m, a, b, k, s),
            "slt" => res.slt(m, a, b, k, s),
            "sltu" => res.sltu(m, a, b, k, s),
            "and" => res.and(m, a, b, k, s),
            "or" => res.or(m, a, b, k, s),
            "xor" => res.xor(m, a, b, k, s),
            "identity" => res.identity(m, a, k, s),
            _ => unreachable!(),
        }
    } else {
        match op {
            "add" => res.add_multi_thread(threads, m, a, b, k, s),
            "sub" => res.sub_multi_thread(threads, m, a, b, k, s),
            "sll" => res.sll_multi_thread(threads, m, a, b, k, s),
            "srl" => res.srl_multi_thread(threads, m, a, b, k, s),
            "sra" => res.sra_multi_thread(threads, m, a, b, k, s),
            "slt" => res.slt_multi_thread(threads, m, a, b, k, s),
            "sltu" => res.sltu_multi_thread(threads, m, a, b, k, s),
            "and" => res.and_multi_thread(threads, m, a, b, k, s),
            "or" => res.or_multi_thread(threads, m, a, b, k, s),
            "xor" => res.xor_multi_thread(threads, m, a, b, k, s),
            "identity" => res.identity_multi_thread(threads, m, a, k, s),
            _ => unreachable!(),
        }
    }
}

fn word_class(x: u64, bits: u32, dict: &[u64]) -> &'static str {
    let full = if bits == 64 { u64::MAX } else { (1u64 << bits) - 1 };
    if x == 0 {
        "zero"
    } else if x == full {
        "ones"
    } else if x.count_ones() == 1 {
        "single_bit"
    } else if dict.binary_search(&x).is_ok() {
        "boundary"
    } else {
        "random"
    }
}

fn pick_word(rng: &mut Rng, dict: &[u64], bits: u32) -> u64 {
    let full = if bits == 64 { u64::MAX } else { (1u64 << bits) - 1 };
    if rng.below(10) < 6 { *rng.pick(dict) } else { rng.next_u64() & full }
}

fn hexw(x: u64) -> String {
    format!("0x{x:x}")
}

pub fn run(cfg_in: &Cfg, rep: &mut Report) {
    install_worker_panic_capture();
    let sc = bscale();
    let mut cfg_scaled = cfg_in.clone();
    cfg_scaled.scale *= sc;
    let cfg = &cfg_scaled;
    let slow = sc < 0.1; // NTT120 family: one representative of every kind of check
    let mut rng = cfg.rng(&format!("c15-{BE_NAME}"));
    let only = cfg.extra.get("only").cloned().unwrap_or_default();
    let want = |s: &str| only.is_empty() || only.split(',').any(|x| x == s);
    // keys depend on (seed, shard): every shard bootstraps under different secrets
    let key_seed = cfg.seed.wrapping_mul(1000).wrapping_add(cfg.shard);
    let ctx0 = guarded(|| Ctx::new(0, key_seed));
    let mut ctx = match ctx0 {
        Ok(c) => c,
        Err(p) => {
            rep.violate("keygen", jo! {"backend" => BE_NAME, "pset" => 0, "key_seed" => key_seed}, format!("panic: {p}"));
            return;
        }
    };
    if want("ops") {
        sec_word_ops(&mut ctx, cfg, rep, &mut rng);
    }
    if want("surgery") {
        // slow backends: one width per run, rotating with the shard
        if !slow || cfg.shard % 3 == 0 {
            sec_surgery::<u32>(&mut ctx, cfg, rep, &mut rng);
        }
        if !slow || cfg.shard % 3 == 1 {
            sec_surgery::<u16>(&mut ctx, cfg, rep, &mut rng);
        }
        if !slow || cfg.shard % 3 == 2 {
            sec_surgery::<u8>(&mut ctx, cfg, rep, &mut rng);
        }
    }
    if want("blind") {
        sec_blind(&mut ctx, cfg, rep, &mut rng);
    }
    if want("cells") {
        sec_cbt_cells_bdd::<u32>(&mut ctx, cfg, rep, &mut rng);
        sec_cbt_standalone(cfg, rep, &mut rng);
    }
    if want("partial") {
        sec_partial::<u32>(&mut ctx, cfg, rep, &mut rng, sc);
        sec_partial::<u16>(&mut ctx, cfg, rep, &mut rng, sc);
        sec_partial::<u8>(&mut ctx, cfg, rep, &mut rng, sc);
    }
    if want("programs") && (!slow || cfg.thorough || cfg.shard % 4 == cfg.seed % 4) {
        sec_programs(&mut ctx, cfg, rep, &mut rng, if slow && !cfg.thorough { 3 } else { 6 });
    }
    if want("psets") && !slow {
        // other key layouts (see bdd_layouts): the statement's path only. A layout whose very first bootstrapping
        // panics is reported once (op "prepare") and skipped.
        for pset in 1..=3usize {
            let ks = key_seed ^ (0x5555 * pset as u64);
            match guarded(|| Ctx::new(pset, ks)) {
                Ok(mut c) => {
                    let probe = guarded_mt(|| {
                        let ca = c.enc_packed(0x8000_0001u32);
                        let mut p: Prepared<u32> = c.alloc_prepared();
                        p.prepare(&c.module, &ca, &c.key, c.scratch.borrow());
                        c.dec_prepared(&p)
                    });
                    rep.case("prepare", &format!("{BE_NAME}|pset{pset}|{ks}"), true);
                    let d = jo! {"backend" => BE_NAME, "op" => "prepare", "pset" => pset, "key_seed" => ks, "rank" => c.glwe_infos.rank.0, "ks_glwe" => c.key_layout.ks_glwe_layout.is_some(), "a" => "0x80000001"};
                    match probe {
                        Err(p) => {
                            rep.violate("prepare", d, format!("panic: {p}"));
                            continue;
                        }
                        Ok(g) if g != 0x8000_0001 => {
                            rep.violate("prepare", d, format!("prepared word decrypts to 0x{g:x}"));
                            continue;
                        }
                        _ => {}
                    }
                    sec_pipeline(&mut c, rep, &mut rng, cfg.budget(16 * 2, 16 * 16) as usize);
                    sec_cbt_cells_bdd::<u32>(&mut c, cfg, rep, &mut rng);
                }
                Err(p) => rep.violate("keygen", jo! {"backend" => BE_NAME, "pset" => pset, "key_seed" => ks}, format!("panic: {p}")),
            }
        }
    }
}

// ---------------------------------------------------------------------------------------------
// A. word operations
// ---------------------------------------------------------------------------------------------
fn op_case(ctx: &mut Ctx, rep: &mut Report, op: &'static str, a: u32, b: u32, path: &str, threads: usize, dict: &[u64]) {
    let desc = jo! {"backend" => BE_NAME, "pset" => ctx.pset, "key_seed" => ctx.key_seed, "op" => op, "a" => hexw(a as u64), "b" => hexw(b as u64),
    "path" => path, "threads" => threads, "a_class" => word_class(a as u64, 32, dict), "b_class" => word_class(b as u64, 32, dict)};
    let key = format!("{BE_NAME}|{}|{op}|{a:x}|{b:x}|{path}|{threads}", ctx.pset);
    let want = plain_op(op, a, b);
    let r = guarded_mt(|| {
        let (ap, bp) = if path == "pipeline" {
            let ca = ctx.enc_packed(a);
            let cb = ctx.enc_packed(b);
            let mut ap: Prepared<u32> = ctx.alloc_prepared();
            let mut bp: Prepared<u32> = ctx.alloc_prepared();
            ap.prepare(&ctx.module, &ca, &ctx.key, ctx.scratch.borrow());
            bp.prepare(&ctx.module, &cb, &ctx.key, ctx.scratch.borrow());
            (ap, bp)
        } else {
            (ctx.enc_prepared(a), ctx.enc_prepared(b))
        };
        let mut res: Packed<u32> = ctx.alloc_packed();
        exec_op(ctx, op, threads, &mut res, &ap, &bp);
        ctx.dec_packed(&res)
    });
    rep.case(op, &key, !(a == 0 && b == 0));
    rep.sample_for_op(&format!("{BE_NAME}:{op}:{path}"), || desc.clone());
    match r {
        Ok(got) if got == want => {}
        Ok(got) => rep.violate(op, desc, format!("decrypt(op(enc a, enc b)) = 0x{got:08x}, plain Rust gives 0x{want:08x} (xor 0x{:08x})", got ^ want)),
        Err(p) => rep.violate(op, desc, format!("panic: {p}")),
    }
}

fn sec_word_ops(ctx: &mut Ctx, cfg: &Cfg, rep: &mut Report, rng: &mut Rng) {
    let dict = boundary_words(32);
    // (1) grid, independent of the seed: every shift amount 0..63 for the three shifts
    let mut idx = 0u64;
    for op in ["sll", "srl", "sra"] {
        for amount in 0..64u32 {
            idx += 1;
            if !grid_take(idx, cfg, bscale()) {
                continue;
            }
            let a = pick_word(rng, &dict, 32) as u32 | if op == "sra" && rng.coin() { 0x8000_0000 } else { 0 };
            // the bits above the amount field are free: half of the cases fill them with garbage
            let b = if rng.coin() { amount } else { amount | ((rng.next_u64() as u32) << 6) };
            op_case(ctx, rep, op, a, b, "direct", 0, &dict);
        }
    }
    if bscale() >= 1.0 {
        rep.count("shift_amount_grid_0_63", 1);
    }
    // (2) boundary x boundary and random pairs, all operations
    let per_op = cfg.budget(11 * 16 * 10, 11 * 16 * 100) as usize / 11;
    for (oi, op) in OPS2.iter().chain(["identity"].iter()).enumerate() {
        // a backend whose share is below one case per operation takes a shard-rotating quarter of the operations
        let n_cases = if per_op == 0 { (oi as u64 % 4 == (cfg.shard + cfg.seed) % 4) as usize } else { per_op };
        for _ in 0..n_cases {
            let a = pick_word(rng, &dict, 32) as u32;
            let mut b = pick_word(rng, &dict, 32) as u32;
            if matches!(*op, "slt" | "sltu" | "sub") && rng.below(4) == 0 {
                b = match rng.below(3) {
                    0 => a,
                    1 => a.wrapping_add(1),
                    _ => a.wrapping_sub(1),
                };
            }
            if matches!(*op, "add") && rng.below(4) == 0 {
                b = (!a).wrapping_add(rng.below(3) as u32); // full-length carry chains
            }
            let threads = if rng.below(4) == 0 { rng.usize_in(1, 6) } else { 0 };
            op_case(ctx, rep, op, a, b, "direct", threads, &dict);
        }
    }
    // (3) the statement's path: packed encryption -> circuit bootstrapping of both words -> operation
    let n_pipe = cfg.budget(16 * 11, 16 * 11 * 8) as usize;
    sec_pipeline(ctx, rep, rng, n_pipe);
}

fn sec_pipeline(ctx: &mut Ctx, rep: &mut Report, rng: &mut Rng, count: usize) {
    let dict = boundary_words(32);
    for i in 0..count {
        let op = if i % 11 == 10 { "identity" } else { OPS2[i % 11] };
        let a = pick_word(rng, &dict, 32) as u32;
        let b = if matches!(op, "sll" | "srl" | "sra") { rng.below(64) as u32 } else { pick_word(rng, &dict, 32) as u32 };
        op_case(ctx, rep, op, a, b, "pipeline", 0, &dict);
    }
    rep.count("pipeline_cases", count as i128);
}

// ---------------------------------------------------------------------------------------------
// B. bit surgery on packed words (u8 / u16 / u32)
// ---------------------------------------------------------------------------------------------
fn slot_of<T: Word>(n: usize, bit: usize) -> usize {
    // restated from the documentation: bit i lives at coefficient (((i & 7) << LOG_BYTES) | (i >> 3)) << log_gap
    let log_n = n.trailing_zeros() as usize;
    let log_bits = (T::BITS as usize).trailing_zeros() as usize;
    let log_bytes = log_bits - 3;
    let log_gap = log_n - log_bits;
    (((bit & 7) << log_bytes) | (bit >> 3)) << log_gap
}

/// every coefficient of a packed word: slots must decode to the bits of `want`, every other coefficient to 0
fn check_all_coeffs<T: Word, G: GLWEToRef + GLWEInfos>(ctx: &mut Ctx, ct: &G, want: u64) -> Result<(), String> {
    let n = ctx.n();
    let coeffs = ctx.dec_all_coeffs(ct);
    let mut expect = vec![0i64; n];
    for i in 0..T::BITS as usize {
        expect[slot_of::<T>(n, i)] = ((want >> i) & 1) as i64;
    }
    for i in 0..n {
        if coeffs[i].rem_euclid(4) != expect[i] {
            return Err(format!("coefficient {i} decodes to {} (mod 4), expected {}", coeffs[i].rem_euclid(4), expect[i]));
        }
    }
    Ok(())
}

fn sext_plain(x: u64, byte: usize, bits: u32) -> u64 {
    let full = (1u64 << bits) - 1;
    let top = 8 * (byte + 1) - 1;
    if top as u32 >= bits - 1 {
        return x & full;
    }
    let lo = x & ((1u64 << (top + 1)) - 1);
    if (x >> top) & 1 == 1 { (lo | !((1u64 << (top + 1)) - 1)) & full } else { lo }
}

fn rotr(x: u64, r: u32, bits: u32) -> u64 {
    let full = (1u64 << bits) - 1;
    let r = r % bits;
    if r == 0 { x & full } else { ((x >> r) | (x << (bits - r))) & full }
}
fn rotl(x: u64, r: u32, bits: u32) -> u64 {
    rotr(x, (bits - r % bits) % bits, bits)
}

fn sec_surgery<T: Word>(ctx: &mut Ctx, cfg: &Cfg, rep: &mut Report, rng: &mut Rng) {
    let bits = T::BITS;
    let nbytes = (bits / 8) as usize;
    let dict = boundary_words(bits);
    let rounds = cfg.budget(16, 16 * 8) as usize;
    let base = |op: &str, a: u64, ctx: &Ctx| jo! {"backend" => BE_NAME, "pset" => ctx.pset, "key_seed" => ctx.key_seed, "width" => T::NAME, "op" => op, "a" => hexw(a)};
    for _ in 0..rounds {
        let a = pick_word(rng, &dict, bits);
        let b = pick_word(rng, &dict, bits);
        let ca: Packed<T> = ctx.enc_packed(T::from_u64(a));
        let cb: Packed<T> = ctx.enc_packed(T::from_u64(b));
        // encrypt -> decrypt round trip and layout (all N coefficients)
        {
            let op = "enc_dec";
            rep.case(op, &format!("{BE_NAME}|{}|{a:x}", T::NAME), a != 0);
            let got = ctx.dec_packed(&ca).to_u64();
            if got != a {
                rep.violate(op, base(op, a, ctx), format!("decrypt(encrypt(a)) = 0x{got:x}"));
            }
            if let Err(e) = check_all_coeffs::<T, _>(ctx, &ca, a) {
                rep.violate(op, base(op, a, ctx), format!("packed layout: {e}"));
            }
        }
        // get_bit_glwe: every bit index; all N coefficients of the result
        for bit in 0..bits as usize {
            let op = "get_bit_glwe";
            let mut d = base(op, a, ctx);
            d.put("bit", bit);
            rep.case(op, &format!("{BE_NAME}|{}|{a:x}|{bit}", T::NAME), true);
            let mut out: GLWE<Vec<u8>> = GLWE::alloc_from_infos(&ctx.glwe_infos);
            let r = guarded(|| ca.get_bit_glwe(&ctx.module, bit, &mut out, &ctx.key, ctx.scratch.borrow()));
            if let Err(p) = r {
                rep.violate(op, d, format!("panic: {p}"));
                continue;
            }
            let coeffs = ctx.dec_all_coeffs(&out);
            let wantb = ((a >> bit) & 1) as i64;
            if coeffs[0].rem_euclid(4) != wantb {
                rep.violate(op, d, format!("coefficient 0 decodes to {}, bit {bit} of a is {wantb}", coeffs[0].rem_euclid(4)));
            } else if let Some(i) = (1..coeffs.len()).find(|i| coeffs[*i].rem_euclid(4) != 0) {
                rep.violate(op, d, format!("coefficient {i} is {} after the trace, expected 0", coeffs[i]));
            }
        }
        // get_bit_lwe: every bit index, exact LWE phase under the clear LWE secret
        for bit in 0..bits as usize {
            let op = "get_bit_lwe";
            let mut d = base(op, a, ctx);
            d.put("bit", bit);
            rep.case(op, &format!("{BE_NAME}|{}|{a:x}|{bit}", T::NAME), true);
            let lwe_infos = LWELayout { n: ctx.key_layout.cbt_layout.brk_layout.n_lwe, k: ctx.key_layout.ks_lwe_layout.k.min(ctx.glwe_infos.k), base2k: ctx.key_layout.ks_lwe_layout.base2k };
            let mut lwe: LWE<Vec<u8>> = LWE::alloc_from_infos(&lwe_infos);
            let (_, ks_glwe, ks_lwe) = ctx.key.get_cbt_key();
            let r = guarded(|| ca.get_bit_lwe(&ctx.module, bit, &mut lwe, ks_glwe, ks_lwe, ctx.scratch.borrow()));
            if let Err(p) = r {
                rep.violate(op, d, format!("panic: {p}"));
                continue;
            }
            let (ph, w) = lwe_phase(&lwe, &ctx.sk_lwe);
            let wantb = ((a >> bit) & 1) as i128;
            let e = centre_i128(ph - (wantb << (w - 2)), w);
            let ratio = e.unsigned_abs() as f64 / 2f64.powi(w as i32); // torus units
            rep.maxf("get_bit_lwe_err_over_eighth", ratio * 8.0);
            if ratio >= 0.125 {
                rep.violate(op, d, format!("LWE phase {:.4} is not within 1/8 of bit/4 = {:.2}", ph as f64 / 2f64.powi(w as i32), wantb as f64 / 4.0));
            }
        }
        // get_byte
        for byte in 0..nbytes {
            let op = "get_byte";
            let mut d = base(op, a, ctx);
            d.put("byte", byte);
            rep.case(op, &format!("{BE_NAME}|{}|{a:x}|{byte}", T::NAME), true);
            let mut out: Packed<T> = ctx.alloc_packed();
            let r = guarded(|| ca.get_byte(&ctx.module, byte, &mut out, &ctx.key, ctx.scratch.borrow()));
            if let Err(p) = r {
                rep.violate(op, d, format!("panic: {p}"));
                continue;
            }
            if let Err(e) = check_all_coeffs::<T, _>(ctx, &out, (a >> (8 * byte)) & 0xFF) {
                rep.violate(op, d, e);
            }
        }
        // zero_byte
        for byte in 0..nbytes {
            let op = "zero_byte";
            let mut d = base(op, a, ctx);
            d.put("byte", byte);
            rep.case(op, &format!("{BE_NAME}|{}|{a:x}|{byte}", T::NAME), true);
            let mut out: Packed<T> = ctx.enc_packed(T::from_u64(a));
            let r = guarded(|| out.zero_byte(&ctx.module, byte, &ctx.key, ctx.scratch.borrow()));
            if let Err(p) = r {
                rep.violate(op, d, format!("panic: {p}"));
                continue;
            }
            if let Err(e) = check_all_coeffs::<T, _>(ctx, &out, a & !(0xFFu64 << (8 * byte))) {
                rep.violate(op, d, e);
            }
        }
        // splice_u8: every (dst, src)
        for dst in 0..nbytes {
            for src in 0..nbytes {
                let op = "splice_u8";
                let mut d = base(op, a, ctx);
                d.put("b", hexw(b));
                d.put("dst", dst);
                d.put("src", src);
                rep.case(op, &format!("{BE_NAME}|{}|{a:x}|{b:x}|{dst}|{src}", T::NAME), true);
                let mut out: Packed<T> = ctx.alloc_packed();
                let r = guarded(|| out.splice_u8(&ctx.module, dst, src, &ca, &cb, &ctx.key, ctx.scratch.borrow()));
                if let Err(p) = r {
                    rep.violate(op, d, format!("panic: {p}"));
                    continue;
                }
                let want = rotl((rotr(a, 8 * dst as u32, bits) & !0xFFu64) | (rotr(b, 8 * src as u32, bits) & 0xFF), 8 * dst as u32, bits);
                let got = ctx.dec_packed(&out).to_u64();
                if got != want {
                    rep.violate(op, d, format!("got 0x{got:x} want 0x{want:x}"));
                }
            }
        }
        // splice_u16
        for dst in 0..nbytes / 2 {
            for src in 0..nbytes / 2 {
                let op = "splice_u16";
                let mut d = base(op, a, ctx);
                d.put("b", hexw(b));
                d.put("dst", dst);
                d.put("src", src);
                rep.case(op, &format!("{BE_NAME}|{}|{a:x}|{b:x}|{dst}|{src}", T::NAME), true);
                let mut out: Packed<T> = ctx.alloc_packed();
                let r = guarded(|| out.splice_u16(&ctx.module, dst, src, &ca, &cb, &ctx.key, ctx.scratch.borrow()));
                if let Err(p) = r {
                    rep.violate(op, d, format!("panic: {p}"));
                    continue;
                }
                let want = rotl((rotr(a, 16 * dst as u32, bits) & !0xFFFFu64) | (rotr(b, 16 * src as u32, bits) & 0xFFFF), 16 * dst as u32, bits);
                let got = ctx.dec_packed(&out).to_u64();
                if got != want {
                    rep.violate(op, d, format!("got 0x{got:x} want 0x{want:x}"));
                }
            }
        }
        // sext from every byte
        for byte in 0..nbytes {
            let op = "sext";
            let mut d = base(op, a, ctx);
            d.put("byte", byte);
            rep.case(op, &format!("{BE_NAME}|{}|{a:x}|{byte}", T::NAME), true);
            let mut out: Packed<T> = ctx.enc_packed(T::from_u64(a));
            let r = guarded(|| out.sext(&ctx.module, byte, &ctx.key, ctx.scratch.borrow()));
            if let Err(p) = r {
                rep.violate(op, d, format!("panic: {p}"));
                continue;
            }
            let want = sext_plain(a, byte, bits);
            let got = ctx.dec_packed(&out).to_u64();
            if got != want {
                rep.violate(op, d, format!("got 0x{got:x} want 0x{want:x}"));
            }
        }
        // cswap under an encrypted bit
        for bit in 0..2u32 {
            let op = "cswap";
            let mut d = base(op, a, ctx);
            d.put("b", hexw(b));
            d.put("bit", bit);
            rep.case(op, &format!("{BE_NAME}|{}|{a:x}|{b:x}|{bit}", T::NAME), true);
            let sel: Prepared<u32> = ctx.enc_prepared(bit);
            let mut x: Packed<T> = ctx.enc_packed(T::from_u64(a));
            let mut y: Packed<T> = ctx.enc_packed(T::from_u64(b));
            let r = guarded(|| ctx.module.cswap(&mut x, &mut y, &sel.get_bit(0), ctx.scratch.borrow()));
            if let Err(p) = r {
                rep.violate(op, d, format!("panic: {p}"));
                continue;
            }
            let (wa, wb) = if bit == 1 { (b, a) } else { (a, b) };
            let (ga, gb) = (ctx.dec_packed(&x).to_u64(), ctx.dec_packed(&y).to_u64());
            if (ga, gb) != (wa, wb) {
                rep.violate(op, d, format!("got (0x{ga:x}, 0x{gb:x}) want (0x{wa:x}, 0x{wb:x})"));
            }
        }
        // cswap of ciphertexts whose radix differs from the selector's (the operation converts them internally)
        for bit in 0..2u32 {
            let op = "cswap_cross_radix";
            let mut d = base(op, a, ctx);
            d.put("b", hexw(b));
            d.put("bit", bit);
            let lay = GLWELayout { n: ctx.glwe_infos.n, base2k: Base2K(ctx.glwe_infos.base2k.0 - 2), k: TorusPrecision(3 * (ctx.glwe_infos.base2k.0 - 2)), rank: ctx.glwe_infos.rank };
            d.put("ct_base2k", lay.base2k.0);
            rep.case(op, &format!("{BE_NAME}|{}|{a:x}|{b:x}|{bit}", T::NAME), true);
            let sel: Prepared<u32> = ctx.enc_prepared(bit);
            let mut x: Packed<T> = ctx.enc_packed_with(T::from_u64(a), lay);
            let mut y: Packed<T> = ctx.enc_packed_with(T::from_u64(b), lay);
            let r = guarded(|| ctx.module.cswap(&mut x, &mut y, &sel.get_bit(0), ctx.scratch.borrow()));
            if let Err(p) = r {
                rep.violate(op, d, format!("panic: {p}"));
                continue;
            }
            let (wa, wb) = if bit == 1 { (b, a) } else { (a, b) };
            let (ga, gb) = (ctx.dec_packed(&x).to_u64(), ctx.dec_packed(&y).to_u64());
            if (ga, gb) != (wa, wb) {
                rep.violate(op, d, format!("got (0x{ga:x}, 0x{gb:x}) want (0x{wa:x}, 0x{wb:x})"));
            }
        }
        // packed -> prepared (bootstrapping) -> packed: every bit survives
        {
            let op = "prepare_roundtrip";
            let d = base(op, a, ctx);
            rep.case(op, &format!("{BE_NAME}|{}|{a:x}", T::NAME), a != 0);
            let r = guarded(|| {
                let mut p: Prepared<T> = ctx.alloc_prepared();
                p.prepare(&ctx.module, &ca, &ctx.key, ctx.scratch.borrow());
                let mut back: Packed<T> = ctx.alloc_packed();
                back.from_fhe_uint_prepared(&ctx.module, &p, &ctx.key, ctx.scratch.borrow());
                back
            });
            match r {
                Err(p) => rep.violate(op, d, format!("panic: {p}")),
                Ok(back) => {
                    if let Err(e) = check_all_coeffs::<T, _>(ctx, &back, a) {
                        rep.violate(op, d, e);
                    }
                }
            }
        }
    }
}

/// exact LWE phase b + <a, s>, scaled by 2^w (w = size * base2k), centred
fn lwe_phase(lwe: &LWE<Vec<u8>>, sk: &LWESecret<Vec<u8>>) -> (i128, usize) {
    let d = lwe.data();
    let b = lwe.base2k().0 as usize;
    let size = d.size();
    let w = size * b;
    let s = sk.raw();
    let mut acc = 0i128;
    for j in 0..size {
        let limb = d.at(0, j);
        let mut v = limb[0] as i128;
        for (i, si) in s.iter().enumerate() {
            v += limb[i + 1] as i128 * *si as i128;
        }
        acc += v << (w - (j + 1) * b);
    }
    (centre_i128(acc, w), w)
}

// ---------------------------------------------------------------------------------------------
// exact scratch windows for the operations that have a companion size query (C12 events met by this monitor carry
// class = scratch_query_too_small and are collected by C12's `core-c15` run)
// ---------------------------------------------------------------------------------------------
fn exact_window(bytes: usize, rng: &mut Rng) -> ScratchWin {
    let mut w = ScratchWin::new(bytes);
    w.fill(rng);
    w
}

fn is_scratch_panic(p: &str) -> bool {
    p.contains("Attempted to take") || p.contains("scratch.available()") || p.contains("from scratch")
}

/// records a scratch-exhaustion panic under its own op name; returns true when `p` was one
fn note_scratch(rep: &mut Report, op: &str, d: &J, bytes: usize, p: &str) -> bool {
    if !is_scratch_panic(p) {
        return false;
    }
    let mut d = d.clone();
    d.put("class", "scratch_query_too_small");
    d.put("scratch_op", op);
    d.put("tmp_bytes", bytes);
    rep.violate(&format!("{op}:exact_scratch"), d, format!("panic with a scratch window of exactly the declared {bytes} bytes: {p}"));
    true
}

// ---------------------------------------------------------------------------------------------
// C. blind selection / retrieval / rotation
// ---------------------------------------------------------------------------------------------
fn sec_blind(ctx: &mut Ctx, cfg: &Cfg, rep: &mut Report, rng: &mut Rng) {
    let dict = boundary_words(32);
    let n = ctx.n();
    let rounds = cfg.budget(16 * 6, 16 * 60) as usize;
    for _ in 0..rounds {
        // ---- glwe_blind_selection: res = a[(k >> rsh) % 2^mask], absent keys are zero
        {
            let op = "glwe_blind_selection";
            let mask = rng.usize_in(0, 5);
            let rsh = rng.usize_in(0, 32 - mask);
            let k = pick_word(rng, &dict, 32) as u32;
            let words: Vec<u32> = (0..1usize << mask).map(|_| pick_word(rng, &dict, 32) as u32).collect();
            let present: Vec<bool> = (0..words.len()).map(|_| rng.below(4) != 0).collect();
            let idx = if mask == 0 { 0 } else { ((k >> rsh) as usize) & ((1 << mask) - 1) };
            let want = if present[idx] { words[idx] } else { 0 };
            let d = jo! {"backend" => BE_NAME, "pset" => ctx.pset, "key_seed" => ctx.key_seed, "op" => op, "k" => hexw(k as u64), "bit_rsh" => rsh, "bit_mask" => mask,
            "index" => idx, "present" => present[idx], "n_present" => present.iter().filter(|x| **x).count()};
            rep.case(op, &format!("{BE_NAME}|{k:x}|{rsh}|{mask}|{:?}", present), mask > 0);
            let kp: Prepared<u32> = ctx.enc_prepared(k);
            let mut cts: Vec<Packed<u32>> = words.iter().map(|w| ctx.enc_packed(*w)).collect();
            let mut res: Packed<u32> = ctx.alloc_packed();
            let bytes = GLWEBlindSelection::<u32, BE>::glwe_blind_selection_tmp_bytes(&ctx.module, &ctx.glwe_infos, &ctx.ggsw_infos);
            let mut sw = exact_window(bytes, rng);
            let r = guarded(|| {
                let mut map: HashMap<usize, &mut Packed<u32>> = HashMap::new();
                for (i, ct) in cts.iter_mut().enumerate() {
                    if present[i] {
                        map.insert(i, ct);
                    }
                }
                GLWEBlindSelection::<u32, BE>::glwe_blind_selection(&ctx.module, &mut res, map, &kp, rsh, mask, sw.scratch());
            });
            rep.count("exact_scratch_calls", 1);
            match r {
                Err(p) if note_scratch(rep, op, &d, bytes, &p) => {}
                Err(p) => rep.violate(op, d, format!("panic: {p}")),
                Ok(()) => {
                    if let Err(e) = check_all_coeffs::<u32, _>(ctx, &res, want as u64) {
                        rep.violate(op, d, format!("selected word differs from a[{idx}] = 0x{want:x}: {e}"));
                    }
                }
            }
        }
        // ---- stateful retrieval (cswap network) and its inverse
        {
            let op = "glwe_blind_retrieval_statefull";
            let len = rng.usize_in(1, 32);
            let need = (usize::BITS - (len - 1).leading_zeros()) as usize; // ceil(log2 len)
            let mask = rng.usize_in(need, 5.max(need));
            let rsh = rng.usize_in(0, 32 - mask);
            let idx = rng.usize_in(0, len - 1);
            let noise_bits = rng.next_u64() as u32;
            let field = if mask == 32 { u32::MAX } else { ((1u32 << mask) - 1) << rsh };
            let k = ((idx as u32) << rsh) | (noise_bits & !field);
            let words: Vec<u32> = (0..len).map(|_| pick_word(rng, &dict, 32) as u32).collect();
            let d = jo! {"backend" => BE_NAME, "pset" => ctx.pset, "key_seed" => ctx.key_seed, "op" => op, "k" => hexw(k as u64), "bit_rsh" => rsh, "bit_mask" => mask, "len" => len, "index" => idx};
            rep.case(op, &format!("{BE_NAME}|{k:x}|{rsh}|{mask}|{len}"), len > 1);
            let kp: Prepared<u32> = ctx.enc_prepared(k);
            let mut cts: Vec<Packed<u32>> = words.iter().map(|w| ctx.enc_packed(*w)).collect();
            let bytes = ctx.module.glwe_blind_retrieval_tmp_bytes(&ctx.glwe_infos, &ctx.ggsw_infos);
            let mut sw = exact_window(bytes, rng);
            let r = guarded(|| ctx.module.glwe_blind_retrieval_statefull(&mut cts, &kp, rsh, mask, sw.scratch()));
            rep.count("exact_scratch_calls", 1);
            match r {
                Err(p) if note_scratch(rep, op, &d, bytes, &p) => {}
                Err(p) => rep.violate(op, d.clone(), format!("panic: {p}")),
                Ok(()) => {
                    let got = ctx.dec_packed(&cts[0]);
                    if got != words[idx] {
                        rep.violate(op, d.clone(), format!("element 0 decrypts to 0x{got:x}, data[{idx}] = 0x{:x}", words[idx]));
                    }
                    // the network only permutes: the multiset of words is preserved
                    let mut have: Vec<u32> = cts.iter().map(|c| ctx.dec_packed(c)).collect();
                    let mut all = words.clone();
                    have.sort_unstable();
                    all.sort_unstable();
                    if have != all {
                        rep.violate(op, d.clone(), "the retrieval network changed the multiset of stored words".into());
                    }
                    let mut sw2 = exact_window(bytes, rng);
                    let r2 = guarded(|| ctx.module.glwe_blind_retrieval_statefull_rev(&mut cts, &kp, rsh, mask, sw2.scratch()));
                    rep.count("exact_scratch_calls", 1);
                    rep.case("glwe_blind_retrieval_statefull_rev", &format!("{BE_NAME}|{k:x}|{rsh}|{mask}|{len}"), len > 1);
                    match r2 {
                        Err(p) if note_scratch(rep, "glwe_blind_retrieval_statefull_rev", &d, bytes, &p) => {}
                        Err(p) => rep.violate("glwe_blind_retrieval_statefull_rev", d, format!("panic: {p}")),
                        Ok(()) => {
                            for i in 0..len {
                                let g = ctx.dec_packed(&cts[i]);
                                if g != words[i] {
                                    rep.violate("glwe_blind_retrieval_statefull_rev", d, format!("after the inverse network element {i} is 0x{g:x}, was 0x{:x}", words[i]));
                                    break;
                                }
                            }
                        }
                    }
                }
            }
        }
        // ---- stateless retriever
        {
            let op = "glwe_blind_retriever";
            let cap = rng.usize_in(2, 32);
            let len = rng.usize_in(1, cap);
            let idx = rng.usize_in(0, len - 1);
            let nbits = (u32::BITS - (cap as u32 - 1).leading_zeros()) as usize;
            let offset = rng.usize_in(0, 32 - nbits);
            let field = (((1u64 << nbits) - 1) as u32) << offset;
            let k = ((idx as u32) << offset) | (rng.next_u64() as u32 & !field);
            let words: Vec<u32> = (0..len).map(|_| pick_word(rng, &dict, 32) as u32).collect();
            let d = jo! {"backend" => BE_NAME, "pset" => ctx.pset, "key_seed" => ctx.key_seed, "op" => op, "k" => hexw(k as u64), "offset" => offset, "capacity" => cap, "len" => len, "index" => idx};
            rep.case(op, &format!("{BE_NAME}|{k:x}|{offset}|{cap}|{len}"), len > 1);
            let kp: Prepared<u32> = ctx.enc_prepared(k);
            let cts: Vec<Packed<u32>> = words.iter().map(|w| ctx.enc_packed(*w)).collect();
            let mut res: Packed<u32> = ctx.alloc_packed();
            let bytes = GLWEBlindRetriever::retrieve_tmp_bytes(&ctx.module, &ctx.glwe_infos, &ctx.ggsw_infos);
            let mut sw = exact_window(bytes, rng);
            let r = guarded(|| {
                let mut retr = GLWEBlindRetriever::alloc(&ctx.glwe_infos, cap);
                retr.retrieve(&ctx.module, &mut res, &cts, &kp, offset, sw.scratch());
                // second use of the same retriever (state must have been reset)
                let mut res2: Packed<u32> = ctx.alloc_packed();
                retr.retrieve(&ctx.module, &mut res2, &cts, &kp, offset, sw.scratch());
                res2
            });
            rep.count("exact_scratch_calls", 1);
            match r {
                Err(p) if note_scratch(rep, op, &d, bytes, &p) => {}
                Err(p) => rep.violate(op, d, format!("panic: {p}")),
                Ok(res2) => {
                    let (g1, g2) = (ctx.dec_packed(&res), ctx.dec_packed(&res2));
                    if g1 != words[idx] || g2 != words[idx] {
                        rep.violate(op, d, format!("retrieved 0x{g1:x} / 0x{g2:x} (second use), data[{idx}] = 0x{:x}", words[idx]));
                    }
                }
            }
        }
        // ---- GLWE blind rotation: res = a * X^{(+/-) ((k >> rsh) % 2^mask) << lsh}, every coefficient checked
        {
            let op = "glwe_blind_rotation";
            let log2n = n.trailing_zeros() as usize + 1;
            let mask = rng.usize_in(0, log2n.min(8));
            let lsh = rng.usize_in(0, log2n - mask);
            let rsh = rng.usize_in(0, 32 - mask);
            let sign = rng.coin();
            let k = pick_word(rng, &dict, 32) as u32;
            let field = if mask == 0 { 0 } else { ((k >> rsh) as u64 & ((1u64 << mask) - 1)) as i64 };
            let rot = (field << lsh) * if sign { 1 } else { -1 };
            let d = jo! {"backend" => BE_NAME, "pset" => ctx.pset, "key_seed" => ctx.key_seed, "op" => op, "k" => hexw(k as u64), "bit_rsh" => rsh, "bit_mask" => mask, "bit_lsh" => lsh, "sign" => sign, "rotation" => rot};
            rep.case(op, &format!("{BE_NAME}|{k:x}|{rsh}|{mask}|{lsh}|{sign}"), rot != 0);
            let prec = 10usize; // plaintext precision in bits
            let data: Vec<i64> = (0..n).map(|_| rng.signed_bits(prec - 1)).collect();
            let kp: Prepared<u32> = ctx.enc_prepared(k);
            let mut pt: GLWEPlaintext<Vec<u8>> = GLWEPlaintext::alloc_from_infos(&ctx.glwe_infos);
            pt.encode_vec_i64(&data, TorusPrecision(prec as u32));
            let mut a: GLWE<Vec<u8>> = GLWE::alloc_from_infos(&ctx.glwe_infos);
            let enc = EncryptionLayout::new_from_default_sigma(ctx.glwe_infos).unwrap();
            ctx.module.glwe_encrypt_sk(&mut a, &pt, &ctx.sk_prep, &enc, &mut ctx.xe, &mut ctx.xa, ctx.scratch.borrow());
            let mut res: GLWE<Vec<u8>> = GLWE::alloc_from_infos(&ctx.glwe_infos);
            let bytes = ctx.module.glwe_blind_rotation_tmp_bytes(&ctx.glwe_infos, &ctx.ggsw_infos);
            let mut sw = exact_window(bytes, rng);
            let r = guarded(|| ctx.module.glwe_blind_rotation(&mut res, &a, &kp, sign, rsh, mask, lsh, sw.scratch()));
            rep.count("exact_scratch_calls", 1);
            match r {
                Err(p) if note_scratch(rep, op, &d, bytes, &p) => {}
                Err(p) => rep.violate(op, d, format!("panic: {p}")),
                Ok(()) => {
                    let want = rotate_i64(&data, rot);
                    let ph = glwe_phase(&res, &ctx.sk);
                    let mut worst = 0f64;
                    let mut bad = None;
                    for i in 0..n {
                        let e = centre_i128(ph.coeffs[i] - ((want[i] as i128) << (ph.w - prec)), ph.w);
                        let ratio = e.unsigned_abs() as f64 / 2f64.powi((ph.w - prec) as i32);
                        worst = worst.max(ratio);
                        if ratio >= 0.5 && bad.is_none() {
                            bad = Some(i);
                        }
                    }
                    rep.maxf("glwe_blind_rotation_err_units", worst);
                    if let Some(i) = bad {
                        rep.violate(op, d, format!("coefficient {i} is not data rotated by X^{rot} (error {worst:.3} plaintext units)"));
                    }
                }
            }
        }
        // ---- GGSW blind rotations: every cell of the produced GGSW
        {
            let mask = rng.usize_in(0, 8);
            let lsh = rng.usize_in(0, 8 - mask);
            let rsh = rng.usize_in(0, 32 - mask);
            let sign = rng.coin();
            let k = pick_word(rng, &dict, 32) as u32;
            let field = if mask == 0 { 0 } else { ((k >> rsh) as u64 & ((1u64 << mask) - 1)) as i64 };
            let rot = (field << lsh) * if sign { 1 } else { -1 };
            let rank = ctx.glwe_infos.rank;
            let res_infos = GGSWLayout { n: ctx.glwe_infos.n, base2k: Base2K(13), k: TorusPrecision(39), rank, dnum: Dnum(2), dsize: Dsize(1) };
            let k_infos = GGSWLayout { n: ctx.glwe_infos.n, base2k: Base2K(13), k: TorusPrecision(52), rank, dnum: Dnum(3), dsize: Dsize(1) };
            let kp: Prepared<u32> = ctx.enc_prepared_with(k, k_infos);
            let scalar_vals: Vec<i64> = (0..n).map(|_| rng.signed_bits(6)).collect();
            let mut scalar: ScalarZnx<Vec<u8>> = ScalarZnx::alloc(n, 1);
            scalar.at_mut(0, 0).copy_from_slice(&scalar_vals);
            let want = rotate_i64(&scalar_vals, rot);
            for op in ["scalar_to_ggsw_blind_rotation", "ggsw_blind_rotation"] {
                let d = jo! {"backend" => BE_NAME, "pset" => ctx.pset, "key_seed" => ctx.key_seed, "op" => op, "k" => hexw(k as u64), "bit_rsh" => rsh, "bit_mask" => mask, "bit_lsh" => lsh, "sign" => sign, "rotation" => rot};
                rep.case(op, &format!("{BE_NAME}|{k:x}|{rsh}|{mask}|{lsh}|{sign}"), rot != 0);
                let mut res: GGSW<Vec<u8>> = GGSW::alloc_from_infos(&res_infos);
                let bytes = if op == "scalar_to_ggsw_blind_rotation" {
                    GGSWBlindRotation::<u32, BE>::scalar_to_ggsw_blind_rotation_tmp_bytes(&ctx.module, &res_infos, &k_infos)
                } else {
                    GGSWBlindRotation::<u32, BE>::ggsw_to_ggsw_blind_rotation_tmp_bytes(&ctx.module, &res_infos, &k_infos)
                };
                let mut sw = exact_window(bytes, rng);
                let r = guarded(|| {
                    if op == "scalar_to_ggsw_blind_rotation" {
                        GGSWBlindRotation::<u32, BE>::scalar_to_ggsw_blind_rotation(&ctx.module, &mut res, &scalar, &kp, sign, rsh, mask, lsh, sw.scratch());
                    } else {
                        let mut src: GGSW<Vec<u8>> = GGSW::alloc_from_infos(&res_infos);
                        let enc = EncryptionLayout::new_from_default_sigma(res_infos).unwrap();
                        ctx.module.ggsw_encrypt_sk(&mut src, &scalar, &ctx.sk_prep, &enc, &mut ctx.xe, &mut ctx.xa, ctx.scratch.borrow());
                        GGSWBlindRotation::<u32, BE>::ggsw_blind_rotation(&ctx.module, &mut res, &src, &kp, sign, rsh, mask, lsh, sw.scratch());
                    }
                });
                rep.count("exact_scratch_calls", 1);
                match r {
                    Err(p) if note_scratch(rep, op, &d, bytes, &p) => {}
                    Err(p) => rep.violate(op, d, format!("panic: {p}")),
                    Ok(()) => match ggsw_cells_check(&res, &want, &ctx.sk, -27) {
                        Ok(worst) => rep.maxf("ggsw_blind_rotation_cell_err_units", worst),
                        Err((row, col, i, got, wnt, ratio)) => rep.violate(op, d, format!("cell (row {row}, col {col}) coefficient {i}: decodes to {got}, scalar*X^{rot}*sigma_{col} has {wnt} (error {ratio:.3} x 2^-27)")),
                    },
                }
            }
        }
    }
}

// ---------------------------------------------------------------------------------------------
// D. circuit bootstrapping: every cell of the produced GGSW
// ---------------------------------------------------------------------------------------------
fn sec_cbt_cells_bdd<T: Word>(ctx: &mut Ctx, cfg: &Cfg, rep: &mut Report, rng: &mut Rng) {
    let dict = boundary_words(T::BITS);
    let words = cfg.budget(16, 16 * 8) as usize;
    let n = ctx.n();
    for _ in 0..words {
        let a = pick_word(rng, &dict, T::BITS);
        let ca: Packed<T> = ctx.enc_packed(T::from_u64(a));
        for bit in 0..T::BITS as usize {
            let op = "cbt_cells_pipeline";
            let d = jo! {"backend" => BE_NAME, "pset" => ctx.pset, "key_seed" => ctx.key_seed, "op" => op, "width" => T::NAME, "a" => hexw(a), "bit" => bit};
            rep.case(op, &format!("{BE_NAME}|{}|{}|{a:x}|{bit}", ctx.pset, T::NAME), true);
            // the LWE sample has the layout the preparation loop itself uses (`take_lwe(bits)`): degree N, radix and
            // precision of the packed word; only its first n_lwe mask coefficients meet a non-zero secret coefficient
            let mut lwe: LWE<Vec<u8>> = match cfg.extra.get("lwe_b2k") {
                Some(b) => LWE::alloc_from_infos(&LWELayout { n: Degree(cfg.extra.get("lwe_n").map(|x| x.parse().unwrap()).unwrap_or(77)), k: TorusPrecision(16), base2k: Base2K(b.parse().unwrap()) }),
                None => LWE::alloc_from_infos(&ca),
            };
            let mut g: GGSW<Vec<u8>> = GGSW::alloc_from_infos(&ctx.ggsw_infos);
            let r = guarded(|| {
                let (cbt, ks_glwe, ks_lwe) = ctx.key.get_cbt_key();
                ca.get_bit_lwe(&ctx.module, bit, &mut lwe, ks_glwe, ks_lwe, ctx.scratch.borrow());
                cbt.execute_to_constant(&ctx.module, &mut g, &lwe, 1, 1, ctx.scratch.borrow());
            });
            if let Err(p) = r {
                rep.violate(op, d, format!("panic: {p}"));
                continue;
            }
            let mut m = vec![0i64; n];
            m[0] = ((a >> bit) & 1) as i64;
            // tolerance: half the gadget unit of the last row (2^-26 / 2): every row decodes by rounding
            match ggsw_cells_check(&g, &m, &ctx.sk, -27) {
                Ok(worst) => {
                    rep.maxf(&format!("cbt_pipeline_cell_err_units_pset{}", ctx.pset), worst);
                    rep.count("cbt_cells_checked", (ctx.ggsw_infos.dnum.0 * (ctx.ggsw_infos.rank.0 + 1)) as i128);
                }
                Err((row, col, i, got, wnt, ratio)) => {
                    rep.violate(op, d, format!("cell (row {row}, col {col}) coefficient {i}: decodes to {got}, bit*sigma_{col} has {wnt} (error {ratio:.3} x 2^-27)"))
                }
            }
        }
    }
}

/// stand-alone circuit bootstrapping.
/// set "lib":  the parameters of the library's own CBT tests (base2k 15, 3 rows, keys with 4 rows). Their third row
///             (scale 2^-45) lies below the key-switching noise floor (keys decompose 44 bits), so it is held to a
///             calibrated absolute noise ceiling (2^-34; worst observed 2^-36.2) and rows 0, 1 decode exactly.
/// set "wide": same GGSW, keys with 6 rows: all three rows decode by rounding (tolerance 2^-46 = half the last unit).
fn sec_cbt_standalone(cfg: &Cfg, rep: &mut Report, rng: &mut Rng) {
    let n = 256usize;
    for pname in ["lib", "wide"] {
        let key_seed = cfg.seed.wrapping_mul(7919).wrapping_add(cfg.shard) ^ 0xcb7;
        // "lib" is the library's own (rank-1) test setting; rank 2 is exercised with the wide keys
        let rank = if pname == "lib" { Rank(1) } else { Rank(rng.usize_in(1, 2) as u32) };
        let res_base2k = 15u32;
        let k_ggsw = 4 * res_base2k;
        let rows = 3u32;
        let (krows, kextra, tol) = if pname == "lib" { (4u32, 0u32, -34i32) } else { (6u32, 13u32, -46i32) };
        let cbt_infos = CircuitBootstrappingKeyLayout {
            brk_layout: BlindRotationKeyLayout { n_glwe: Degree(n as u32), n_lwe: Degree(77), base2k: Base2K(13), k: TorusPrecision(k_ggsw + 13 + kextra), dnum: Dnum(krows), rank },
            atk_layout: GLWEAutomorphismKeyLayout { n: Degree(n as u32), base2k: Base2K(11), k: TorusPrecision(k_ggsw + 12 + kextra), dnum: Dnum(krows), rank, dsize: Dsize(1) },
            tsk_layout: GGLWEToGGSWKeyLayout { n: Degree(n as u32), base2k: Base2K(12), k: TorusPrecision(k_ggsw + 11 + kextra), dnum: Dnum(krows), dsize: Dsize(1), rank },
        };
        let ggsw_infos = GGSWLayout { n: Degree(n as u32), base2k: Base2K(res_base2k), k: TorusPrecision(k_ggsw), dnum: Dnum(rows), dsize: Dsize(1), rank };
        let lwe_infos = LWELayout { n: Degree(77), k: TorusPrecision(22), base2k: Base2K(14) };
        let module: Module<BE> = Module::<BE>::new(n as u64);
        let mut scratch: ScratchOwned<BE> = ScratchOwned::alloc(1 << 24);
        let mut xs = Source::new(seed32(key_seed, 1));
        let mut xa = Source::new(seed32(key_seed, 2));
        let mut xe = Source::new(seed32(key_seed, 3));
        let mut sk_lwe: LWESecret<Vec<u8>> = LWESecret::alloc(Degree(77));
        sk_lwe.fill_binary_block(7, &mut xs);
        let mut sk: GLWESecret<Vec<u8>> = GLWESecret::alloc(Degree(n as u32), rank);
        sk.fill_ternary_prob(0.5, &mut xs);
        let kd = jo! {"backend" => BE_NAME, "op" => "cbt_keygen", "params" => pname, "key_seed" => key_seed, "rank" => rank.0};
        let cbt = guarded(|| {
            let mut key: CircuitBootstrappingKey<Vec<u8>, CGGI> = CircuitBootstrappingKey::alloc_from_infos(&cbt_infos);
            let enc = CircuitBootstrappingEncryptionInfos::from_default_sigma(&cbt_infos).unwrap();
            key.encrypt_sk(&module, &sk_lwe, &sk, &enc, &mut xe, &mut xa, scratch.borrow());
            let mut prep: CircuitBootstrappingKeyPrepared<DeviceBuf<BE>, CGGI, BE> = CircuitBootstrappingKeyPrepared::alloc_from_infos(&module, &cbt_infos);
            prep.prepare(&module, &key, scratch.borrow());
            prep
        });
        let cbt = match cbt {
            Ok(c) => c,
            Err(p) => {
                rep.violate("cbt_keygen", kd, format!("panic: {p}"));
                continue;
            }
        };
        let cases = cfg.budget(16 * 16, 16 * 160) as usize;
        for _ in 0..cases {
            // an LWE *bit* (log_domain = 1) and two-bit digits (log_domain = 2); larger domains leave less than the
            // worst-case modulus-switching error (6/512 for an 11-sparse secret) of margin and are not in the statement
            let log_domain = rng.usize_in(1, 2);
            let data = rng.below(1 << log_domain) as i64;
            let exponent = rng.coin();
            let log_gap_in = 8 - log_domain; // log2(N / 2^log_domain)
            let log_gap_out = if exponent { rng.usize_in(0, log_gap_in) } else { 0 };
            let op = if exponent { "cbt_to_exponent" } else { "cbt_to_constant" };
            // exponent mode takes two routes: repacking (log_gap_out < log_gap_in) or a bare partial trace (equal gaps)
            let route = if !exponent { "constant" } else if log_gap_out == log_gap_in { "exponent_trace_only" } else { "exponent_repack" };
            let d = jo! {"backend" => BE_NAME, "op" => op, "params" => pname, "key_seed" => key_seed, "rank" => rank.0, "log_domain" => log_domain, "data" => data, "log_gap_out" => log_gap_out,
            "log_gap_in" => log_gap_in, "route" => route};
            rep.case(op, &format!("{BE_NAME}|{pname}|{}|{log_domain}|{data}|{log_gap_out}", rank.0), true);
            rep.sample_for_op(&format!("{BE_NAME}:{op}"), || d.clone());
            let mut pt: LWEPlaintext<Vec<u8>> = LWEPlaintext::alloc(Base2K(14), TorusPrecision(log_domain as u32 + 1));
            pt.encode_i64(data, TorusPrecision(log_domain as u32 + 1));
            let mut lwe: LWE<Vec<u8>> = LWE::alloc_from_infos(&lwe_infos);
            let enc = EncryptionLayout::new_from_default_sigma(lwe_infos).unwrap();
            module.lwe_encrypt_sk(&mut lwe, &pt, &sk_lwe, &enc, &mut xe, &mut xa, scratch.borrow());
            let mut g: GGSW<Vec<u8>> = GGSW::alloc_from_infos(&ggsw_infos);
            // exact window of the companion query, asked the way the operation's own assertion asks it (infos of the prepared key and
            // of the result object: they report k = size * base2k, which can exceed the k of the layouts they were allocated from)
            let bytes = poulpy_bin_fhe::circuit_bootstrapping::CircuitBootstrappingExecute::<CGGI, BE>::circuit_bootstrapping_execute_tmp_bytes(&module, poulpy_bin_fhe::circuit_bootstrapping::CircuitBootstrappingKeyInfos::block_size(&cbt), 1, &g, &cbt);
            let mut sw = exact_window(bytes, rng);
            let r = guarded(|| {
                if exponent {
                    cbt.execute_to_exponent(&module, log_gap_out, &mut g, &lwe, log_domain, 1, sw.scratch());
                } else {
                    cbt.execute_to_constant(&module, &mut g, &lwe, log_domain, 1, sw.scratch());
                }
            });
            rep.count("exact_scratch_calls", 1);
            if let Err(p) = r {
                if !note_scratch(rep, op, &d, bytes, &p) {
                    rep.violate(op, d, format!("panic: {p}"));
                }
                continue;
            }
            let mut m = vec![0i64; n];
            if exponent {
                m[(data as usize) << log_gap_out] = 1; // X^{data * 2^log_gap_out}
            } else {
                m[0] = data;
            }
            match ggsw_cells_check(&g, &m, &sk, tol) {
                Ok(worst) => {
                    rep.maxf(&format!("cbt_standalone_{pname}_err_over_tol"), worst);
                    rep.count("cbt_cells_checked", (rows * (rank.0 + 1)) as i128);
                }
                Err((row, col, i, got, wnt, ratio)) => {
                    rep.violate(op, d, format!("cell (row {row}, col {col}) coefficient {i}: decodes to {got}, expected {wnt} (error {ratio:.3} x 2^{tol})"))
                }
            }
        }
    }
}

// ---------------------------------------------------------------------------------------------
// E. partial preparation: ALL (start, end) pairs
// ---------------------------------------------------------------------------------------------
fn sec_partial<T: Word>(ctx: &mut Ctx, cfg: &Cfg, rep: &mut Report, rng: &mut Rng, sc: f64) {
    let bits = T::BITS as usize;
    let dict = boundary_words(T::BITS);
    let full = (1u64 << bits) - 1;
    let mut idx = 0u64;
    // a word with enough ones and zeros everywhere that a misplaced window shows
    for start in 0..=bits {
        for end in start..=bits {
            idx += 1;
            // the whole grid in every run on the full-share backend (sharded); a seed-rotating subset on the slower ones
            if !grid_take(idx, cfg, sc) {
                continue;
            }
            let a = if rng.coin() { rng.next_u64() & full } else { pick_word(rng, &dict, T::BITS) };
            let ca: Packed<T> = ctx.enc_packed(T::from_u64(a));
            let want = a & mask_bits(start, end, bits);
            for api in ["module_start_count", "wrapper_start_end", "wrapper_start_end_mt"] {
                if api == "wrapper_start_end_mt" && rng.below(3) != 0 {
                    continue;
                }
                let threads = if api == "wrapper_start_end_mt" { rng.usize_in(2, 5) } else { 1 };
                let op = "prepare_custom";
                // pre-fill the destination with the complement so that an unwritten bit shows
                let mut p: Prepared<T> = ctx.enc_prepared(T::from_u64(!a & full));
                let tb = ctx.prepare_thread_bytes::<T>();
                // generous: every window of the split is re-aligned to 64 bytes (exact sizes are C12 / C20 matter)
                let mut sw = garbage_scratch((tb + 64) * threads + 64, rng);
                let r = guarded_mt(|| match api {
                    "module_start_count" => FheUintPrepare::<CGGI, BE>::fhe_uint_prepare_custom(&ctx.module, &mut p, &ca, start, end - start, &ctx.key, sw.scratch()),
                    "wrapper_start_end" => p.prepare_custom(&ctx.module, &ca, start, end, &ctx.key, sw.scratch()),
                    _ => p.prepare_custom_multi_thread(threads, &ctx.module, &ca, start, end, &ctx.key, sw.scratch()),
                });
                rep.case(op, &format!("{BE_NAME}|{}|{api}|{start}|{end}|{a:x}", T::NAME), end > start);
                let got = match &r {
                    Ok(()) => guarded(|| ctx.dec_prepared(&p).to_u64()).ok(),
                    Err(_) => None,
                };
                // what the call would give if `bit_end` were used as a count (finding F9)
                let as_count = if start + end <= bits { Some(a & mask_bits(start, start + end, bits)) } else { None };
                let ok = got == Some(want);
                if ok {
                    continue;
                }
                let empty_panic = end == start && matches!(&r, Err(p) if p.contains("chunk size must be non-zero"));
                let class = if empty_panic {
                    "empty_range_panics"
                } else if api != "module_start_count" && start > 0 && ((r.is_err() && as_count.is_none()) || (got.is_some() && got == as_count)) {
                    "bit_end_forwarded_as_count"
                } else {
                    "other"
                };
                let d = jo! {"backend" => BE_NAME, "pset" => ctx.pset, "key_seed" => ctx.key_seed, "op" => op, "width" => T::NAME, "api" => api, "a" => hexw(a), "bit_start" => start, "bit_end" => end,
                "threads" => threads, "class" => class};
                let detail = match (&r, got) {
                    (Err(p), _) => format!("panic: {p}"),
                    (_, Some(g)) => format!("prepared word decrypts to 0x{g:x}; bits [{start},{end}) of a are 0x{want:x}"),
                    _ => "decryption of the prepared word panicked".to_string(),
                };
                rep.violate(op, d, detail);
            }
        }
    }
    if sc >= 1.0 {
        rep.count(&format!("partial_grid_complete_{}", T::NAME), 1);
    }
}

// ---------------------------------------------------------------------------------------------
// F. short random programs chained through re-preparation
// ---------------------------------------------------------------------------------------------
fn sec_programs(ctx: &mut Ctx, cfg: &Cfg, rep: &mut Report, rng: &mut Rng, max_len: usize) {
    let dict = boundary_words(32);
    let progs = cfg.budget(16 * 5, 16 * 40) as usize;
    for pi in 0..progs {
        let len = rng.usize_in(2, max_len);
        let init: Vec<u32> = (0..3).map(|_| pick_word(rng, &dict, 32) as u32).collect();
        let mut plain = init.clone();
        let steps: Vec<(&'static str, usize, usize, usize)> = (0..len)
            .map(|_| {
                let op: &'static str = if rng.below(12) == 0 { "identity" } else { *rng.pick(OPS2) };
                (op, rng.usize_in(0, 2), rng.usize_in(0, 2), rng.usize_in(0, 2))
            })
            .collect();
        let prog_str = steps.iter().map(|(o, d, x, y)| format!("r{d}={o}(r{x},r{y})")).collect::<Vec<_>>().join(";");
        let base = jo! {"backend" => BE_NAME, "pset" => ctx.pset, "key_seed" => ctx.key_seed, "op" => "program", "init" => init.iter().map(|x| hexw(*x as u64)).collect::<Vec<_>>(), "program" => prog_str.clone()};
        let r = guarded(|| {
            // registers enter through the statement's path: packed encryption + bootstrapping
            let mut regs: Vec<Prepared<u32>> = Vec::new();
            for v in &init {
                let c = ctx.enc_packed(*v);
                let mut p: Prepared<u32> = ctx.alloc_prepared();
                p.prepare(&ctx.module, &c, &ctx.key, ctx.scratch.borrow());
                regs.push(p);
            }
            let mut trace: Vec<(usize, u32, u32)> = Vec::new();
            for (si, (op, dst, x, y)) in steps.iter().enumerate() {
                let mut res: Packed<u32> = ctx.alloc_packed();
                {
                    let (ra, rb) = (&regs[*x], &regs[*y]);
                    let m = &ctx.module;
                    let k = &ctx.key;
                    let s = ctx.scratch.borrow();
                    match *op {
                        "add" => res.add(m, ra, rb, k, s),
                        "sub" => res.sub(m, ra, rb, k, s),
                        "sll" => res.sll(m, ra, rb, k, s),
                        "srl" => res.srl(m, ra, rb, k, s),
                        "sra" => res.sra(m, ra, rb, k, s),
                        "slt" => res.slt(m, ra, rb, k, s),
                        "sltu" => res.sltu(m, ra, rb, k, s),
                        "and" => res.and(m, ra, rb, k, s),
                        "or" => res.or(m, ra, rb, k, s),
                        "xor" => res.xor(m, ra, rb, k, s),
                        _ => res.identity(m, ra, k, s),
                    }
                }
                let want = plain_op(op, plain[*x], plain[*y]);
                plain[*dst] = want;
                let got = ctx.dec_packed(&res);
                trace.push((si, got, want));
                if got != want {
                    return trace; // stop at the first wrong step
                }
                // re-preparation of the result (noise is refreshed by the bootstrap, or not)
                let mut p: Prepared<u32> = ctx.alloc_prepared();
                p.prepare(&ctx.module, &res, &ctx.key, ctx.scratch.borrow());
                regs[*dst] = p;
            }
            trace
        });
        rep.case("program", &format!("{BE_NAME}|{pi}|{prog_str}|{:?}", init), true);
        rep.sample_for_op(&format!("{BE_NAME}:program"), || base.clone());
        match r {
            Err(p) => rep.violate("program", base, format!("panic: {p}")),
            Ok(trace) => {
                rep.count("program_steps", trace.len() as i128);
                if let Some((si, got, want)) = trace.iter().find(|(_, g, w)| g != w) {
                    let mut d = base;
                    d.put("step", *si);
                    rep.violate("program", d, format!("step {si}: decrypts to 0x{got:08x}, plain evaluation gives 0x{want:08x}"));
                }
            }
        }
    }
}
