// C06 — fresh ciphertexts carry the configured randomness: full noise, uniform mask, seed separation.
//
// (A) statistics over EXACTLY extracted errors (phase - plaintext with the clear secrets) pooled per (backend, object kind):
//     variance band, mean, zero fraction, lag-1 correlation, max <= hard bound; and over the raw mask digits: range,
//     64 high-bit buckets, 64 low-bit buckets, balance of every bit, lag-1 / lag-N correlation.
// (B) metamorphic, oracle-free checks: same inputs => identical limbs; changing only the plaintext / the secret / the error
//     seed never changes a mask; changing only the mask seed never changes the extracted errors; changing the error seed
//     changes every body; cells of one object never share a mask, a mask column or an error vector.
//
// False-alarm budget. Every elementary statistical test uses a rigorous tail bound (Bernstein, Hoeffding, Azuma, Freedman)
// at level 2*exp(-X), X = 42: 2e^-42 = 2^-59.6. A run has at most 16 shards * 4 backends * 24 pools * 240 elementary tests
// = 3.7e5 = 2^18.5 tests, total < 2^-41. The Pearson chi-square over the 64 buckets uses the Laurent–Massart threshold at
// twice that exponent (x = 84: 63 + 2 sqrt(63 x) + 2 x = 376.5) to absorb the multinomial-vs-chi-square approximation.
// The model only applies where the centred error cannot wrap: layouts have k >= 10 (bound * 2^-k <= 0.02).

const X: f64 = 42.0;
const CHI2_MAX: f64 = 376.5;

fn erf_small(x: f64) -> f64 {
    // Maclaurin series, |x| <= 0.5 (16 terms: error < 1e-17)
    let mut term = x;
    let mut sum = x;
    for n in 1..24 {
        term *= -x * x / n as f64;
        sum += term / (2 * n + 1) as f64;
    }
    sum * 2.0 / std::f64::consts::PI.sqrt()
}

/// solve t^2 = 2 X (v + m t / 3) for t  (Bernstein / Freedman deviation at level exp(-X))
fn bernstein_t(v: f64, m: f64) -> f64 {
    let a = 2.0 * X * m / 3.0;
    (a + (a * a + 8.0 * X * v).sqrt()) / 2.0
}

#[derive(Default, Clone)]
struct ErrPool {
    n: f64,
    sum: f64,
    sumsq: f64,
    mu2: f64, // sum of expected second moments
    zeros: f64,
    p0: f64,  // sum of P(e = 0)
    p0v: f64, // sum of p0 (1 - p0)
    lag: f64,
    lag_n: f64,
    worst_ratio: f64,
    objects: u64,
}

#[derive(Clone)]
struct MaskPool {
    digits: f64,
    hi: [f64; 64],
    lo: [f64; 64],
    nbuck: f64,
    ones_lsb: [f64; 64],
    cnt_lsb: [f64; 64],
    ones_msb: [f64; 64],
    cnt_msb: [f64; 64],
    lag1: f64,
    lag1_n: f64,
    lagn: f64,
    lagn_n: f64,
}

impl Default for MaskPool {
    fn default() -> Self {
        MaskPool { digits: 0.0, hi: [0.0; 64], lo: [0.0; 64], nbuck: 0.0, ones_lsb: [0.0; 64], cnt_lsb: [0.0; 64], ones_msb: [0.0; 64], cnt_msb: [0.0; 64], lag1: 0.0, lag1_n: 0.0, lagn: 0.0, lagn_n: 0.0 }
    }
}

impl ErrPool {
    /// errors `e` in units of the noise limb, sampled with log2(scale) = ls
    fn add(&mut self, e: &[i64], ls: usize, noise: &NoiseP) {
        // errors are normalised by the CONFIGURED sigma, so that layouts with different sigma share a pool: y ~ N(0, 1)
        let sc = (ls as f64).exp2() * noise.sigma;
        let mu2 = (1.0 - 7.3e-8) + 1.0 / (12.0 * sc * sc);
        let p0 = erf_small(0.5 / (sc * std::f64::consts::SQRT_2));
        let mut prev: Option<f64> = None;
        for &x in e {
            let y = x as f64 / sc;
            self.n += 1.0;
            self.sum += y;
            self.sumsq += y * y;
            self.mu2 += mu2;
            if x == 0 {
                self.zeros += 1.0;
            }
            self.p0 += p0;
            self.p0v += p0 * (1.0 - p0);
            if let Some(p) = prev {
                self.lag += p * y;
                self.lag_n += 1.0;
            }
            prev = Some(y);
            let r = y.abs() * noise.sigma / noise.bound;
            if r > self.worst_ratio {
                self.worst_ratio = r;
            }
        }
        self.objects += 1;
    }
}

impl MaskPool {
    fn add(&mut self, d: &[i64], b: usize, n: usize) {
        let half = 1i64 << (b - 1);
        let scale = 1.0 / half as f64;
        let z = |x: i64| (x as f64 + 0.5) * scale; // in (-1, 1), mean 0
        for (i, &x) in d.iter().enumerate() {
            let u = (x + half) as u64;
            self.digits += 1.0;
            if b >= 6 {
                self.hi[(u >> (b - 6)) as usize & 63] += 1.0;
                self.lo[(u & 63) as usize] += 1.0;
                self.nbuck += 1.0;
            }
            for t in 0..b {
                let bit = ((u >> t) & 1) as f64;
                self.ones_lsb[t] += bit;
                self.cnt_lsb[t] += 1.0;
                let tm = b - 1 - t;
                self.ones_msb[tm] += bit;
                self.cnt_msb[tm] += 1.0;
            }
            if i + 1 < d.len() {
                self.lag1 += z(x) * z(d[i + 1]);
                self.lag1_n += 1.0;
            }
            if i + n < d.len() {
                self.lagn += z(x) * z(d[i + n]);
                self.lagn_n += 1.0;
            }
        }
    }
}

struct Pools {
    err: BTreeMap<String, ErrPool>,
    mask: BTreeMap<String, MaskPool>,
}

fn stat_violation(rep: &mut Report, cfg: &Cfg, pool: &str, test: &str, n: f64, stat: f64, lo: f64, hi: f64, extra: &str) {
    let d = jo! {"backend" => BE_NAME, "kind" => pool, "test" => test, "samples" => n, "stat" => stat, "lo" => lo, "hi" => hi,
    "seed" => cfg.seed, "shard" => cfg.shard, "nshards" => cfg.nshards, "thorough" => cfg.thorough};
    rep.violate(&format!("stat:{test}"), d, format!("{pool}: {test} = {stat:.6} outside [{lo:.6}, {hi:.6}] over {n} samples {extra}"));
}

fn judge_err(rep: &mut Report, cfg: &Cfg, pool: &str, p: &ErrPool, min_n: f64) {
    if p.n < min_n {
        // a kind whose objects already violate the hard bound is reported there; only an unexplained shortfall is inconclusive
        if rep.counters.get(&format!("excluded_from_pool:{BE_NAME}:{pool}")).copied().unwrap_or(0) == 0 {
            rep.inconclusive.push(format!("{BE_NAME}/{pool}: only {} error samples (< {min_n})", p.n));
        }
        return;
    }
    rep.count("stat_err_pools", 1);
    rep.count("stat_err_samples", p.n as i128);
    let n = p.n;
    // normalised samples: variance 1 + 1/(12 sigma^2 scale^2) <= 1 + 1/12, |y| <= 6 + 0.5/sigma <= 6.5 (sigma >= 1)
    let s_eff2 = 1.0 + 1.0 / 12.0;
    let m1 = 6.5;
    let m2 = m1 * m1;
    rep.case("stat_errors", &format!("{BE_NAME}|{pool}|{}|{}", cfg.seed, cfg.shard), true);
    // variance: |sum y^2 - sum mu2| <= t
    let tv = bernstein_t(3.0 * s_eff2 * s_eff2 * n, m2);
    let sig_hat = (p.sumsq / n).sqrt();
    let sig_exp = (p.mu2 / n).sqrt();
    rep.maxf("sigma_hat_over_expected_max", sig_hat / sig_exp);
    rep.maxf("sigma_hat_over_expected_min_neg", -(sig_hat / sig_exp));
    rep.maxf("variance_dev_over_band", (p.sumsq - p.mu2).abs() / tv);
    let var_ok = (p.sumsq - p.mu2).abs() <= tv;
    if !var_ok {
        let lo = ((p.mu2 - tv).max(0.0) / n).sqrt();
        let hi = ((p.mu2 + tv) / n).sqrt();
        stat_violation(rep, cfg, pool, "sigma_hat", n, sig_hat, lo, hi, &format!("(ratio to the configured sigma; expected {sig_exp:.4})"));
    }
    // mean
    let tm = bernstein_t(s_eff2 * n, m1);
    rep.maxf("mean_dev_over_band", p.sum.abs() / tm);
    if p.sum.abs() > tm {
        stat_violation(rep, cfg, pool, "mean", n, p.sum / n, -tm / n, tm / n, "");
    }
    // zero fraction
    let tz = bernstein_t(p.p0v, 1.0);
    rep.maxf("zero_count_dev_over_band", (p.zeros - p.p0).abs() / tz);
    if (p.zeros - p.p0).abs() > tz {
        stat_violation(rep, cfg, pool, "zero_fraction", n, p.zeros / n, (p.p0 - tz) / n, (p.p0 + tz) / n, "");
    }
    // lag-1 correlation (Freedman, conditional variance bounded through the variance band)
    if var_ok && p.lag_n > 0.0 {
        let w = s_eff2 * (p.mu2 + tv);
        let tl = bernstein_t(w, m2);
        rep.maxf("err_lag1_over_band", p.lag.abs() / tl);
        if p.lag.abs() > tl {
            stat_violation(rep, cfg, pool, "error_lag1", p.lag_n, p.lag / p.lag_n, -tl / p.lag_n, tl / p.lag_n, "");
        }
    }
    rep.maxf("max_err_over_bound", p.worst_ratio);
}

fn judge_mask(rep: &mut Report, cfg: &Cfg, pool: &str, p: &MaskPool, min_n: f64) {
    let healthy = rep.counters.get(&format!("excluded_from_pool:{BE_NAME}:{pool}")).copied().unwrap_or(0) == 0;
    if p.digits < min_n {
        // rank-0 / single objects have no mask: nothing to test
        return;
    }
    rep.count("stat_mask_pools", 1);
    rep.count("stat_mask_digits", p.digits as i128);
    rep.case("stat_masks", &format!("{BE_NAME}|{pool}|{}|{}", cfg.seed, cfg.shard), true);
    if p.nbuck >= 64.0 * 64.0 {
        let e = p.nbuck / 64.0;
        let tb = bernstein_t(e * 63.0 / 64.0, 1.0);
        for (name, h) in [("mask_hi_bucket", &p.hi), ("mask_lo_bucket", &p.lo)] {
            let mut chi = 0.0;
            for (i, c) in h.iter().enumerate() {
                chi += (c - e) * (c - e) / e;
                if (c - e).abs() > tb {
                    stat_violation(rep, cfg, pool, name, p.nbuck, *c, e - tb, e + tb, &format!("(bucket {i})"));
                    break;
                }
            }
            if chi <= CHI2_MAX && healthy {
                rep.maxf(&format!("{name}_chi2_63dof"), chi);
            }
            if chi > CHI2_MAX {
                stat_violation(rep, cfg, pool, &format!("{name}_chi2"), p.nbuck, chi, 0.0, CHI2_MAX, "(63 degrees of freedom)");
            }
        }
    }
    for (name, ones, cnt) in [("mask_bit_from_lsb", &p.ones_lsb, &p.cnt_lsb), ("mask_bit_from_msb", &p.ones_msb, &p.cnt_msb)] {
        for t in 0..64 {
            if cnt[t] < 1024.0 {
                continue;
            }
            let th = (cnt[t] * X / 2.0).sqrt();
            let dev = (ones[t] - cnt[t] / 2.0).abs();
            if dev <= th && healthy {
                rep.maxf("mask_bit_dev_over_band", dev / th);
            }
            if dev > th {
                stat_violation(rep, cfg, pool, name, cnt[t], ones[t] / cnt[t], 0.5 - th / cnt[t], 0.5 + th / cnt[t], &format!("(bit {t})"));
                break;
            }
        }
    }
    for (name, s, m) in [("mask_lag1", p.lag1, p.lag1_n), ("mask_lagN", p.lagn, p.lagn_n)] {
        if m < 1024.0 {
            continue;
        }
        let th = (2.0 * m * X).sqrt();
        if s.abs() <= th && healthy {
            rep.maxf("mask_lag_over_band", s.abs() / th);
        }
        if s.abs() > th {
            stat_violation(rep, cfg, pool, name, m, s / m, -th / m, th / m, "");
        }
    }
}

fn hard_checks(rep: &mut Report, kind: Kind, l: &Lay, obj: &Obj, inp: &Inputs) -> bool {
    let mut ok = true;
    for c in &obj.cells {
        if c.tag.0 == usize::MAX {
            continue;
        }
        let noise = obj.noise[c.sec.min(obj.noise.len() - 1)];
        let hard = noise.hard_int(c.ct.b);
        let e = obj.errors(c);
        if let Some(i) = e.iter().position(|x| (*x as i128).abs() > hard) {
            let mut d = l.desc(kind);
            d.put("check", "error_exceeds_bound");
            d.put("cell", format!("{:?}", c.tag));
            d.put("inputs", format!("{:?}", inp));
            rep.violate("fresh_error_bound", d, format!("cell {:?} coefficient {i}: |error| = {} units of the noise limb > hard bound {hard}", c.tag, e[i]));
            ok = false;
            break;
        }
    }
    for c in &obj.cells {
        if c.tag.0 != usize::MAX && matches!(kind, Kind::Glwe | Kind::GlweC | Kind::Lwe) {
            continue; // plaintext already subtracted from the body: digits are not the library's
        }
        if let Some((col, limb, i, x)) = c.ct.digit_out_of_range() {
            let mut d = l.desc(kind);
            d.put("check", "digit_out_of_range");
            d.put("cell", format!("{:?}", c.tag));
            d.put("inputs", format!("{:?}", inp));
            rep.violate("digit_range", d, format!("cell {:?} column {col} limb {limb} coefficient {i}: digit {x} outside [-2^(b-1), 2^(b-1))", c.tag));
            ok = false;
            break;
        }
    }
    ok
}

fn pool_object(pools: &mut Pools, kind_name: &str, l: &Lay, obj: &Obj) {
    let ep = pools.err.entry(kind_name.to_string()).or_default();
    let mp = pools.mask.entry(kind_name.to_string()).or_default();
    for c in &obj.cells {
        if c.tag.0 == usize::MAX {
            continue;
        }
        let noise = obj.noise[c.sec.min(obj.noise.len() - 1)];
        let (_, ls) = noise.limb_scale(c.ct.b);
        let e = obj.errors(c);
        ep.add(&e, ls, &noise);
        let m = obj.mask(c);
        if !m.is_empty() {
            mp.add(&m, c.ct.b, if obj.lwe { l.n_lwe } else { c.ct.n });
        }
    }
}

// ---------------------------------------------------------------------------------------------
// public-key ENCRYPTION: c_i = u * pk_i + e_i (+ m): the per-column errors are extracted exactly by replaying u from its seed
// ---------------------------------------------------------------------------------------------
fn pk_enc_object(module: &Module<BE>, l: &Lay, inp: &Inputs, rep: &mut Report) -> Result<(Vec<Vec<i64>>, Ct, usize), String> {
    let n = l.n;
    let mut srng = Rng::new(inp.sk, 0x5ec7);
    // the all-zero secret distribution is excluded here: known defect (u left uninitialised), reported by C01
    let dist = SDist::pick(l.dist % 5, n, &mut srng);
    let key = gen_glwe_key(module, n, l.rank, dist, seed_from(inp.sk, 1));
    let layout = l.glwe_layout();
    let enc = l.noise().infos();
    let mut pk: GLWEPublicKey<Vec<u8>> = GLWEPublicKey::alloc_from_infos(&layout);
    guarded(|| module.glwe_public_key_generate(&mut pk, &key.prep, &enc, &mut Source::new(seed_from(inp.xe, 77)), &mut Source::new(inp.seed_xa())))?;
    let mut pkp: GLWEPublicKeyPrepared<DeviceBuf<BE>, BE> = module.glwe_public_key_prepared_alloc_from_infos(&layout);
    guarded(|| module.glwe_public_key_prepare(&mut pkp, &pk))?;
    let mut pt: GLWEPlaintext<Vec<u8>> = GLWEPlaintext::alloc_from_infos(&layout);
    fill_message(&mut pt.data, l.b, Msg::Uniform, &mut Rng::new(inp.pt, 3));
    let mut ct: GLWE<Vec<u8>> = GLWE::alloc_from_infos(&layout);
    let su = seed_from(inp.xa, 0x0);
    let need = module.glwe_encrypt_pk_tmp_bytes(&layout);
    let desc = l.desc(Kind::Pk);
    exact_scratch(rep, "build", "glwe_encrypt_pk", need, &desc, |sc| module.glwe_encrypt_pk(&mut ct, &pt, &pkp, &enc, &mut Source::new(su), &mut Source::new(inp.seed_xe()), sc))?;
    // replay u with the public sampler of the key's distribution
    let mut u = ScalarZnx::alloc(n, 1);
    let mut xu = Source::new(su);
    match dist {
        SDist::TernaryProb(p) => u.fill_ternary_prob(0, p, &mut xu),
        SDist::TernaryFixed(h) => u.fill_ternary_hw(0, h, &mut xu),
        SDist::BinaryProb(p) => u.fill_binary_prob(0, p, &mut xu),
        SDist::BinaryFixed(h) => u.fill_binary_hw(0, h, &mut xu),
        SDist::BinaryBlock(b) => u.fill_binary_block(0, b, &mut xu),
        SDist::Zero => {}
    }
    let uv = vec![u.at(0, 0).to_vec()];
    let c = glwe_ct(&ct);
    let pkc = glwe_ct(&pk);
    let mut errs = Vec::new();
    for col in 0..c.cols {
        // two-column matrix [ct_col - pt (col 0) ; -pk_col] with "secret" u: phase = e_col
        let mut d = Vec::with_capacity(2 * n * c.size);
        for j in 0..c.size {
            let mut body = c.poly(col, j).to_vec();
            if col == 0 {
                for i in 0..n {
                    body[i] -= pt.data.at(0, j)[i];
                }
            }
            d.extend(body);
            d.extend(pkc.poly(col, j).iter().map(|x| -x));
        }
        let two = Ct { n, cols: 2, size: c.size, b: c.b, d };
        errs.push(cell_errors(&two, &uv, None));
    }
    Ok((errs, c, (l.size * l.b) - l.k))
}

// ---------------------------------------------------------------------------------------------
// metamorphic seed separation
// ---------------------------------------------------------------------------------------------
fn has_free_plaintext(kind: Kind) -> bool {
    matches!(kind, Kind::Glwe | Kind::GlweC | Kind::Lwe | Kind::Gglwe | Kind::GglweC | Kind::Ggsw | Kind::GgswC | Kind::Ksk | Kind::KskC | Kind::Glwe2Lwe)
}

fn meta_case(module: &Module<BE>, kind: Kind, l: &Lay, inp: &Inputs, rep: &mut Report) {
    let key = format!("{}|{:?}", l.key(kind), inp.xa);
    let mk = |i: &Inputs, rep: &mut Report| build(module, kind, l, i, rep, "meta");
    let base = match mk(inp, rep) {
        Ok(o) => o,
        Err(e) => {
            let mut d = l.desc(kind);
            d.put("inputs", format!("{:?}", inp));
            rep.violate("encrypt_panic", d, format!("panic: {e}"));
            return;
        }
    };
    if !hard_checks(rep, kind, l, &base, inp) {
        return;
    }
    let mut viol = |rep: &mut Report, check: &str, detail: String| {
        let mut d = l.desc(kind);
        d.put("check", check);
        d.put("inputs", format!("{:?}", inp));
        rep.violate(&format!("meta:{check}"), d, detail);
    };
    let n_eff = if base.lwe { 1 } else { l.n };
    let cells: Vec<&Cell> = base.cells.iter().collect();
    let mask_bits = |c: &Cell| base.mask(c).len() * c.ct.b;
    // --- same inputs => identical limbs
    for variant in ["same", "pt", "sk", "xe", "xa"] {
        let mut i2 = *inp;
        match variant {
            "pt" => i2.pt ^= 0x1234_5678_9abc_def1,
            "sk" => i2.sk ^= 0x0fed_cba9_8765_4321,
            "xe" => i2.xe ^= 0x5555_aaaa_5555_aaab,
            "xa" => i2.xa ^= 0x3333_cccc_3333_cccd,
            _ => {}
        }
        if variant == "sk" && matches!(kind, Kind::Brk | Kind::BrkC | Kind::Cbt | Kind::LweKsk | Kind::Glwe2Lwe | Kind::Lwe2Glwe | Kind::Lwe) {
            // LWE-side secrets with parameter-dependent distributions: keep (dimension-compatible by construction)
        }
        let other = match mk(&i2, rep) {
            Ok(o) => o,
            Err(e) => {
                viol(rep, &format!("panic_{variant}"), format!("panic after changing only `{variant}`: {e}"));
                continue;
            }
        };
        rep.case(&format!("meta_{variant}"), &key, true);
        if other.cells.len() != base.cells.len() {
            viol(rep, "cell_count", format!("cell count changed with `{variant}`"));
            continue;
        }
        let pt_unused = variant == "pt" && !has_free_plaintext(kind);
        for (a, b) in cells.iter().zip(other.cells.iter()) {
            let raw = a.tag.0 == usize::MAX;
            match variant {
                "same" => {
                    if a.ct != b.ct {
                        viol(rep, "not_deterministic", format!("cell {:?}: two runs with identical inputs and seeds differ", a.tag));
                        break;
                    }
                }
                _ if pt_unused => {
                    if a.ct != b.ct {
                        viol(rep, "not_deterministic", format!("cell {:?}: object without a free plaintext changed", a.tag));
                        break;
                    }
                }
                "pt" | "sk" => {
                    if base.mask(a) != other.mask(b) {
                        viol(rep, &format!("mask_depends_on_{variant}"), format!("cell {:?}: mask changed although only `{variant}` changed", a.tag));
                        break;
                    }
                    if !raw && base.errors(a) != other.errors(b) {
                        viol(rep, &format!("error_depends_on_{variant}"), format!("cell {:?}: extracted error changed although only `{variant}` changed", a.tag));
                        break;
                    }
                }
                "xe" => {
                    if base.mask(a) != other.mask(b) {
                        viol(rep, "mask_depends_on_error_seed", format!("cell {:?}: mask changed although only the error seed changed", a.tag));
                        break;
                    }
                    // error vectors of >= 32 coefficients coincide with probability < 2^-112
                    if !raw && n_eff >= 32 && base.errors(a) == other.errors(b) {
                        viol(rep, "error_ignores_error_seed", format!("cell {:?}: error unchanged although the error seed changed", a.tag));
                        break;
                    }
                    if raw && n_eff >= 32 && base.body(a) == other.body(b) {
                        viol(rep, "body_ignores_error_seed", format!("cell {:?}: body unchanged although the error seed changed", a.tag));
                        break;
                    }
                }
                "xa" => {
                    if !raw && base.errors(a) != other.errors(b) {
                        viol(rep, "error_depends_on_mask_seed", format!("cell {:?}: extracted error changed although only the mask seed changed", a.tag));
                        break;
                    }
                    if mask_bits(a) >= 128 && base.mask(a) == other.mask(b) {
                        viol(rep, "mask_ignores_mask_seed", format!("cell {:?}: mask unchanged although the mask seed changed", a.tag));
                        break;
                    }
                }
                _ => {}
            }
        }
    }
    // --- cells of one object never share a mask, a mask column, or an error vector
    // (64-bit hashes only pre-select candidates: a verdict needs the vectors themselves to be equal)
    let mut seen_mask: HashMap<u64, ((usize, usize, usize), Vec<i64>)> = HashMap::new();
    let mut seen_err: HashMap<u64, ((usize, usize, usize), Vec<i64>)> = HashMap::new();
    let mut seen_col: HashMap<u64, ((usize, usize, usize), usize, Vec<i64>)> = HashMap::new();
    let hash_of = |m: &[i64]| fnv_bytes(unsafe { std::slice::from_raw_parts(m.as_ptr() as *const u8, m.len() * 8) });
    rep.case("meta_distinct_cells", &key, base.cells.len() > 1);
    'cells: for c in &base.cells {
        if c.tag.0 == usize::MAX {
            continue;
        }
        if mask_bits(c) >= 128 {
            let m = base.mask(c);
            let h = hash_of(&m);
            if let Some((prev, pm)) = seen_mask.get(&h) {
                if *pm == m {
                    viol(rep, "cells_share_mask", format!("cells {:?} and {:?} carry the same mask", prev, c.tag));
                    break 'cells;
                }
            }
            seen_mask.insert(h, (c.tag, m));
        }
        if !base.lwe && c.ct.n * c.ct.size * c.ct.b >= 128 {
            for col in 1..c.ct.cols {
                let m = c.ct.col_digits(col);
                let h = hash_of(&m);
                if let Some((ptag, pcol, pm)) = seen_col.get(&h) {
                    if *pm == m {
                        viol(rep, "mask_columns_equal", format!("mask column {col} of cell {:?} equals column {pcol} of cell {:?}", c.tag, ptag));
                        break 'cells;
                    }
                }
                seen_col.insert(h, (c.tag, col, m));
            }
        }
        if n_eff >= 32 {
            let e = base.errors(c);
            let h = hash_of(&e);
            if let Some((prev, pe)) = seen_err.get(&h) {
                if *pe == e {
                    viol(rep, "cells_share_error", format!("cells {:?} and {:?} carry the same error vector", prev, c.tag));
                    break 'cells;
                }
            }
            seen_err.insert(h, (c.tag, e));
        }
    }
    rep.count("meta_objects", 1);
}

pub fn run(cfg: &Cfg, rep: &mut Report) {
    let mut rng = cfg.rng(&format!("c06-{BE_NAME}"));
    let only: Option<Kind> = cfg.extra.get("kind").and_then(|k| Kind::from_name(k));
    // ---------------- (A) statistics
    let target: f64 = if cfg.thorough { 4_194_304.0 } else { 65_536.0 } * cfg.scale;
    let mut pools = Pools { err: BTreeMap::new(), mask: BTreeMap::new() };
    for kind in ALL_KINDS {
        if only.is_some() && only != Some(kind) {
            continue;
        }
        let name = kind.name();
        let mut guard = 0u64;
        let mut broken = false;
        while pools.err.get(name).map(|p| p.n).unwrap_or(0.0) < target && guard < 200_000 {
            guard += 1;
            let big = rng.below(16) == 0;
            let mut l = Lay::random(kind, &mut rng, big);
            // one layout in eight uses a tight admissible truncation bound (bound >= sigma): a sampler that lets a tail through
            // is invisible at 6 sigma (probability ~ 2^-29 per coefficient) and certain at 1..2 sigma
            if rng.below(8) == 0 {
                l.bf = *rng.pick(&[1.0, 1.25, 2.0]);
            }
            let inp = Inputs::from(rng.next_u64());
            let module = cached_module(l.n);
            rep.case(&format!("fresh_{name}"), &format!("{}|bf{}", l.key(kind), l.bf), true);
            rep.sample_for_op(&format!("{BE_NAME}:{name}"), || l.desc(kind));
            match build(module, kind, &l, &inp, rep, "stat") {
                Ok(obj) => {
                    if !hard_checks(rep, kind, &l, &obj, &inp) {
                        // an object that breaks the hard bound is reported once and kept out of the pooled statistics
                        rep.count(&format!("excluded_from_pool:{BE_NAME}:{name}"), 1);
                        broken = true;
                        if rep.counters.get(&format!("excluded_from_pool:{BE_NAME}:{name}")).copied().unwrap_or(0) > 20 {
                            break;
                        }
                        continue;
                    }
                    if l.bf != 6.0 {
                        // the pooled moments are stated for the 6 sigma truncation; tight bounds only take the hard check above
                        rep.count("tight_bound_objects", 1);
                        continue;
                    }
                    pool_object(&mut pools, name, &l, &obj);
                }
                Err(e) => {
                    let mut d = l.desc(kind);
                    d.put("inputs", format!("{:?}", inp));
                    rep.violate("encrypt_panic", d, format!("panic: {e}"));
                    broken = true;
                    if guard > 50 {
                        break;
                    }
                }
            }
        }
        let _ = broken;
    }
    // public-key encryption (per-column errors after replaying u)
    if only.is_none() || cfg.extra.get("kind").map(|s| s == "glwe_pk_enc").unwrap_or(false) {
        let name = "glwe_pk_enc";
        let mut guard = 0;
        while pools.err.get(name).map(|p| p.n).unwrap_or(0.0) < target && guard < 100_000 {
            guard += 1;
            let big = rng.below(16) == 0;
            let l = Lay::random(Kind::Pk, &mut rng, big);
            let inp = Inputs::from(rng.next_u64());
            let module = cached_module(l.n);
            rep.case("fresh_glwe_pk_enc", &l.key(Kind::Pk), true);
            match pk_enc_object(module, &l, &inp, rep) {
                Ok((errs, _c, ls)) => {
                    let noise = l.noise();
                    let hard = noise.hard_int(l.b);
                    let mut bad = false;
                    for (col, e) in errs.iter().enumerate() {
                        if let Some(i) = e.iter().position(|x| (*x as i128).abs() > hard) {
                            let mut d = l.desc(Kind::Pk);
                            d.put("kind", name);
                            d.put("check", "error_exceeds_bound");
                            d.put("inputs", format!("{:?}", inp));
                            rep.violate("fresh_error_bound", d, format!("column {col} coefficient {i}: |c_i - u*pk_i - m| = {} > hard bound {hard}", e[i]));
                            bad = true;
                            break;
                        }
                    }
                    if bad {
                        if guard > 50 {
                            break;
                        }
                        continue;
                    }
                    let ep = pools.err.entry(name.to_string()).or_default();
                    for e in &errs {
                        ep.add(e, ls, &noise);
                    }
                }
                Err(e) => {
                    let mut d = l.desc(Kind::Pk);
                    d.put("kind", name);
                    d.put("inputs", format!("{:?}", inp));
                    rep.violate("encrypt_panic", d, format!("panic: {e}"));
                    if guard > 50 {
                        break;
                    }
                }
            }
        }
    }
    let min_n = target * 0.99;
    for (name, p) in pools.err.iter() {
        judge_err(rep, cfg, name, p, min_n);
        rep.extra.push((format!("sigma_hat:{BE_NAME}:{name}"), J::F((p.sumsq / p.n.max(1.0)).sqrt())));
        rep.extra.push((format!("zero_fraction:{BE_NAME}:{name}"), J::F(p.zeros / p.n.max(1.0))));
    }
    for (name, p) in pools.mask.iter() {
        judge_mask(rep, cfg, name, p, 4096.0);
    }

    // ---------------- (B) metamorphic seed separation
    let per_kind = cfg.budget(16 * 3 * 23 * 4, 16 * 40 * 23 * 4) / (23 * 4);
    for kind in ALL_KINDS {
        if only.is_some() && only != Some(kind) {
            continue;
        }
        for _ in 0..per_kind.max(1) {
            let l = Lay::random(kind, &mut rng, false);
            let inp = Inputs::from(rng.next_u64());
            meta_case(cached_module(l.n), kind, &l, &inp, rep);
        }
    }
}
