// C13 — compiled BDD circuits compute their 32-bit word functions.
//
// Plain module (not backend-generic): the compiled node tables are pure data, read through hook H1
// (`poulpy_bin_fhe::bdd_arithmetic::verif_u32_circuits`, cargo feature `verif-hooks`).
//
// Two oracles, both observing the *real* tables:
//  1. structural walk with a definedness shadow per buffer slot that re-states `eval_level`
//     (poulpy-bin-fhe/src/bdd_arithmetic/eval.rs): 2*W zeroed buffers, buffer[1] = 1, ping-pong between
//     [0,W) and [W,2W), `None` leaves the *next* buffer slot untouched (content of two levels earlier),
//     `Copy` copies slot j, the last chunk is only looked at through its node 0, which must be a Cmux.
//     Control flow of `eval_level` is input-independent, so one walk sees every read it can ever perform.
//  2. functional: the same semantics over 256-lane bit-slices, compared lane by lane with the plain Rust
//     word operation; exhaustive over (table support ∪ mathematical support) when small enough, otherwise
//     boundary dictionary x random garbage, per-edge constructed inputs (path confirmed by a scalar trace)
//     and structured random batches.
use poulpy_bin_fhe::bdd_arithmetic::{GetBitCircuitInfo, Node, verif_u32_circuits};
use std::collections::{HashMap, VecDeque};
use util::{Cfg, J, Report, Rng, guarded};

const K: usize = 4; // u64 words per slice
const LANES: usize = 64 * K;
const PV: usize = 8; // log2(LANES): number of "pattern" variables enumerated inside one pass
type Slice = [u64; K];

#[derive(Clone, Copy, PartialEq, Eq, Debug)]
enum Op {
    Add,
    Sub,
    Sll,
    Srl,
    Sra,
    Slt,
    Sltu,
    And,
    Or,
    Xor,
    Identity,
}

impl Op {
    fn from_name(s: &str) -> Option<Op> {
        Some(match s {
            "add" => Op::Add,
            "sub" => Op::Sub,
            "sll" => Op::Sll,
            "srl" => Op::Srl,
            "sra" => Op::Sra,
            "slt" => Op::Slt,
            "sltu" => Op::Sltu,
            "and" => Op::And,
            "or" => Op::Or,
            "xor" => Op::Xor,
            "identity" => Op::Identity,
            _ => return None,
        })
    }
    /// the word operation (RISC-V RV32I semantics: shifts use the low five bits of b, slt/sltu give 0/1)
    #[inline(always)]
    fn apply(self, a: u32, b: u32) -> u32 {
        match self {
            Op::Add => a.wrapping_add(b),
            Op::Sub => a.wrapping_sub(b),
            Op::Sll => a << (b & 31),
            Op::Srl => a >> (b & 31),
            Op::Sra => ((a as i32) >> (b & 31)) as u32,
            Op::Slt => ((a as i32) < (b as i32)) as u32,
            Op::Sltu => (a < b) as u32,
            Op::And => a & b,
            Op::Or => a | b,
            Op::Xor => a ^ b,
            Op::Identity => a,
        }
    }
    /// number of 32-bit input words the evaluator is handed for this circuit
    fn words(self) -> usize {
        if self == Op::Identity { 1 } else { 2 }
    }
    /// variables (bit v<32: a[v]; 32+v: b[v]) output bit `i` of the word operation mathematically depends on
    fn spec_support(self, i: usize) -> u64 {
        let lowmask = |n: usize| -> u64 { if n >= 32 { 0xffff_ffff } else { (1u64 << n) - 1 } };
        let a_le = lowmask(i + 1);
        let a_ge = 0xffff_ffffu64 & !lowmask(i);
        match self {
            Op::Add | Op::Sub => a_le | (a_le << 32),
            Op::Sll => a_le | (0x1f << 32),
            Op::Srl | Op::Sra => a_ge | (0x1f << 32),
            Op::Slt | Op::Sltu => {
                if i == 0 {
                    u64::MAX
                } else {
                    0
                }
            }
            Op::And | Op::Or | Op::Xor => (1u64 << i) | (1u64 << (32 + i)),
            Op::Identity => 1u64 << i,
        }
    }
}

/// call `$body` with `$f` bound to a monomorphic closure for the operation (keeps the `match` out of hot loops)
macro_rules! with_op {
    ($op:expr, $f:ident, $body:expr) => {
        match $op {
            Op::Add => { let $f = |a: u32, b: u32| Op::Add.apply(a, b); $body }
            Op::Sub => { let $f = |a: u32, b: u32| Op::Sub.apply(a, b); $body }
            Op::Sll => { let $f = |a: u32, b: u32| Op::Sll.apply(a, b); $body }
            Op::Srl => { let $f = |a: u32, b: u32| Op::Srl.apply(a, b); $body }
            Op::Sra => { let $f = |a: u32, b: u32| Op::Sra.apply(a, b); $body }
            Op::Slt => { let $f = |a: u32, b: u32| Op::Slt.apply(a, b); $body }
            Op::Sltu => { let $f = |a: u32, b: u32| Op::Sltu.apply(a, b); $body }
            Op::And => { let $f = |a: u32, b: u32| Op::And.apply(a, b); $body }
            Op::Or => { let $f = |a: u32, b: u32| Op::Or.apply(a, b); $body }
            Op::Xor => { let $f = |a: u32, b: u32| Op::Xor.apply(a, b); $body }
            Op::Identity => { let $f = |a: u32, b: u32| Op::Identity.apply(a, b); $body }
        }
    };
}

struct Tab {
    name: &'static str,
    op: Op,
    bit: usize,
    nodes: &'static [Node],
    w: usize,
    input_size: usize,
}

impl Tab {
    fn levels(&self) -> usize {
        self.nodes.len() / self.w
    }
    fn node(&self, lvl: usize, slot: usize) -> &Node {
        &self.nodes[lvl * self.w + slot]
    }
    fn desc(&self) -> J {
        jo! {"circuit" => self.name, "bit" => self.bit, "state_width" => self.w, "nodes" => self.nodes.len(), "input_size" => self.input_size}
    }
}

// ---------------------------------------------------------------------------------------------
// 1. structural walk
// ---------------------------------------------------------------------------------------------
#[derive(Clone, Copy, PartialEq, Eq, Debug)]
enum Def {
    /// initial state slot (buffer A: [0, 1, 0, ...]); `true` for the two meaningful constants
    Init(bool),
    /// zero-initialised slot of the second buffer, never written
    ZeroB,
    Written(usize),
}

#[derive(Default, Clone)]
struct Walk {
    evaluable: bool,
    levels: usize,
    cmux: usize,
    copy: usize,
    none: usize,
    reads: usize,
    reads_init_pad: usize,
    support_all: u64,
    support_live: u64,
    live_nodes: usize,
    dead_nodes: usize,
    violations: usize,
}

fn structural(t: &Tab, rep: &mut Report) -> Walk {
    let mut wk = Walk::default();
    let w = t.w;
    let bad = |rep: &mut Report, wk: &mut Walk, kind: &str, extra: J, detail: String| {
        wk.violations += 1;
        let mut d = t.desc();
        d.put("kind", kind);
        if let J::O(o) = extra {
            for (k, v) in o {
                d.put(&k, v);
            }
        }
        rep.violate("structural", d, detail);
    };
    if w == 0 {
        // evaluator writes a zero output and never looks at the nodes
        wk.evaluable = false;
        return wk;
    }
    if t.nodes.is_empty() {
        bad(rep, &mut wk, "empty_table", jo! {}, "state width > 0 but no nodes: eval_level underflows in split_at".into());
        return wk;
    }
    if t.nodes.len() % w != 0 {
        bad(
            rep,
            &mut wk,
            "length_not_multiple_of_width",
            jo! {},
            format!("nodes.len()={} is not a multiple of max_inter_state={w}: eval_level asserts", t.nodes.len()),
        );
        return wk;
    }
    if w < 2 {
        bad(rep, &mut wk, "width_below_initial_state", jo! {}, "state width 1 cannot hold the initial state [0, 1]".into());
    }
    let nl = t.levels();
    wk.levels = nl;
    let mut def: Vec<Def> = (0..2 * w).map(|i| if i < w { Def::Init(i < 2) } else { Def::ZeroB }).collect();
    if w == 1 {
        def[1] = Def::Init(true);
    }
    let (mut prev, mut next) = (0usize, w);
    let mut indices_ok = true;
    let check_read = |rep: &mut Report, wk: &mut Walk, def: &[Def], prev: usize, lvl: usize, slot: usize, src: usize, what: &str| {
        wk.reads += 1;
        let fresh = match def[prev + src] {
            Def::Init(meaning) => {
                if lvl == 0 {
                    if !meaning {
                        wk.reads_init_pad += 1;
                    }
                    true
                } else {
                    false
                }
            }
            Def::ZeroB => false,
            Def::Written(l) => l + 1 == lvl,
        };
        if !fresh {
            let state = match def[prev + src] {
                Def::Init(_) => "initial state, not rewritten by the previous level".to_string(),
                Def::ZeroB => "never written (zero-initialised second buffer)".to_string(),
                Def::Written(l) => format!("last written at level {l}"),
            };
            bad(
                rep,
                wk,
                "stale_read",
                jo! {"level" => lvl, "slot" => slot, "reads_slot" => src, "edge" => what},
                format!("level {lvl} node {slot} ({what}) reads slot {src} which the previous level left undefined: {state}"),
            );
        }
    };
    for lvl in 0..nl {
        let last = lvl + 1 == nl;
        for slot in 0..w {
            let node = t.node(lvl, slot);
            if last && slot > 0 {
                if !matches!(node, Node::None) {
                    bad(
                        rep,
                        &mut wk,
                        "last_chunk_shape",
                        jo! {"slot" => slot},
                        format!("last chunk must be [Cmux, None, ...]; slot {slot} holds {node:?} which the evaluator silently ignores"),
                    );
                }
                continue;
            }
            match node {
                Node::Cmux(s, hi, lo) => {
                    wk.cmux += 1;
                    if *s < 64 {
                        wk.support_all |= 1u64 << *s;
                    }
                    if *s >= t.input_size || *s >= 32 * t.op.words() {
                        indices_ok = false;
                        bad(
                            rep,
                            &mut wk,
                            "selector_out_of_range",
                            jo! {"level" => lvl, "slot" => slot, "selector" => *s},
                            format!("selector {s} >= input_size {} (or beyond the {} input words)", t.input_size, t.op.words()),
                        );
                    }
                    for (what, src) in [("hi", *hi), ("lo", *lo)] {
                        if src >= w {
                            indices_ok = false;
                            bad(
                                rep,
                                &mut wk,
                                "node_index_out_of_range",
                                jo! {"level" => lvl, "slot" => slot, "index" => src, "edge" => what},
                                format!("{what} index {src} >= state width {w}"),
                            );
                        } else {
                            check_read(rep, &mut wk, &def, prev, lvl, slot, src, what);
                        }
                    }
                    if !last {
                        def[next + slot] = Def::Written(lvl);
                    }
                }
                Node::Copy => {
                    if last {
                        indices_ok = false;
                        bad(rep, &mut wk, "last_node_not_cmux", jo! {}, "last chunk starts with Copy: eval_level panics".into());
                    } else {
                        wk.copy += 1;
                        check_read(rep, &mut wk, &def, prev, lvl, slot, slot, "copy");
                        def[next + slot] = Def::Written(lvl);
                    }
                }
                Node::None => {
                    if last {
                        indices_ok = false;
                        bad(rep, &mut wk, "last_node_not_cmux", jo! {}, "last chunk starts with None: eval_level panics".into());
                    } else {
                        wk.none += 1;
                    }
                }
            }
        }
        std::mem::swap(&mut prev, &mut next);
    }
    wk.evaluable = indices_ok;
    if !indices_ok {
        return wk;
    }
    // liveness (backwards from the root): which nodes can influence the output, and through which variables
    let mut live: Vec<Vec<bool>> = vec![vec![false; w]; nl];
    live[nl - 1][0] = true;
    for lvl in (0..nl).rev() {
        for slot in 0..w {
            if !live[lvl][slot] {
                continue;
            }
            match t.node(lvl, slot) {
                Node::Cmux(s, hi, lo) => {
                    wk.support_live |= 1u64 << *s;
                    wk.live_nodes += 1;
                    if lvl > 0 {
                        live[lvl - 1][*hi] = true;
                        live[lvl - 1][*lo] = true;
                    }
                }
                Node::Copy => {
                    wk.live_nodes += 1;
                    if lvl > 0 {
                        live[lvl - 1][slot] = true;
                    }
                }
                Node::None => {
                    if lvl > 1 {
                        live[lvl - 2][slot] = true;
                    }
                }
            }
        }
    }
    for lvl in 0..nl.saturating_sub(1) {
        for slot in 0..w {
            if !live[lvl][slot] && !matches!(t.node(lvl, slot), Node::None) {
                wk.dead_nodes += 1;
            }
        }
    }
    wk
}

// ---------------------------------------------------------------------------------------------
// 2. evaluator semantics over bit-slices, and a scalar trace
// ---------------------------------------------------------------------------------------------
/// The node table flattened into straight-line instructions with the ping-pong buffer offsets resolved
/// (exactly what `eval_level` does, minus the enum dispatch). `None` nodes emit nothing: the slot keeps
/// whatever the buffer held, as in the library. Cross-checked against the scalar `trace` (which walks the
/// original `Node`s) on every lane of the edge phase.
#[derive(Clone, Copy)]
struct Ins {
    dst: u8,
    sel: u8, // 255: copy of `a`
    a: u8,
    b: u8,
}
const BUFN: usize = 128;

struct Prog {
    ins: Vec<Ins>,
    root: Ins,
}

fn compile(t: &Tab) -> Option<Prog> {
    let w = t.w;
    if 2 * w > BUFN {
        return None;
    }
    let nl = t.levels();
    let (mut prev, mut next) = (0usize, w);
    let mut ins = Vec::new();
    for lvl in 0..nl - 1 {
        for slot in 0..w {
            match t.node(lvl, slot) {
                Node::Cmux(s, hi, lo) => ins.push(Ins { dst: (next + slot) as u8, sel: *s as u8, a: (prev + *hi) as u8, b: (prev + *lo) as u8 }),
                Node::Copy => ins.push(Ins { dst: (next + slot) as u8, sel: 255, a: (prev + slot) as u8, b: 0 }),
                Node::None => {}
            }
        }
        std::mem::swap(&mut prev, &mut next);
    }
    let root = match t.node(nl - 1, 0) {
        Node::Cmux(s, hi, lo) => Ins { dst: 0, sel: *s as u8, a: (prev + *hi) as u8, b: (prev + *lo) as u8 },
        _ => return None,
    };
    Some(Prog { ins, root })
}

#[inline(always)]
fn mux(sel: &Slice, h: &Slice, l: &Slice) -> Slice {
    let mut o = [0u64; K];
    for k in 0..K {
        o[k] = (sel[k] & h[k]) | (!sel[k] & l[k]);
    }
    o
}

#[inline(always)]
fn eval_slices(p: &Prog, w: usize, inp: &[Slice; 64], buf: &mut [Slice; BUFN]) -> Slice {
    for b in buf.iter_mut().take(2 * w) {
        *b = [0u64; K];
    }
    buf[1] = [u64::MAX; K];
    for i in &p.ins {
        let v = if i.sel == 255 {
            buf[i.a as usize & (BUFN - 1)]
        } else {
            mux(&inp[i.sel as usize & 63], &buf[i.a as usize & (BUFN - 1)], &buf[i.b as usize & (BUFN - 1)])
        };
        buf[i.dst as usize & (BUFN - 1)] = v;
    }
    let r = &p.root;
    mux(&inp[r.sel as usize & 63], &buf[r.a as usize & (BUFN - 1)], &buf[r.b as usize & (BUFN - 1)])
}

/// Follow the single root-to-terminal path the input `x` selects. Returns (value, used (lvl,slot,edge)?).
fn trace(t: &Tab, x: u64, want: Option<(usize, usize, u8)>) -> (u8, bool) {
    let w = t.w as isize;
    let mut lvl = t.levels() as isize - 1;
    let mut slot = 0usize;
    let mut hit = false;
    loop {
        if lvl < 0 {
            // lvl -1: initial state (buffer A); lvl -2: zero-initialised buffer B (whose index 1 aliases the constant when W == 1)
            let v = if lvl == -1 { (slot == 1) as u8 } else { (w == 1 && slot == 0) as u8 };
            return (v, hit);
        }
        match t.node(lvl as usize, slot) {
            Node::Cmux(s, hi, lo) => {
                let e = ((x >> *s) & 1) as u8;
                if want == Some((lvl as usize, slot, e)) {
                    hit = true;
                }
                slot = if e == 1 { *hi } else { *lo };
                lvl -= 1;
            }
            Node::Copy => lvl -= 1,
            Node::None => lvl -= 2,
        }
    }
}

fn transpose64_naive(x: &[u64; 64]) -> [u64; 64] {
    let mut t = [0u64; 64];
    for (l, xl) in x.iter().enumerate() {
        for (v, tv) in t.iter_mut().enumerate() {
            *tv |= ((xl >> v) & 1) << l;
        }
    }
    t
}

/// in-place 64x64 bit-matrix transpose (recursive block swap); t[v] bit l = x[l] bit v
fn transpose64(a: &mut [u64; 64]) {
    let mut j = 32usize;
    let mut m: u64 = 0x0000_0000_ffff_ffff;
    while j != 0 {
        let mut k = 0usize;
        while k < 64 {
            let t = ((a[k] >> j) ^ a[k + j]) & m;
            a[k] ^= t << j;
            a[k + j] ^= t;
            k = (k + j + 1) & !j;
        }
        j >>= 1;
        m ^= m << j;
    }
}

/// lanes (one u64 = a | b << 32 per lane) -> 64 variable slices
fn to_slices(x: &[u64; LANES], out: &mut [Slice; 64]) {
    for k in 0..K {
        let mut blk = [0u64; 64];
        blk.copy_from_slice(&x[64 * k..64 * (k + 1)]);
        transpose64(&mut blk);
        for v in 0..64 {
            out[v][k] = blk[v];
        }
    }
}

fn pattern_slice(t: usize) -> Slice {
    const P: [u64; 6] =
        [0xaaaa_aaaa_aaaa_aaaa, 0xcccc_cccc_cccc_cccc, 0xf0f0_f0f0_f0f0_f0f0, 0xff00_ff00_ff00_ff00, 0xffff_0000_ffff_0000, 0xffff_ffff_0000_0000];
    let mut s = [0u64; K];
    for (k, sk) in s.iter_mut().enumerate() {
        *sk = if t < 6 { P[t] } else if (k >> (t - 6)) & 1 == 1 { u64::MAX } else { 0 };
    }
    s
}

struct Mismatch {
    a: u32,
    b: u32,
    got: u8,
    want: u8,
}

#[inline(always)]
fn compare_lanes<F: Fn(u32, u32) -> u32>(f: &F, bit: usize, got: &Slice, xs: impl Fn(usize) -> u64) -> Option<Mismatch> {
    let mut r = [0u32; LANES];
    for (l, rl) in r.iter_mut().enumerate() {
        let x = xs(l);
        *rl = f(x as u32, (x >> 32) as u32);
    }
    let mut exp = [0u64; K];
    for (k, e) in exp.iter_mut().enumerate() {
        let mut wd = 0u64;
        for i in 0..64 {
            wd |= (((r[64 * k + i] >> bit) & 1) as u64) << i;
        }
        *e = wd;
    }
    for k in 0..K {
        let d = exp[k] ^ got[k];
        if d != 0 {
            let l = 64 * k + d.trailing_zeros() as usize;
            let x = xs(l);
            return Some(Mismatch { a: x as u32, b: (x >> 32) as u32, got: ((got[k] >> (l & 63)) & 1) as u8, want: ((exp[k] >> (l & 63)) & 1) as u8 });
        }
    }
    None
}

fn report_mismatch(t: &Tab, phase: &str, m: &Mismatch, rep: &mut Report, seen: &mut HashMap<(String, usize), usize>) {
    let c = seen.entry((t.name.to_string(), t.bit)).or_insert(0);
    *c += 1;
    rep.count("functional_mismatches", 1);
    rep.count(&format!("functional_mismatches_in_phase:{phase}"), 1);
    if *c > 3 {
        return;
    }
    let mut d = t.desc();
    d.put("kind", "functional");
    d.put("phase", phase);
    d.put("a", m.a);
    d.put("b", m.b);
    d.put("got_bit", m.got);
    d.put("want_bit", m.want);
    d.put("want_word", t.op.apply(m.a, m.b));
    rep.violate(
        "functional",
        d,
        format!(
            "{} bit {}: table evaluates to {} but bit {} of {}({:#010x}, {:#010x}) = {:#010x} is {}",
            t.name,
            t.bit,
            m.got,
            t.bit,
            t.name,
            m.a,
            m.b,
            t.op.apply(m.a, m.b),
            m.want
        ),
    );
}

// ---------------------------------------------------------------------------------------------
// input generators
// ---------------------------------------------------------------------------------------------
fn word_class(rng: &mut Rng) -> u32 {
    match rng.below(8) {
        0 => (rng.next_u64() & rng.next_u64() & rng.next_u64()) as u32,    // sparse
        1 => (rng.next_u64() | rng.next_u64() | rng.next_u64()) as u32,    // dense
        2 => {
            // run of ones
            let s = rng.below(32) as u32;
            let l = 1 + rng.below(32 - s as u64) as u32;
            (if l >= 32 { u32::MAX } else { (1u32 << l) - 1 }) << s
        }
        3 => *rng.pick(&[0u32, 1, 0x7fff_ffff, 0x8000_0000, 0x8000_0001, 0xffff_ffff, 0xffff_fffe, 2]),
        _ => rng.next_u64() as u32,
    }
}

/// one structured random pair (long carry chains, equal prefixes, sign boundaries, all shift amounts are likely)
fn structured_pair(rng: &mut Rng) -> (u32, u32) {
    let a = word_class(rng);
    match rng.below(10) {
        0 => (a, a),
        1 => (a, !a),                                                           // a + b = all ones: carry-in ripples through 32 bits
        2 => (a, (!a).wrapping_add(rng.below(3) as u32)),                      // a + b = 2^32 - 1 + {0,1,2}
        3 => {
            // equal above bit i, differ at bit i, random below
            let i = rng.below(32) as u32;
            let low = if i == 0 { 0 } else { (rng.next_u64() as u32) & ((1u32 << i) - 1) };
            let keep = if i == 31 { 0 } else { a & !((1u32 << (i + 1)) - 1) };
            let b = keep | (!a & (1 << i)) | low;
            (a, b)
        }
        4 => (a, a.wrapping_add((rng.below(5) as u32).wrapping_sub(2))),       // a, a-2..a+2
        5 => (a, rng.below(64) as u32),                                        // shift amounts 0..63
        6 => (a, (rng.next_u64() as u32 & !31) | rng.below(32) as u32),        // shift amount with garbage upper bits
        7 => (a, a ^ (1u32 << rng.below(32))),
        _ => (a, word_class(rng)),
    }
}

fn dictionary(rng: &mut Rng) -> Vec<(u32, u32)> {
    let mut d: Vec<(u32, u32)> = Vec::new();
    let sp: [u32; 20] = [
        0, 1, 2, 3, 0x7fff_ffff, 0x8000_0000, 0x8000_0001, 0xffff_ffff, 0xffff_fffe, 0x5555_5555, 0xaaaa_aaaa, 0x0000_ffff, 0xffff_0000, 31, 32, 33, 63, 64,
        0x7fff_fffe, 0xc000_0000,
    ];
    for &a in &sp {
        for &b in &sp {
            d.push((a, b));
        }
    }
    for i in 0..32 {
        for j in 0..32 {
            d.push((1 << i, 1 << j));
            d.push((!(1u32 << i), 1 << j));
            d.push((1 << i, !(1u32 << j)));
            d.push((!(1u32 << i), !(1u32 << j)));
        }
    }
    let ones = |l: u32| -> u32 { if l >= 32 { u32::MAX } else { (1u32 << l) - 1 } };
    // carry / borrow chains of every start and length, bare and embedded in garbage that does not disturb the chain
    for s in 0..32u32 {
        for l in 1..=(32 - s) {
            let chain = ones(l) << s;
            let one = 1u32 << s;
            let top = s + l; // first bit above the chain
            for variant in 0..4 {
                let (ga, gb) = if variant == 0 {
                    (0u32, 0u32)
                } else {
                    let hi = if top >= 32 { 0 } else { !ones(top) };
                    let lo = ones(s);
                    let r = rng.next_u64() as u32;
                    let q = rng.next_u64() as u32;
                    // low garbage never generates a carry into bit s (disjoint supports); high garbage is free
                    (((r & hi) | (r & lo & q)), ((q >> 3) & hi) | (!r & lo & q))
                };
                d.push((chain | ga, one | gb)); // add: carry from s ripples to `top`
                d.push((one | gb, chain | ga));
                d.push((if top >= 32 { 0 } else { 1u32 << top } | (ga & !chain & !one), one | (gb & !chain))); // sub: borrow ripples from s to top
                d.push((ga & !ones(top.min(32)), one | gb)); // sub with borrow out of the top
            }
        }
    }
    // every shift amount 0..63, clean and with garbage above bit 5
    for s in 0..64u32 {
        let g = (rng.next_u64() as u32) << 6;
        for &a in &[1u32, 0x8000_0000, 0xffff_ffff, 0x7fff_ffff, 0x4000_0000, 0xc000_0001, 1 << (s % 32), !(1u32 << (s % 32))] {
            d.push((a, s));
            d.push((a, s | g));
        }
        for _ in 0..4 {
            let a = rng.next_u64() as u32;
            d.push((a, s));
            d.push((a | 0x8000_0000, s | g));
            d.push((a & 0x7fff_ffff, s | g));
        }
    }
    // equal operands and neighbours; equal prefixes
    for _ in 0..64 {
        let r = word_class(rng);
        d.push((r, r));
        d.push((r, r.wrapping_add(1)));
        d.push((r.wrapping_add(1), r));
        d.push((r, !r));
        d.push((r, r.wrapping_neg()));
    }
    for i in 0..32u32 {
        for _ in 0..16 {
            let a = rng.next_u64() as u32;
            let low = if i == 0 { 0 } else { (rng.next_u64() as u32) & ((1u32 << i) - 1) };
            let keep = if i == 31 { 0 } else { a & !((1u32 << (i + 1)) - 1) };
            let b = keep | (!a & (1 << i)) | low;
            d.push((a, b));
            d.push((b, a));
        }
    }
    d
}

// ---------------------------------------------------------------------------------------------
// per-edge inputs
// ---------------------------------------------------------------------------------------------
struct Edge {
    lvl: usize,
    slot: usize,
    e: u8,
    mask: u64,
    val: u64,
}

/// breadth-first search from the root: the first partial assignment reaching every node, hence one for every edge
fn edges_of(t: &Tab) -> (Vec<Edge>, usize, usize) {
    let nl = t.levels();
    let mut seen: HashMap<(isize, usize), (u64, u64)> = HashMap::new();
    let mut q: VecDeque<(isize, usize)> = VecDeque::new();
    seen.insert((nl as isize - 1, 0), (0, 0));
    q.push_back((nl as isize - 1, 0));
    let mut edges = Vec::new();
    let mut infeasible = 0usize;
    while let Some((lvl, slot)) = q.pop_front() {
        if lvl < 0 {
            continue;
        }
        let (mask, val) = seen[&(lvl, slot)];
        match t.node(lvl as usize, slot) {
            Node::Cmux(s, hi, lo) => {
                for (e, child) in [(1u8, *hi), (0u8, *lo)] {
                    let bit = 1u64 << *s;
                    if mask & bit != 0 && ((val >> *s) & 1) as u8 != e {
                        infeasible += 1;
                        continue;
                    }
                    let (m2, v2) = (mask | bit, if e == 1 { val | bit } else { val & !bit });
                    edges.push(Edge { lvl: lvl as usize, slot, e, mask: m2, val: v2 });
                    let key = (lvl - 1, child);
                    if let std::collections::hash_map::Entry::Vacant(en) = seen.entry(key) {
                        en.insert((m2, v2));
                        q.push_back(key);
                    }
                }
            }
            Node::Copy => {
                let key = (lvl - 1, slot);
                if let std::collections::hash_map::Entry::Vacant(en) = seen.entry(key) {
                    en.insert((mask, val));
                    q.push_back(key);
                }
            }
            Node::None => {
                let key = (lvl - 2, slot);
                if let std::collections::hash_map::Entry::Vacant(en) = seen.entry(key) {
                    en.insert((mask, val));
                    q.push_back(key);
                }
            }
        }
    }
    // total number of Cmux edges in the table (root chunk contributes only its node 0)
    let mut total = 0usize;
    for lvl in 0..nl {
        for slot in 0..t.w {
            if lvl + 1 == nl && slot > 0 {
                continue;
            }
            if matches!(t.node(lvl, slot), Node::Cmux(..)) {
                total += 2;
            }
        }
    }
    (edges, total, infeasible)
}

// ---------------------------------------------------------------------------------------------
// run
// ---------------------------------------------------------------------------------------------
pub fn run(cfg: &Cfg, rep: &mut Report) {
    let mut rng = cfg.rng("c13");
    let circuits = match guarded(verif_u32_circuits) {
        Ok(c) => c,
        Err(p) => {
            rep.inconclusive.push(format!("verif_u32_circuits panicked: {p}"));
            return;
        }
    };
    // transpose self-test (harness integrity, not a verdict)
    {
        let mut x = [0u64; 64];
        for v in x.iter_mut() {
            *v = rng.next_u64();
        }
        let want = transpose64_naive(&x);
        let mut got = x;
        transpose64(&mut got);
        if got != want {
            rep.inconclusive.push("harness self-test: transpose64 disagrees with the naive transpose".into());
            return;
        }
    }
    let exh_limit: usize = cfg.extra.get("exh-limit").and_then(|s| s.parse().ok()).unwrap_or(if cfg.thorough { 40 } else { 31 });
    let expected_names = ["add", "sub", "sll", "srl", "sra", "slt", "sltu", "and", "or", "xor", "identity"];
    for n in expected_names {
        if !circuits.iter().any(|(name, _)| *name == n) {
            rep.inconclusive.push(format!("hook does not expose circuit {n}"));
        }
    }

    // ---- collect tables, circuit-level shape checks
    let mut tabs: Vec<Tab> = Vec::new();
    for (ci, (name, c)) in circuits.iter().enumerate() {
        let name: &'static str = name;
        let c: &'static dyn GetBitCircuitInfo = *c;
        let Some(op) = Op::from_name(name) else {
            rep.notes.push(format!("circuit {name} has no word-level specification in the harness; skipped"));
            continue;
        };
        let (isz, osz) = (c.input_size(), c.output_size());
        let need_out = if matches!(op, Op::Slt | Op::Sltu) { 1 } else { 32 };
        if ci as u64 % cfg.nshards == cfg.shard {
            rep.case("circuit_shape", name, true);
            if isz > 32 * op.words() || osz > 32 || osz < need_out {
                rep.violate(
                    "structural",
                    jo! {"circuit" => name, "kind" => "circuit_shape", "input_size" => isz, "output_size" => osz},
                    format!("{name}: input_size {isz} (max {}) / output_size {osz} (need {need_out}..=32)", 32 * op.words()),
                );
            }
            let declared = c.max_state_size();
            let real = (0..osz).map(|i| c.get_circuit(i).1).max().unwrap_or(0);
            if declared < real {
                rep.violate(
                    "structural",
                    jo! {"circuit" => name, "kind" => "max_state_size", "declared" => declared, "needed" => real},
                    format!("{name}: max_state_size() = {declared} does not cover the widest bit circuit ({real}); scratch is sized from it"),
                );
            }
            if osz < 32 {
                rep.count("implicit_zero_output_bits", (32 - osz) as i128);
            }
        }
        for bit in 0..osz.min(32) {
            let (nodes, w) = c.get_circuit(bit);
            tabs.push(Tab { name, op, bit, nodes, w, input_size: isz });
        }
    }

    // ---- structural walk (every shard walks every table: milliseconds; only the owning shard reports)
    let mut walks: Vec<Walk> = Vec::with_capacity(tabs.len());
    let mut bits_info: Vec<J> = Vec::new();
    let mut mism_seen: HashMap<(String, usize), usize> = HashMap::new();
    for (ti, t) in tabs.iter().enumerate() {
        let owner = ti as u64 % cfg.nshards == cfg.shard;
        let mut scratch_rep = Report::new("scratch");
        let wk = structural(t, if owner { rep } else { &mut scratch_rep });
        if owner {
            rep.case("structural", &format!("{}:{}", t.name, t.bit), true);
            rep.count("struct_tables_walked", 1);
            rep.count("struct_nodes", t.nodes.len() as i128);
            rep.count("struct_cmux", wk.cmux as i128);
            rep.count("struct_copy", wk.copy as i128);
            rep.count("struct_none", wk.none as i128);
            rep.count("struct_levels", wk.levels as i128);
            rep.count("struct_reads_checked", wk.reads as i128);
            rep.count("struct_reads_of_initial_padding", wk.reads_init_pad as i128);
            rep.count("struct_dead_nodes", wk.dead_nodes as i128);
            rep.maxf("state_width_max", t.w as f64);
            if t.w == 0 {
                rep.count("zero_width_tables", 1);
                // constant-zero output: the word operation must have a constant-zero bit here
                if t.op.spec_support(t.bit) != 0 {
                    rep.violate(
                        "functional",
                        {
                            let mut d = t.desc();
                            d.put("kind", "functional");
                            d.put("phase", "zero_width");
                            d
                        },
                        format!("{} bit {}: state width 0 makes the evaluator output constant 0", t.name, t.bit),
                    );
                }
            }
        }
        walks.push(wk);
    }

    // every table was walked by this shard (violations are reported by the owning shard only)
    rep.count("structural_walk_complete", 1);

    // ---- functional clause
    let mut buf: Box<[Slice; BUFN]> = Box::new([[0u64; K]; BUFN]);
    let progs: Vec<Option<Prog>> = (0..tabs.len()).map(|i| if walks[i].evaluable && tabs[i].w > 0 { compile(&tabs[i]) } else { None }).collect();
    let mut inp: Box<[Slice; 64]> = Box::new([[0u64; K]; 64]);
    let evaluable: Vec<usize> = (0..tabs.len()).filter(|&i| progs[i].is_some()).collect();
    for i in 0..tabs.len() {
        if walks[i].evaluable && tabs[i].w > 0 && progs[i].is_none() {
            rep.inconclusive.push(format!("{} bit {}: state width {} exceeds the harness evaluator's buffer", tabs[i].name, tabs[i].bit, tabs[i].w));
        }
    }

    // (a) exhaustive over small supports, passes spread over the shards
    let mut sampled_bits: Vec<usize> = Vec::new();
    for &ti in &evaluable {
        let t = &tabs[ti];
        let vars_mask = walks[ti].support_all | t.op.spec_support(t.bit);
        let vars: Vec<usize> = (0..64).filter(|v| (vars_mask >> v) & 1 == 1).collect();
        let nv = vars.len();
        let exhaustive = nv <= exh_limit;
        let owner = ti as u64 % cfg.nshards == cfg.shard;
        let mut info = t.desc();
        info.put("levels", walks[ti].levels);
        info.put("cmux", walks[ti].cmux);
        info.put("support_table", walks[ti].support_all.count_ones());
        info.put("support_live", walks[ti].support_live.count_ones());
        info.put("support_spec", t.op.spec_support(t.bit).count_ones());
        info.put("support_union", nv);
        info.put("exhaustive", exhaustive);
        if walks[ti].support_live != t.op.spec_support(t.bit) && owner {
            // not forbidden by the statement, but worth a note: the table looks at other variables than the function needs
            rep.count("tables_with_support_differing_from_spec", 1);
        }
        if !exhaustive {
            sampled_bits.push(ti);
            if owner {
                rep.count("bits_sampled_only", 1);
                bits_info.push(info);
            }
            continue;
        }
        let npv = nv.min(PV);
        let passes: u64 = 1u64 << (nv - npv);
        // lane contribution of the pattern variables
        let mut lane_pat = [0u64; LANES];
        for (l, lp) in lane_pat.iter_mut().enumerate() {
            for (tix, v) in vars.iter().take(npv).enumerate() {
                *lp |= (((l >> tix) & 1) as u64) << v;
            }
        }
        let free_mask: u64 = !vars_mask;
        let mut done = 0u64;
        let mut first_bad: Option<Mismatch> = None;
        let t_start = std::time::Instant::now();
        with_op!(t.op, f, {
            let mut p = (cfg.shard + cfg.nshards - (ti as u64 % cfg.nshards)) % cfg.nshards;
            while p < passes {
                // variables outside the union get a per-pass random constant: neither side may depend on them
                let free = rng.next_u64() & free_mask;
                let mut base = free;
                for (c, v) in vars.iter().skip(npv).enumerate() {
                    base |= ((p >> c) & 1) << v;
                }
                for v in 0..64 {
                    inp[v] = if (base >> v) & 1 == 1 { [u64::MAX; K] } else { [0u64; K] };
                }
                for (tix, v) in vars.iter().take(npv).enumerate() {
                    inp[*v] = pattern_slice(tix);
                }
                let got = eval_slices(progs[ti].as_ref().unwrap(), t.w, &inp, &mut buf);
                if let Some(m) = compare_lanes(&f, t.bit, &got, |l| base | lane_pat[l]) {
                    if first_bad.is_none() {
                        first_bad = Some(m);
                    }
                    rep.count("functional_mismatching_passes", 1);
                }
                done += 1;
                p += cfg.nshards;
            }
        });
        if let Some(m) = &first_bad {
            report_mismatch(t, "exhaustive", m, rep, &mut mism_seen);
        }
        if done > 0 {
            rep.case("exhaustive", &format!("{}:{}:{}/{}", t.name, t.bit, cfg.shard, cfg.nshards), nv >= 2);
            rep.count("exh_passes_done", done as i128);
            rep.count("exh_inputs", (done as i128) << npv);
            rep.maxf("exh_bit_seconds_max", t_start.elapsed().as_secs_f64());
        }
        if owner {
            rep.count("bits_exhaustive", 1);
            rep.count("exh_inputs_expected", 1i128 << nv);
            rep.maxf("exh_support_max", nv as f64);
            info.put("exhaustive_inputs", 1i128 << nv);
            bits_info.push(info);
        }
    }

    // (b) per-edge constructed inputs with 256 random completions each, path confirmed by the scalar trace
    for &ti in &evaluable {
        if ti as u64 % cfg.nshards != cfg.shard {
            continue;
        }
        let t = &tabs[ti];
        let (edges, total_edges, infeasible) = edges_of(t);
        rep.count("edges_total", total_edges as i128);
        rep.count("edges_with_constructed_input", edges.len() as i128);
        rep.count("edges_infeasible_on_first_path", infeasible as i128);
        let rounds = if cfg.thorough { 8 } else { 1 };
        let mut covered = 0usize;
        for e in &edges {
            let mut hits = 0usize;
            for _ in 0..rounds {
                let mut xs = [0u64; LANES];
                for x in xs.iter_mut() {
                    let (a, b) = structured_pair(&mut rng);
                    let r = a as u64 | (b as u64) << 32;
                    *x = (r & !e.mask) | e.val;
                }
                to_slices(&xs, &mut inp);
                let got = eval_slices(progs[ti].as_ref().unwrap(), t.w, &inp, &mut buf);
                with_op!(t.op, f, {
                    if let Some(m) = compare_lanes(&f, t.bit, &got, |l| xs[l]) {
                        report_mismatch(t, "edge", &m, rep, &mut mism_seen);
                    }
                });
                for (l, x) in xs.iter().enumerate() {
                    let (v, hit) = trace(t, *x, Some((e.lvl, e.slot, e.e)));
                    if hit {
                        hits += 1;
                    }
                    if v as u64 != (got[l >> 6] >> (l & 63)) & 1 {
                        rep.inconclusive.push(format!("harness self-check: scalar trace and bit-sliced evaluation disagree on {} bit {}", t.name, t.bit));
                        return;
                    }
                }
                rep.count("edge_inputs", LANES as i128);
            }
            if hits > 0 {
                covered += 1;
            }
            rep.count("edge_path_confirmations", hits as i128);
            rep.case("edge", &format!("{}:{}:{}:{}:{}", t.name, t.bit, e.lvl, e.slot, e.e), true);
        }
        rep.count("edges_covered", covered as i128);
        rep.count("cmux_nodes_live", walks[ti].live_nodes as i128);
    }

    // (c) boundary dictionary x random garbage on every evaluable table, (d) structured random on the sampled ones
    let dict_rounds = cfg.budget(16, 512);
    for round in 0..dict_rounds {
        let d = dictionary(&mut rng);
        for (bi, chunk) in d.chunks(LANES).enumerate() {
            let mut xs = [0u64; LANES];
            for (l, x) in xs.iter_mut().enumerate() {
                let (a, b) = chunk[l % chunk.len()];
                *x = a as u64 | (b as u64) << 32;
            }
            to_slices(&xs, &mut inp);
            for &ti in &evaluable {
                let t = &tabs[ti];
                let got = eval_slices(progs[ti].as_ref().unwrap(), t.w, &inp, &mut buf);
                with_op!(t.op, f, {
                    if let Some(m) = compare_lanes(&f, t.bit, &got, |l| xs[l]) {
                        report_mismatch(t, "dictionary", &m, rep, &mut mism_seen);
                    }
                });
            }
            rep.count("dict_inputs_per_bit", chunk.len() as i128);
            if bi == 0 {
                rep.case("dictionary", &format!("{}:{}:{}", cfg.seed, cfg.shard, round), true);
            }
        }
    }
    // quick: 2^30 inputs per sampled bit over all shards; thorough: 2^35
    let batches = cfg.budget(1 << 22, 1 << 27);
    let t_rand = std::time::Instant::now();
    for bi in 0..batches {
        let mut xs = [0u64; LANES];
        for x in xs.iter_mut() {
            let (a, b) = structured_pair(&mut rng);
            *x = a as u64 | (b as u64) << 32;
        }
        to_slices(&xs, &mut inp);
        for &ti in &sampled_bits {
            let t = &tabs[ti];
            let got = eval_slices(progs[ti].as_ref().unwrap(), t.w, &inp, &mut buf);
            with_op!(t.op, f, {
                if let Some(m) = compare_lanes(&f, t.bit, &got, |l| xs[l]) {
                    report_mismatch(t, "random", &m, rep, &mut mism_seen);
                }
            });
        }
        if bi % 65536 == 0 {
            rep.case("random", &format!("{}:{}:{}", cfg.seed, cfg.shard, bi), true);
        }
    }
    rep.count("random_inputs_per_sampled_bit", (batches as i128) * LANES as i128);
    rep.maxf("random_phase_seconds", t_rand.elapsed().as_secs_f64());
    rep.extra.push(("x_bits".into(), J::A(bits_info)));
    rep.extra.push(("x_exh_limit".into(), J::I(exh_limit as i128)));
}
