// C20 — thread count and scheduling never change results.
// Oracles: (1) byte comparison of multi-thread outputs against the sequential entry points for every thread count,
// with garbage-filled scratch of exactly the declared size; (2) offline checker over the hook's event log
// (crate::c20_log::check); (3) the same under seeded schedule perturbation, counting distinct interleavings;
// (4) threads sharing one Module / prepared keys / read-only ciphertexts versus a solo replay of each sequence.
// (c1520_common.rs is included by the parent module.)
use crate::c20_log;
use std::cell::RefCell;

thread_local! {
    static INTERLEAVINGS: RefCell<BTreeSet<String>> = const { RefCell::new(BTreeSet::new()) };
}

/// registers one observed interleaving (hash of the global order of ItemStart events of a run)
fn note_interleaving(rep: &mut Report, key: String, multi_worker: bool) {
    rep.case("interleaving", &key, multi_worker);
    if multi_worker {
        INTERLEAVINGS.with(|s| {
            s.borrow_mut().insert(key);
        });
    }
}

const OPS: &[&str] = &["add", "sub", "sll", "srl", "sra", "slt", "sltu", "and", "or", "xor", "identity"];

fn thread_counts() -> Vec<usize> {
    let mut v: Vec<usize> = (1..=32).collect();
    v.extend_from_slice(&[33, 40, 64]);
    v
}

fn exec(ctx: &Ctx, op: &str, threads: usize, res: &mut Packed<u32>, a: &Prepared<u32>, b: &Prepared<u32>, s: &mut Scratch<BE>) {
    let m = &ctx.module;
    let k = &ctx.key;
    if threads == 0 {
        match op {
            "add" => res.add(m, a, b, k, s),
            "sub" => res.sub(m, a, b, k, s),
            "sll" => res.sll(m, a, b, k, s),
            "srl" => res.srl(m, a, b, k, s),
            "sra" => res.sra(m, a, b, k, s),
            "slt" => res.slt(m, a, b, k, s),
            "sltu" => res.sltu(m, a, b, k, s),
            "and" => res.and(m, a, b, k, s),
            "or" => res.or(m, a, b, k, s),
            "xor" => res.xor(m, a, b, k, s),
            _ => res.identity(m, a, k, s),
        }
    } else {
        match op {
            "add" => res.add_multi_thread(threads, m, a, b, k, s),
            "sub" => res.sub_multi_thread(threads, m, a, b, k, s),
            "sll" => res.sll_multi_thread(threads, m, a, b, k, s),
            "srl" => res.srl_multi_thread(threads, m, a, b, k, s),
            "sra" => res.sra_multi_thread(threads, m, a, b, k, s),
            "slt" => res.slt_multi_thread(threads, m, a, b, k, s),
            "sltu" => res.sltu_multi_thread(threads, m, a, b, k, s),
            "and" => res.and_multi_thread(threads, m, a, b, k, s),
            "or" => res.or_multi_thread(threads, m, a, b, k, s),
            "xor" => res.xor_multi_thread(threads, m, a, b, k, s),
            _ => res.identity_multi_thread(threads, m, a, k, s),
        }
    }
}

/// declared scratch size of `<op>_multi_thread` (None: the one-word family declares no query)
fn declared_mt_bytes(ctx: &Ctx, op: &str, threads: usize) -> Option<usize> {
    let res: Packed<u32> = ctx.alloc_packed();
    let (m, g, s, k) = (&ctx.module, &ctx.glwe_infos, &ctx.ggsw_infos, &ctx.key);
    Some(match op {
        "add" => res.add_multi_thread_tmp_bytes(m, threads, g, s, k),
        "sub" => res.sub_multi_thread_tmp_bytes(m, threads, g, s, k),
        "sll" => res.sll_multi_thread_tmp_bytes(m, threads, g, s, k),
        "srl" => res.srl_multi_thread_tmp_bytes(m, threads, g, s, k),
        "sra" => res.sra_multi_thread_tmp_bytes(m, threads, g, s, k),
        "slt" => res.slt_multi_thread_tmp_bytes(m, threads, g, s, k),
        "sltu" => res.sltu_multi_thread_tmp_bytes(m, threads, g, s, k),
        "and" => res.and_multi_thread_tmp_bytes(m, threads, g, s, k),
        "or" => res.or_multi_thread_tmp_bytes(m, threads, g, s, k),
        "xor" => res.xor_multi_thread_tmp_bytes(m, threads, g, s, k),
        _ => return None,
    })
}

/// number of output bits of the compiled circuit behind `op` (slt / sltu produce one bit), read from the circuit tables
fn output_bits(op: &str) -> usize {
    #[cfg(feature = "hooks")]
    {
        for (name, c) in poulpy_bin_fhe::bdd_arithmetic::verif_u32_circuits() {
            if name == op {
                return c.output_size();
            }
        }
    }
    if matches!(op, "slt" | "sltu") { 1 } else { 32 }
}

fn prepared_bytes<T: UnsignedInteger>(p: &Prepared<T>) -> Vec<u8> {
    let mut v = Vec::new();
    for i in 0..T::BITS as usize {
        let bit = p.get_bit(i);
        let raw: &[u8] = bit.data().data();
        v.extend_from_slice(raw);
    }
    v
}

fn first_diff(a: &[u8], b: &[u8]) -> String {
    if a.len() != b.len() {
        return format!("lengths {} / {}", a.len(), b.len());
    }
    match (0..a.len()).find(|i| a[*i] != b[*i]) {
        Some(i) => format!("first differing byte at offset {i} of {}", a.len()),
        None => "equal".into(),
    }
}

pub fn run(cfg: &Cfg, rep: &mut Report) {
    install_worker_panic_capture();
    let hooks = c20_log::install();
    if !hooks {
        rep.inconclusive.push("built without --features hooks: event-log and schedule-perturbation checks not run".into());
    }
    let tsan_small = cfg.mode == "tsan-small";
    let mut rng = cfg.rng(&format!("c20-{BE_NAME}"));
    let only = cfg.extra.get("only").cloned().unwrap_or_default();
    let want = |s: &str| only.is_empty() || only.split(',').any(|x| x == s);
    let key_seed = cfg.seed.wrapping_mul(1000).wrapping_add(cfg.shard) ^ 0xc20;
    let mut ctx = match guarded(|| Ctx::new(0, key_seed)) {
        Ok(c) => c,
        Err(p) => {
            rep.violate("keygen", jo! {"backend" => BE_NAME, "key_seed" => key_seed}, format!("panic: {p}"));
            return;
        }
    };
    // 16 shards x up to 64 threads oversubscribe the machine by design; the slower backends take half their usual share
    let sc = if tsan_small || bscale() >= 1.0 { 1.0 } else { bscale() * 0.5 };
    if want("bdd") {
        part_bdd(&mut ctx, cfg, rep, &mut rng, hooks, tsan_small, sc);
    }
    if want("prepare") {
        part_prepare::<u32>(&mut ctx, cfg, rep, &mut rng, hooks, tsan_small, sc);
        if !tsan_small && sc >= 0.1 {
            part_prepare::<u8>(&mut ctx, cfg, rep, &mut rng, hooks, tsan_small, sc * 0.25);
        }
    }
    if want("stress") {
        part_stress(&mut ctx, cfg, rep, &mut rng, hooks, tsan_small, sc);
    }
    // distinct orders of ItemStart events seen by this backend in this shard (multi-worker runs only); summed over
    // backends and shards by the driver. The exact union is the set of distinct keys of the "interleaving" cases.
    let n_inter = INTERLEAVINGS.with(|s| s.borrow().len());
    rep.count("distinct_interleavings_observed", n_inter as i128);
    // process-wide total (the callback is global): overwrite, do not add
    rep.counters.insert("hook_perturbations_applied".into(), c20_log::perturbations() as i128);
}

// ---------------------------------------------------------------------------------------------
// (1)+(2)+(3) BDD evaluation
// ---------------------------------------------------------------------------------------------
fn part_bdd(ctx: &mut Ctx, cfg: &Cfg, rep: &mut Report, rng: &mut Rng, hooks: bool, tsan_small: bool, sc: f64) {
    let counts = if tsan_small { vec![1usize, 2, 3, 5, 32, 40] } else { thread_counts() };
    let dict = boundary_words(32);
    let a = (rng.next_u64() as u32) | 1;
    let b = rng.next_u64() as u32;
    let ap: Prepared<u32> = ctx.enc_prepared(a);
    let bp: Prepared<u32> = ctx.enc_prepared(b);
    let _ = &dict;
    // references from the sequential entry points
    let mut reference: BTreeMap<&str, Vec<u8>> = BTreeMap::new();
    for (oi, op) in OPS.iter().enumerate() {
        // slow backends: a shard-rotating quarter of the operations
        if sc < 0.1 && (oi as u64 + cfg.shard + cfg.seed) % 4 != 0 {
            continue;
        }
        let mut res: Packed<u32> = ctx.alloc_packed();
        let mut big = garbage_scratch(1 << 22, rng);
        if hooks {
            c20_log::begin(0);
        }
        let r = guarded_mt(|| exec(ctx, op, 0, &mut res, &ap, &bp, big.scratch()));
        let evs = if hooks { c20_log::end() } else { vec![] };
        let d = jo! {"backend" => BE_NAME, "key_seed" => ctx.key_seed, "op" => *op, "entry" => "sequential", "a" => format!("0x{a:x}"), "b" => format!("0x{b:x}")};
        rep.case(&format!("seq_{op}"), &format!("{BE_NAME}|{a:x}|{b:x}"), true);
        match r {
            Err(p) => {
                rep.violate("bdd_sequential", d, format!("panic: {p}"));
                continue;
            }
            Ok(()) => {
                reference.insert(op, glwe_bytes(&res));
            }
        }
        if hooks {
            if let Err(e) = c20_log::check(&evs, "bdd_eval", 0, output_bits(op), 1) {
                rep.violate("event_log_bdd_eval", d, e);
            }
        }
    }
    // grid (op, thread count), sharded by index; plus perturbed repetitions
    // perturbed repetitions per grid point (per shard: the grid itself is sharded)
    let scheds = if tsan_small { 2u64 } else if cfg.thorough { (24.0 * cfg.scale).ceil().max(1.0) as u64 } else { 1 };
    let mut idx = 0u64;
    let stride = (1.0 / sc).round().max(1.0) as u64; // slower backends take every stride-th grid point
    for op in OPS {
        let Some(refb) = reference.get(op) else { continue };
        for &threads in &counts {
            idx += 1;
            if idx % cfg.nshards != cfg.shard && !tsan_small {
                continue;
            }
            if (idx / cfg.nshards) % stride != cfg.seed % stride {
                continue;
            }
            if tsan_small && !matches!(*op, "add" | "sll" | "identity") {
                continue;
            }
            for rep_i in 0..=scheds {
                // rep 0: unperturbed; others: seeded schedule tables
                let sched = if rep_i == 0 { 0 } else { rng.next_u64() | 1 };
                if sched != 0 && !hooks {
                    break;
                }
                let threads = if rep_i == 0 { threads } else { *rng.pick(&counts) };
                let declared = declared_mt_bytes(ctx, op, threads);
                // the one-word family declares no query: a window that is certainly large enough (the adder's, doubled)
                let bytes = declared.unwrap_or_else(|| 2 * declared_mt_bytes(ctx, "add", threads).unwrap() + (1 << 20));
                let d = jo! {"backend" => BE_NAME, "key_seed" => ctx.key_seed, "op" => *op, "entry" => "multi_thread", "threads" => threads, "schedule" => format!("{sched:x}"), "scratch_bytes" => bytes,
                "exact_scratch" => declared.is_some(), "a" => format!("0x{a:x}"), "b" => format!("0x{b:x}")};
                let mut win = garbage_scratch(bytes, rng);
                let mut res: Packed<u32> = ctx.alloc_packed();
                if hooks {
                    c20_log::begin(sched);
                }
                let r = guarded_mt(|| exec(ctx, op, threads, &mut res, &ap, &bp, win.scratch()));
                let evs = if hooks { c20_log::end() } else { vec![] };
                rep.case(&format!("mt_{op}"), &format!("{BE_NAME}|{threads}|{sched:x}"), true);
                rep.sample_for_op(&format!("{BE_NAME}:mt_{op}"), || d.clone());
                if let Err(p) = r {
                    rep.violate("bdd_multi_thread", d, format!("panic: {p}"));
                    continue;
                }
                let got = glwe_bytes(&res);
                if &got != refb {
                    rep.violate("bdd_multi_thread", d.clone(), format!("output bytes differ from the sequential entry point: {}", first_diff(&got, refb)));
                }
                rep.count("byte_comparisons", 1);
                if hooks {
                    match c20_log::check(&evs, "bdd_eval", 0, output_bits(op), threads) {
                        Ok(st) => {
                            rep.count("event_logs_checked", 1);
                            rep.count("events_items", st.items as i128);
                            note_interleaving(rep, format!("bdd|{:016x}", st.interleaving), st.workers > 1);
                            if sched != 0 {
                                rep.count("perturbed_runs", 1);
                            }
                        }
                        Err(e) => rep.violate("event_log_bdd_eval", d, e),
                    }
                }
            }
        }
    }
}

// ---------------------------------------------------------------------------------------------
// (1)+(2)+(3) bit preparation: every thread count on the full word, every (start, len) partition
// ---------------------------------------------------------------------------------------------
fn part_prepare<T: UnsignedInteger + ToBits + FromBits>(ctx: &mut Ctx, cfg: &Cfg, rep: &mut Report, rng: &mut Rng, hooks: bool, tsan_small: bool, sc: f64) {
    let bits = T::BITS as usize;
    let wname = format!("u{bits}");
    let counts = if tsan_small { vec![1usize, 2, 3, 5, 33] } else { thread_counts() };
    let tb = ctx.prepare_thread_bytes::<T>();
    let stride = (1.0 / sc).round().max(1.0) as u64;
    // the word: a packed encryption under this shard's key
    let mut cases: Vec<(usize, usize, usize, bool)> = Vec::new(); // (start, len, threads, wrapper)
    let mut idx = 0u64;
    for &t in &counts {
        idx += 1;
        if (idx % cfg.nshards == cfg.shard || tsan_small) && (idx / cfg.nshards) % stride == cfg.seed % stride && (sc >= 0.1 || (cfg.shard + cfg.seed) % 2 == 0) {
            cases.push((0, bits, t, idx % 2 == 0));
        }
    }
    if !tsan_small {
        for start in 0..bits {
            for len in 1..=(bits - start) {
                idx += 1;
                if idx % cfg.nshards == cfg.shard && (idx / cfg.nshards) % stride == cfg.seed % stride {
                    cases.push((start, len, *rng.pick(&counts), false));
                }
            }
        }
        if sc >= 1.0 {
            rep.count(&format!("prepare_partition_grid_complete_{wname}"), 1);
        }
    } else {
        cases.push((3, 9, 4, false));
        cases.push((24, 8, 3, false));
    }
    let word_bits: u64 = rng.next_u64();
    let mut refs: BTreeMap<(usize, usize), Vec<u8>> = BTreeMap::new();
    for (start, len, threads, wrapper) in cases {
        let ca: Packed<T> = {
            // same plaintext, fresh encryption per case would change bytes: encrypt once per (start,len) reference below
            let mut ct: Packed<T> = ctx.alloc_packed();
            let enc = EncryptionLayout::new_from_default_sigma(ctx.glwe_infos).unwrap();
            let mut xa = Source::new(seed32(ctx.key_seed, 77));
            let mut xe = Source::new(seed32(ctx.key_seed, 78));
            let v = from_u64::<T>(word_bits);
            ct.encrypt_sk(&ctx.module, v, &ctx.sk_prep, &enc, &mut xe, &mut xa, ctx.scratch.borrow());
            ct
        };
        // reference: sequential entry point, generous scratch
        if !refs.contains_key(&(start, len)) {
            let mut p: Prepared<T> = ctx.alloc_prepared();
            let mut big = garbage_scratch(tb + 4096, rng);
            if hooks {
                c20_log::begin(0);
            }
            let r = guarded_mt(|| FheUintPrepare::<CGGI, BE>::fhe_uint_prepare_custom(&ctx.module, &mut p, &ca, start, len, &ctx.key, big.scratch()));
            let evs = if hooks { c20_log::end() } else { vec![] };
            let d = jo! {"backend" => BE_NAME, "key_seed" => ctx.key_seed, "op" => "prepare_custom", "width" => wname.as_str(), "entry" => "sequential", "bit_start" => start, "bit_count" => len};
            if let Err(pn) = r {
                rep.violate("prepare_sequential", d, format!("panic: {pn}"));
                continue;
            }
            if hooks {
                if let Err(e) = c20_log::check(&evs, "fhe_uint_prepare", start, start + len, 1) {
                    rep.violate("event_log_prepare", d, e);
                }
            }
            refs.insert((start, len), prepared_bytes(&p));
        }
        let refb = &refs[&(start, len)];
        let scheds: u64 = if start == 0 && len == bits { if tsan_small { 1 } else if cfg.thorough { (16.0 * cfg.scale).ceil().max(1.0) as u64 } else { 1 } } else if cfg.thorough { 4 } else { 1 };
        for rep_i in 0..=scheds {
            let sched = if rep_i == 0 || !hooks { 0 } else { rng.next_u64() | 1 };
            if rep_i > 0 && !hooks {
                break;
            }
            // the documented requirement is `available >= threads * per-thread bytes`
            let exact = threads * tb;
            let mut attempt = 0;
            loop {
                let bytes = if attempt == 0 { exact } else { threads * (tb + 64) + 64 };
                let d = jo! {"backend" => BE_NAME, "key_seed" => ctx.key_seed, "op" => "prepare_custom_multi_thread", "width" => wname.as_str(), "entry" => if wrapper { "wrapper" } else { "module" },
                "bit_start" => start, "bit_count" => len, "threads" => threads, "schedule" => format!("{sched:x}"), "scratch_bytes" => bytes, "exact_scratch" => attempt == 0, "per_thread_bytes" => tb,
                "per_thread_bytes_mod_64" => tb % 64};
                let mut win = garbage_scratch(bytes, rng);
                let mut p: Prepared<T> = ctx.alloc_prepared();
                if hooks {
                    c20_log::begin(sched);
                }
                let r = guarded_mt(|| {
                    if wrapper {
                        // start == 0 here, so the wrapper's `bit_end` and a count coincide
                        p.prepare_custom_multi_thread(threads, &ctx.module, &ca, start, start + len, &ctx.key, win.scratch())
                    } else {
                        FheUintPrepare::<CGGI, BE>::fhe_uint_prepare_custom_multi_thread(&ctx.module, threads, &mut p, &ca, start, len, &ctx.key, win.scratch())
                    }
                });
                let evs = if hooks { c20_log::end() } else { vec![] };
                rep.case("mt_prepare", &format!("{BE_NAME}|{wname}|{start}|{len}|{threads}|{sched:x}|{attempt}"), true);
                rep.sample_for_op(&format!("{BE_NAME}:mt_prepare"), || d.clone());
                match r {
                    Err(pn) => {
                        // narrow class: the split re-aligns every window to 64 bytes, so `threads * per_thread` does not
                        // suffice when per_thread is not a multiple of 64
                        let class = if attempt == 0 && threads > 1 && tb % 64 != 0 && pn.contains("Attempted to take") { "split_windows_realigned" } else { "other" };
                        let mut d2 = d;
                        d2.put("class", class);
                        rep.violate("prepare_multi_thread", d2, format!("panic: {pn}"));
                        if attempt == 0 && class == "split_windows_realigned" {
                            attempt = 1; // repeat with padded windows so that bytes and events are still compared
                            continue;
                        }
                        break;
                    }
                    Ok(()) => {
                        let got = prepared_bytes(&p);
                        if &got != refb {
                            rep.violate("prepare_multi_thread", d.clone(), format!("prepared bytes differ from the sequential entry point: {}", first_diff(&got, refb)));
                        }
                        rep.count("byte_comparisons", 1);
                        if hooks {
                            match c20_log::check(&evs, "fhe_uint_prepare", start, start + len, threads) {
                                Ok(st) => {
                                    rep.count("event_logs_checked", 1);
                                    rep.count("events_items", st.items as i128);
                                    note_interleaving(rep, format!("prep|{wname}|{:016x}", st.interleaving), st.workers > 1);
                                    if sched != 0 {
                                        rep.count("perturbed_runs", 1);
                                    }
                                }
                                Err(e) => rep.violate("event_log_prepare", d, e),
                            }
                        }
                        break;
                    }
                }
            }
        }
    }
}

fn from_u64<T: UnsignedInteger + FromBits>(x: u64) -> T {
    let bits: Vec<u8> = (0..T::BITS as usize).map(|i| ((x >> (i % 64)) & 1) as u8).collect();
    T::from_bits(&bits)
}

// ---------------------------------------------------------------------------------------------
// (4) shared Module / keys / ciphertexts, own scratch: concurrent run versus solo replay
// ---------------------------------------------------------------------------------------------
struct Shared<'a> {
    ctx: &'a Ctx,
    ap: &'a Prepared<u32>,
    bp: &'a Prepared<u32>,
    ct: &'a Packed<u32>,
}

const STRESS_OPS: &[&str] =
    &["glwe_encrypt", "glwe_decrypt", "glwe_keyswitch", "external_product", "bdd_op", "get_bit_glwe", "prepare_bit", "bdd_op_mt", "cmux", "splice", "cbt_constant", "cbt_exponent", "cbt_constant"];

fn run_sequence(sh: &Shared, seq_seed: u64, len: usize) -> Vec<(String, u64)> {
    let ctx = sh.ctx;
    let m = &ctx.module;
    let mut rng = Rng::new(seq_seed, 0x57e55);
    let mut scratch: ScratchOwned<BE> = ScratchOwned::alloc(1 << 22);
    rng.fill_bytes(&mut scratch.borrow().data);
    let mut xa = Source::new(seed32(seq_seed, 1));
    let mut xe = Source::new(seed32(seq_seed, 2));
    let mut out = Vec::new();
    for _ in 0..len {
        let op = *rng.pick(STRESS_OPS);
        let h = match op {
            "glwe_encrypt" => {
                let v = rng.next_u64() as u32;
                let mut ct: Packed<u32> = ctx.alloc_packed();
                let enc = EncryptionLayout::new_from_default_sigma(ctx.glwe_infos).unwrap();
                ct.encrypt_sk(m, v, &ctx.sk_prep, &enc, &mut xe, &mut xa, scratch.borrow());
                fnv_bytes(&glwe_bytes(&ct))
            }
            "glwe_decrypt" => sh.ct.decrypt(m, &ctx.sk_prep, scratch.borrow()) as u64,
            "glwe_keyswitch" => {
                let (_, ks_glwe, ks_lwe) = ctx.key.get_cbt_key();
                match ks_glwe {
                    Some(ks) => {
                        let mut res: GLWE<Vec<u8>> = GLWE::alloc_from_infos(&GLWELayout { n: ctx.glwe_infos.n, base2k: ks_lwe.base2k(), k: ks_lwe.max_k(), rank: ks_lwe.rank_out().max(Rank(1)) });
                        m.glwe_keyswitch(&mut res, sh.ct, ks, scratch.borrow());
                        fnv_bytes(&glwe_bytes(&res))
                    }
                    None => 0,
                }
            }
            "external_product" => {
                let bit = rng.usize_in(0, 31);
                let mut res: GLWE<Vec<u8>> = GLWE::alloc_from_infos(&ctx.glwe_infos);
                m.glwe_external_product(&mut res, sh.ct, &sh.ap.get_bit(bit), scratch.borrow());
                fnv_bytes(&glwe_bytes(&res))
            }
            "bdd_op" | "bdd_op_mt" => {
                let o = *rng.pick(&["add", "sub", "xor", "sltu", "sll", "identity"]);
                let threads = if op == "bdd_op_mt" { rng.usize_in(2, 4) } else { 0 };
                let mut res: Packed<u32> = ctx.alloc_packed();
                exec(ctx, o, threads, &mut res, sh.ap, sh.bp, scratch.borrow());
                fnv_bytes(&glwe_bytes(&res))
            }
            "get_bit_glwe" => {
                let bit = rng.usize_in(0, 31);
                let mut res: GLWE<Vec<u8>> = GLWE::alloc_from_infos(&ctx.glwe_infos);
                sh.ct.get_bit_glwe(m, bit, &mut res, &ctx.key, scratch.borrow());
                fnv_bytes(&glwe_bytes(&res))
            }
            "prepare_bit" => {
                let bit = rng.usize_in(0, 31);
                let mut p: Prepared<u32> = ctx.alloc_prepared();
                FheUintPrepare::<CGGI, BE>::fhe_uint_prepare_custom(m, &mut p, sh.ct, bit, 1, &ctx.key, scratch.borrow());
                fnv_bytes(&prepared_bytes(&p))
            }
            "cbt_constant" | "cbt_exponent" => {
                // circuit bootstrapping straight through the public key methods, with a result layout / encoding that differs from
                // thread to thread and from step to step (threads sharing the key then run *different* parameter sets at once)
                let (cbt, _, _) = ctx.key.get_cbt_key();
                let dnum = rng.usize_in(1, 3);
                let b = ctx.ggsw_infos.base2k;
                let lay = GGSWLayout { n: ctx.ggsw_infos.n, base2k: b, k: TorusPrecision(3 * b.0), rank: ctx.ggsw_infos.rank, dnum: Dnum(dnum as u32), dsize: Dsize(1) };
                let mut res: GGSW<Vec<u8>> = GGSW::alloc_from_infos(&lay);
                let lwe_lay = LWELayout { n: ctx.sk_lwe.n(), k: ctx.glwe_infos.k, base2k: ctx.glwe_infos.base2k };
                let mut lwe: LWE<Vec<u8>> = LWE::alloc_from_infos(&lwe_lay);
                lwe.data_mut().fill_uniform(lwe_lay.base2k.0 as usize, &mut Source::new(seed32(rng.next_u64(), 7)));
                if op == "cbt_constant" {
                    cbt.execute_to_constant(m, &mut res, &lwe, 1, 1, scratch.borrow());
                } else {
                    cbt.execute_to_exponent(m, 1, &mut res, &lwe, 1, 1, scratch.borrow());
                }
                let mut bytes = Vec::new();
                for r in 0..dnum {
                    for c in 0..(ctx.ggsw_infos.rank.0 as usize + 1) {
                        bytes.extend_from_slice(&glwe_bytes(&res.at(r, c)));
                    }
                }
                fnv_bytes(&bytes)
            }
            "cmux" => {
                let bit = rng.usize_in(0, 31);
                let mut res: GLWE<Vec<u8>> = GLWE::alloc_from_infos(&ctx.glwe_infos);
                let zero: GLWE<Vec<u8>> = GLWE::alloc_from_infos(&ctx.glwe_infos);
                m.cmux(&mut res, sh.ct, &zero, &sh.bp.get_bit(bit), scratch.borrow());
                fnv_bytes(&glwe_bytes(&res))
            }
            _ => {
                let (dst, src) = (rng.usize_in(0, 3), rng.usize_in(0, 3));
                let mut res: Packed<u32> = ctx.alloc_packed();
                res.splice_u8(m, dst, src, sh.ct, sh.ct, &ctx.key, scratch.borrow());
                fnv_bytes(&glwe_bytes(&res))
            }
        };
        out.push((op.to_string(), h));
    }
    out
}

fn part_stress(ctx: &mut Ctx, cfg: &Cfg, rep: &mut Report, rng: &mut Rng, hooks: bool, tsan_small: bool, sc: f64) {
    let rounds = if tsan_small { 1 } else { ((cfg.budget(16, 16 * 10) as f64 * sc).ceil() as usize).max(1) };
    for round in 0..rounds {
        // work per round is threads x length x cost of an operation on this backend (twice: the solo replay)
        let nthreads = if tsan_small {
            4
        } else if sc < 0.1 {
            *rng.pick(&[2usize, 3, 4])
        } else if sc < 1.0 {
            *rng.pick(&[2usize, 3, 4, 8])
        } else {
            *rng.pick(&[2usize, 3, 4, 8, 16])
        };
        let len = if tsan_small {
            6
        } else if sc < 0.1 {
            rng.usize_in(3, 5)
        } else {
            rng.usize_in(5, 10)
        };
        let a = rng.next_u64() as u32;
        let b = rng.next_u64() as u32;
        let ap: Prepared<u32> = ctx.enc_prepared(a);
        let bp: Prepared<u32> = ctx.enc_prepared(b);
        let ct: Packed<u32> = ctx.enc_packed(a ^ b);
        let base_seed = rng.next_u64();
        let sched = if hooks && round % 2 == 1 { rng.next_u64() | 1 } else { 0 };
        let d = jo! {"backend" => BE_NAME, "key_seed" => ctx.key_seed, "op" => "shared_module_stress", "threads" => nthreads, "sequence_len" => len, "base_seed" => format!("{base_seed:x}"), "schedule" => format!("{sched:x}")};
        rep.case("shared_module_stress", &format!("{BE_NAME}|{nthreads}|{len}|{base_seed:x}"), true);
        rep.sample_for_op(&format!("{BE_NAME}:shared_module_stress"), || d.clone());
        let sh = Shared { ctx: &*ctx, ap: &ap, bp: &bp, ct: &ct };
        if hooks {
            c20_log::set_schedule_only(sched);
        }
        let conc: Vec<Result<Vec<(String, u64)>, String>> = std::thread::scope(|s| {
            let handles: Vec<_> = (0..nthreads)
                .map(|t| {
                    let shr = &sh;
                    s.spawn(move || guarded(|| run_sequence(shr, base_seed.wrapping_add(t as u64), len)))
                })
                .collect();
            handles.into_iter().map(|h| h.join().unwrap_or_else(|_| Err("thread join failed".into()))).collect()
        });
        if hooks {
            c20_log::set_schedule_only(0);
        }
        for (t, c) in conc.iter().enumerate() {
            let solo = guarded_mt(|| run_sequence(&sh, base_seed.wrapping_add(t as u64), len));
            let mut dt = d.clone();
            dt.put("thread", t);
            match (c, &solo) {
                (Ok(cv), Ok(sv)) => {
                    rep.count("stress_ops_compared", cv.len() as i128);
                    if let Some(i) = (0..cv.len()).find(|i| cv[*i] != sv[*i]) {
                        dt.put("step", i);
                        dt.put("step_op", cv[i].0.as_str());
                        rep.violate("shared_module_stress", dt, format!("step {i} ({}) gives {:016x} when run concurrently and {:016x} alone", cv[i].0, cv[i].1, sv[i].1));
                    }
                }
                (Err(p), Ok(_)) => rep.violate("shared_module_stress", dt, format!("panic only when run concurrently: {p}")),
                (_, Err(p)) => rep.violate("shared_module_stress", dt, format!("panic in the solo replay: {p}")),
            }
        }
    }
}
