// C08 — limb normalisation, shifts and integer encoding are exact.
// Oracle: exact value of the limb vectors (big integers scaled by 2^W), compared on the torus.

#[derive(Clone, Copy, Debug, PartialEq, Eq)]
enum Fuse {
    Overwrite,
    Add,
    Sub,
    Negate,
}

#[derive(Clone, Debug)]
struct Case {
    op: &'static str,
    n: usize,
    a_b: usize,
    r_b: usize,
    a_size: usize,
    r_size: usize,
    off: i64, // value is multiplied by 2^off
    fuse: Fuse,
    inplace: bool,
    big: bool,
    cols: usize,
    a_col: usize,
    r_col: usize,
    class: &'static str,
}

impl Case {
    fn desc(&self) -> J {
        let a_bits = self.a_size * self.a_b;
        let r_bits = self.r_size * self.r_b;
        let steps = (self.off.unsigned_abs() as usize).div_ceil(self.a_b.max(1));
        jo! {"backend" => BE_NAME, "op" => self.op, "n" => self.n, "a_base2k" => self.a_b, "res_base2k" => self.r_b, "a_size" => self.a_size,
        "res_size" => self.r_size, "offset" => self.off, "k" => self.off.unsigned_abs(), "steps" => steps, "a_bits" => a_bits, "res_bits" => r_bits,
        "cross" => self.a_b != self.r_b, "truncating" => a_bits as i64 - self.off > r_bits as i64, "cols" => self.cols, "a_col" => self.a_col, "res_col" => self.r_col,
        "class" => self.class, "inplace" => self.inplace, "big" => self.big}
    }
    fn key(&self) -> String {
        format!("{BE_NAME}|{}|{}|{}|{}|{}|{}|{}|{}", self.op, self.a_b, self.r_b, self.a_size, self.r_size, self.off, self.class, self.cols)
    }
}

const SMALL_OPS: &[&str] = &[
    "normalize", "normalize_cross", "normalize_assign", "lsh", "lsh_assign", "lsh_add_into", "lsh_sub", "rsh", "rsh_assign", "rsh_add_into", "rsh_sub",
];
const BIG_OPS: &[&str] = &["big_normalize", "big_normalize_cross", "big_normalize_add_assign", "big_normalize_sub_assign", "big_normalize_negate"];

fn scratch_bytes(module: &Module<BE>) -> usize {
    [
        module.vec_znx_normalize_tmp_bytes(),
        module.vec_znx_lsh_tmp_bytes(),
        module.vec_znx_rsh_tmp_bytes(),
        module.vec_znx_big_normalize_tmp_bytes(),
    ]
    .into_iter()
    .max()
    .unwrap()
}

/// run the library on prepared buffers; `a` is ignored for in-place ops
fn call(module: &Module<BE>, c: &Case, res: &mut VBuf, a: &VBuf, abig: &BigBuf, sw: &mut ScratchWin) -> Result<(), String> {
    let (rc, ac) = (c.r_col, c.a_col);
    let k = c.off.unsigned_abs() as usize;
    guarded(|| match c.op {
        "normalize" | "normalize_cross" => module.vec_znx_normalize(&mut res.view(), c.r_b, c.off, rc, &a.rview(), c.a_b, ac, sw.scratch()),
        "normalize_assign" => module.vec_znx_normalize_assign(c.r_b, &mut res.view(), rc, sw.scratch()),
        "lsh" => module.vec_znx_lsh(c.r_b, k, &mut res.view(), rc, &a.rview(), ac, sw.scratch()),
        "lsh_assign" => module.vec_znx_lsh_assign(c.r_b, k, &mut res.view(), rc, sw.scratch()),
        "lsh_add_into" => module.vec_znx_lsh_add_into(c.r_b, k, &mut res.view(), rc, &a.rview(), ac, sw.scratch()),
        "lsh_sub" => module.vec_znx_lsh_sub(c.r_b, k, &mut res.view(), rc, &a.rview(), ac, sw.scratch()),
        "rsh" => module.vec_znx_rsh(c.r_b, k, &mut res.view(), rc, &a.rview(), ac, sw.scratch()),
        "rsh_assign" => module.vec_znx_rsh_assign(c.r_b, k, &mut res.view(), rc, sw.scratch()),
        "rsh_add_into" => module.vec_znx_rsh_add_into(c.r_b, k, &mut res.view(), rc, &a.rview(), ac, sw.scratch()),
        "rsh_sub" => module.vec_znx_rsh_sub(c.r_b, k, &mut res.view(), rc, &a.rview(), ac, sw.scratch()),
        "big_normalize" | "big_normalize_cross" => module.vec_znx_big_normalize(&mut res.view(), c.r_b, c.off, rc, &abig.rview(), c.a_b, ac, sw.scratch()),
        "big_normalize_add_assign" => module.vec_znx_big_normalize_add_assign(&mut res.view(), c.r_b, c.off, rc, &abig.rview(), c.a_b, ac, sw.scratch()),
        "big_normalize_sub_assign" => module.vec_znx_big_normalize_sub_assign(&mut res.view(), c.r_b, c.off, rc, &abig.rview(), c.a_b, ac, sw.scratch()),
        "big_normalize_negate" => module.vec_znx_big_normalize_negate(&mut res.view(), c.r_b, c.off, rc, &abig.rview(), c.a_b, ac, sw.scratch()),
        _ => unreachable!("{}", c.op),
    })
}

fn fuse_of(op: &str) -> Fuse {
    match op {
        "lsh_add_into" | "rsh_add_into" | "big_normalize_add_assign" => Fuse::Add,
        "lsh_sub" | "rsh_sub" | "big_normalize_sub_assign" => Fuse::Sub,
        "big_normalize_negate" => Fuse::Negate,
        _ => Fuse::Overwrite,
    }
}

/// Check one executed case: `a_limbs[i]`, `pre[i]`, `post[i]` are the limb vectors of coefficient i.
fn judge(c: &Case, a_limbs: &[Vec<i128>], pre: &[Vec<i64>], post: &[Vec<i64>], rep: &mut Report) {
    let a_bits = c.a_size * c.a_b;
    let r_bits = c.r_size * c.r_b;
    let w = a_bits.max(r_bits) + c.off.unsigned_abs() as usize + 8;
    let unit_log = w - r_bits;
    let exact_expected = (a_bits as i64 - c.off) <= r_bits as i64;
    let mut worst = 0f64;
    for i in 0..a_limbs.len() {
        let va = limbs_value(&a_limbs[i], c.a_b, w);
        let shifted = shl_signed(&va, c.off);
        let prev = limbs_value_i64(&pre[i], c.r_b, w);
        let want = match c.fuse {
            Fuse::Overwrite => shifted,
            Fuse::Add => &prev + &shifted,
            Fuse::Sub => &prev - &shifted,
            Fuse::Negate => -shifted,
        };
        let got = limbs_value_i64(&post[i], c.r_b, w);
        let d = centre(&(got - want), w);
        let units = ratio_units(&d, unit_log);
        if units > worst {
            worst = units;
        }
        let bad = if exact_expected { d != big(0) } else { units > 1.0 };
        if bad {
            rep.violate(
                c.op,
                c.desc(),
                format!(
                    "coefficient {i}: a={:?} pre={:?} got={:?}: error {:.4} units of the last output limb (exact expected: {exact_expected})",
                    a_limbs[i], pre[i], post[i], units
                ),
            );
            return;
        }
        if c.fuse == Fuse::Overwrite && c.a_b == c.r_b {
            let lo = -(1i64 << (c.r_b - 1));
            let hi = 1i64 << (c.r_b - 1);
            if let Some(j) = post[i].iter().position(|x| *x < lo || *x >= hi) {
                rep.violate(c.op, c.desc(), format!("coefficient {i}: output digit {} at limb {j} outside [-2^(b-1), 2^(b-1)): a={:?} got={:?}", post[i][j], a_limbs[i], post[i]));
                return;
            }
        }
    }
    let bucket = if c.big { "worst_units_big" } else if c.a_b != c.r_b { "worst_units_cross" } else { "worst_units_same" };
    if !exact_expected {
        rep.maxf(bucket, worst);
    }
}

fn run_case(module: &Module<BE>, c: &Case, rng: &mut Rng, rep: &mut Report, digits: Option<&dyn Fn(usize, usize) -> i128>) {
    let n = c.n;
    let mut a = VBuf::new(n, c.cols, c.a_size, c.a_size);
    let mut abig = BigBuf::new(n, c.cols, if c.big { c.a_size } else { 1 }, if c.big { c.a_size } else { 1 });
    let r_cap = c.r_size + (rng.below(2) as usize);
    let mut res = VBuf::new(n, c.cols, c.r_size, r_cap);
    a.fill_garbage(rng);
    abig.fill_garbage(rng);
    res.fill_garbage(rng);
    // operand digits
    let headroom = if c.big { if BIG_BYTES == 8 { 62 } else { 100 } } else { 62usize };
    let mut gen_digit = |rng: &mut Rng, b: usize, j: usize, size: usize, i: usize| -> i128 {
        if let Some(f) = digits {
            return f(i, j);
        }
        match c.class {
            "uniform" => rng.signed_bits(b) as i128,
            "maxpos" => (1i128 << (b - 1)) - 1,
            "maxneg" => -(1i128 << (b - 1)),
            "alternate" => if (i + j) % 2 == 0 { (1i128 << (b - 1)) - 1 } else { -(1i128 << (b - 1)) },
            "ripple" => if j + 1 == size { 1i128 << (b - 1) } else { (1i128 << (b - 1)) - 1 },
            "ripple_neg" => if j + 1 == size { -(1i128 << (b - 1)) - 1 } else { -(1i128 << (b - 1)) },
            "sparse" => if rng.below(4) == 0 { rng.signed_bits(b) as i128 } else { 0 },
            "zero" => 0,
            "headroom" => {
                let bits = rng.usize_in(b.min(headroom), headroom);
                if bits <= 63 { rng.signed_bits(bits) as i128 } else { ((rng.signed_bits(bits - 60) as i128) << 60) | (rng.next_u64() >> 4) as i128 }
            }
            _ => unreachable!(),
        }
    };
    let mut a_limbs: Vec<Vec<i128>> = vec![vec![0; c.a_size]; n];
    if !c.inplace {
        for i in 0..n {
            for j in 0..c.a_size {
                let d = gen_digit(rng, c.a_b, j, c.a_size, i);
                a_limbs[i][j] = d;
                if c.big {
                    abig.set(c.a_col, j, i, d);
                } else {
                    a.poly_mut(c.a_col, j)[i] = d as i64;
                }
            }
        }
    }
    // previous content of the result (operand for in-place and fused forms)
    if c.inplace || c.fuse == Fuse::Add || c.fuse == Fuse::Sub {
        for i in 0..n {
            for j in 0..c.r_size {
                let d = if c.inplace { gen_digit(rng, c.r_b, j, c.r_size, i) as i64 } else { rng.signed_bits(c.r_b.min(40)) };
                res.poly_mut(c.r_col, j)[i] = d;
                if c.inplace {
                    a_limbs[i][j] = d as i128;
                }
            }
        }
    }
    let pre: Vec<Vec<i64>> = (0..n).map(|i| res.coeff_limbs(c.r_col, i)).collect();
    let pre_in: Vec<Vec<i64>> = if c.inplace { vec![vec![0; c.r_size]; n] } else { pre.clone() };
    let res_before = res.snapshot();
    let a_before = a.snapshot();
    let big_before = abig.snapshot();
    let mut sw = ScratchWin::new(scratch_bytes(module));
    sw.fill(rng);
    let r = call(module, c, &mut res, &a, &abig, &mut sw);
    let nontrivial = c.class != "zero";
    rep.case(c.op, &c.key(), nontrivial);
    rep.sample_for_op(&format!("{BE_NAME}:{}", c.op), || c.desc());
    if let Err(p) = r {
        rep.violate(c.op, c.desc(), format!("panic: {p}"));
        return;
    }
    let post: Vec<Vec<i64>> = (0..n).map(|i| res.coeff_limbs(c.r_col, i)).collect();
    judge(c, &a_limbs, &pre_in, &post, rep);
    // nothing else may change: other columns, limbs beyond size, operands, guards
    let after = res.snapshot();
    for col in 0..c.cols {
        for j in 0..res.cap {
            if col == c.r_col && j < c.r_size {
                continue;
            }
            let rg = res.range(col, j);
            if after[rg.clone()] != res_before[rg] {
                rep.violate(c.op, c.desc(), format!("bytes outside the selected column changed: col {col} limb {j} (size {}, capacity {})", c.r_size, res.cap));
                return;
            }
        }
    }
    if a.snapshot() != a_before || abig.snapshot() != big_before {
        rep.violate(c.op, c.desc(), "read-only operand modified".into());
    }
    if !(a.g.guards_intact() && res.g.guards_intact() && abig.g.guards_intact() && sw.g.guards_intact()) {
        rep.violate(c.op, c.desc(), "guard bytes modified".into());
    }
}

fn mk_case(op: &'static str, n: usize, a_b: usize, r_b: usize, a_size: usize, r_size: usize, off: i64, class: &'static str, rng: &mut Rng) -> Case {
    let cols = rng.usize_in(1, 3);
    let inplace = matches!(op, "normalize_assign" | "lsh_assign" | "rsh_assign");
    Case {
        op,
        n,
        a_b,
        r_b,
        a_size: if inplace { r_size } else { a_size },
        r_size,
        off,
        fuse: fuse_of(op),
        inplace,
        big: op.starts_with("big_"),
        cols,
        a_col: if inplace { 0 } else { rng.usize_in(0, cols - 1) },
        r_col: rng.usize_in(0, cols - 1),
        class,
    }
}

const CLASSES: &[&str] = &["uniform", "uniform", "maxpos", "maxneg", "alternate", "ripple", "ripple_neg", "sparse", "zero", "headroom"];

pub fn run(cfg: &Cfg, rep: &mut Report) {
    let mut rng = cfg.rng(&format!("c08-{BE_NAME}"));
    if cfg.mode == "encode" {
        return run_encoding(cfg, rep, &mut rng);
    }
    if cfg.mode != "random" {
        run_small_scope(cfg, rep, &mut rng);
    }
    if cfg.mode == "small" {
        return;
    }
    run_encoding(cfg, rep, &mut rng);
    let total = cfg.budget(3_000_000, 80_000_000) / 4;
    let n = 4usize;
    let module = new_module(n);
    for _ in 0..total {
        let big = rng.below(4) == 0;
        let op = if big { *rng.pick(BIG_OPS) } else { *rng.pick(SMALL_OPS) };
        let cross = op.ends_with("_cross") || (big && rng.below(3) == 0);
        let maxb = if big && BIG_BYTES == 8 { 50 } else { 62 };
        let r_b = match rng.below(5) {
            0 => *rng.pick(&[1usize, 2, 3, 17, 50, 52, 60, 61, 62]),
            _ => rng.usize_in(1, 62),
        };
        let a_b = if cross { rng.usize_in(1, maxb) } else { r_b.min(maxb) };
        let r_b = if cross { r_b } else { a_b };
        let a_size = rng.usize_in(1, 6);
        let r_size = rng.usize_in(1, 6);
        let a_bits = (a_size * a_b) as i64;
        let span = a_bits + 2 * a_b.max(r_b) as i64;
        let mut off = match rng.below(6) {
            0 => (rng.i64_in(-(a_size as i64 + 2), a_size as i64 + 2)) * a_b as i64,
            1 => (rng.i64_in(-(a_size as i64 + 2), a_size as i64 + 2)) * a_b as i64 + *rng.pick(&[-1i64, 1]),
            _ => rng.i64_in(-span, span),
        };
        match op {
            "normalize_assign" => off = 0,
            "lsh" | "lsh_assign" | "lsh_add_into" | "lsh_sub" => off = off.abs(),
            "rsh" | "rsh_assign" | "rsh_add_into" | "rsh_sub" => off = -off.abs(),
            _ => {}
        }
        let class = *rng.pick(CLASSES);
        // the big accumulator of FFT64 is an i64: keep headroom inputs representable
        let c = mk_case(op, n, a_b, r_b, a_size, r_size, off, class, &mut rng);
        run_case(&module, &c, &mut rng, rep, None);
    }
}

/// exhaustive small scope: radix <= bmax, sizes <= 3, every digit vector over [-2^b, 2^b], every offset
fn run_small_scope(cfg: &Cfg, rep: &mut Report, rng: &mut Rng) {
    let bmax = if cfg.thorough { 4 } else { 3 };
    let smax = if cfg.thorough { 3 } else { 3 };
    let n = 64usize;
    let module = new_module(n);
    let mut idx = 0u64;
    let mut cases = 0u64;
    for a_b in 1..=bmax {
        for r_b in 1..=bmax {
            for a_size in 1..=smax {
                let vals: i128 = 2 * (1i128 << a_b) + 1; // digits in [-2^b, 2^b]
                let total: i128 = vals.pow(a_size as u32);
                if total > 200_000 {
                    continue;
                }
                for r_size in 1..=smax {
                    let span = (a_size * a_b + 2 * a_b.max(r_b)) as i64;
                    for off in -span..=span {
                        for &op in SMALL_OPS.iter().chain(BIG_OPS.iter()) {
                            let cross = a_b != r_b;
                            let takes_cross = matches!(op, "normalize_cross" | "big_normalize_cross" | "big_normalize_add_assign" | "big_normalize_sub_assign" | "big_normalize_negate");
                            if cross && !takes_cross {
                                continue;
                            }
                            if !cross && (op == "normalize_cross" || op == "big_normalize_cross") {
                                continue;
                            }
                            let off = match op {
                                "normalize_assign" => {
                                    if off != 0 { continue } else { 0 }
                                }
                                "lsh" | "lsh_assign" | "lsh_add_into" | "lsh_sub" => {
                                    if off < 0 { continue } else { off }
                                }
                                "rsh" | "rsh_assign" | "rsh_add_into" | "rsh_sub" => {
                                    if off > 0 { continue } else { off }
                                }
                                _ => off,
                            };
                            idx += 1;
                            if idx % cfg.nshards != cfg.shard {
                                continue;
                            }
                            let mut c = mk_case(op, n, a_b, r_b, a_size, r_size, off, "enumerated", rng);
                            if c.inplace && a_size != r_size {
                                continue;
                            }
                            // enumerate all digit vectors, 64 per call
                            let mut base: i128 = 0;
                            while base < total {
                                let b0 = base;
                                let f = move |i: usize, j: usize| -> i128 {
                                    let v = (b0 + i as i128) % total;
                                    let mut t = v;
                                    for _ in 0..j {
                                        t /= vals;
                                    }
                                    (t % vals) - (1i128 << a_b)
                                };
                                c.class = "enumerated";
                                run_case(&module, &c, rng, rep, Some(&f));
                                cases += n as u64;
                                base += n as i128;
                            }
                        }
                    }
                }
            }
        }
    }
    rep.count("small_scope_digit_vectors", cases as i128);
    rep.count("small_scope_complete", 1);
    rep.extra.push((format!("x_small_scope_{BE_NAME}"), jo! {"bmax" => bmax, "max_size" => smax, "digit_vectors_checked" => cases}));
}

// ---------------------------------------------------------------------------------------------
// integer encoding / decoding
// ---------------------------------------------------------------------------------------------
fn run_encoding(cfg: &Cfg, rep: &mut Report, rng: &mut Rng) {
    if BE_NAME != "fft64ref" {
        return; // encoding is backend independent (host-side code on VecZnx)
    }
    let total = cfg.budget(400_000, 10_000_000);
    // grid part: every (b, k) with 2 <= b <= 62, k in 1..=size*b for a few sizes (sharded), boundary values
    let mut idx = 0u64;
    for b in 2..=62usize {
        for size in [1usize, 2, 3, 4] {
            for k in 1..=(size * b) {
                idx += 1;
                if idx % cfg.nshards != cfg.shard {
                    continue;
                }
                if !cfg.thorough && idx % 3 != 0 && !(k < b || k % b == 0 || k == size * b || k % b == 1 || k % b == b - 1) {
                    continue;
                }
                encode_case(rep, rng, b, size, k, true);
            }
        }
    }
    rep.count("encode_grid_complete", 1);
    for _ in 0..total {
        let b = rng.usize_in(2, 62);
        let size = rng.usize_in(1, 6);
        let k = rng.usize_in(1, size * b);
        encode_case(rep, rng, b, size, k, false);
    }
}

fn encode_case(rep: &mut Report, rng: &mut Rng, b: usize, size: usize, k: usize, grid: bool) {
    let n = 8usize;
    let cols = rng.usize_in(1, 3);
    let col = rng.usize_in(0, cols - 1);
    let need = k.div_ceil(b);
    let vsize = size.max(need) + rng.usize_in(0, 1);
    let wide = rng.coin();
    let form = *rng.pick(&["vec", "vec", "coeff"]);
    let op: &'static str = match (form, wide) {
        ("vec", false) => "encode_vec_i64",
        ("vec", true) => "encode_vec_i128",
        _ => "encode_coeff_i64",
    };
    let maxbits = if op == "encode_vec_i128" { 126 } else { 62 };
    // values: boundaries of the balanced range, small values, random
    let kk = k.min(maxbits);
    let mut vals: Vec<i128> = (0..n)
        .map(|i| match (i + rng.below(3) as usize) % 8 {
            0 => (1i128 << (kk - 1)) - 1,
            1 => -(1i128 << (kk - 1)),
            2 => {
                if kk >= 2 { (1i128 << (kk - 2)) - 1 } else { 0 }
            }
            3 => {
                if kk >= 2 { -(1i128 << (kk - 2)) + 1 } else { 0 }
            }
            4 => 1i128 << (kk - 1),
            5 => -1,
            _ => {
                let hi = rng.signed_bits(kk.min(63)) as i128;
                if kk > 63 { (hi << (kk - 63)) | (rng.next_u64() as i128 & ((1i128 << (kk - 63)) - 1)) } else { hi }
            }
        })
        .collect();
    let desc = jo! {"op" => op, "base2k" => b, "k" => k, "size" => vsize, "cols" => cols, "col" => col, "grid" => grid};
    let key = format!("{op}|{b}|{k}|{vsize}|{cols}{col}");
    let mut v = VBuf::new(n, cols, vsize, vsize);
    v.fill_garbage(rng);
    let before = v.snapshot();
    let idx = rng.usize_in(0, n - 1);
    if op == "encode_coeff_i64" {
        // start from a properly encoded column so that the untouched coefficients stay decodable
        let d: Vec<i64> = vals.iter().map(|x| *x as i64).collect();
        v.view().encode_vec_i64(b, col, k, &d);
        vals[idx] = if kk >= 2 { rng.signed_bits(kk.min(62)) as i128 } else { -1 };
    }
    let before = v.snapshot();
    let r = guarded(|| {
        let mut view = v.view();
        match op {
            "encode_vec_i64" => {
                let d: Vec<i64> = vals.iter().map(|x| *x as i64).collect();
                view.encode_vec_i64(b, col, k, &d)
            }
            "encode_vec_i128" => view.encode_vec_i128(b, col, k, &vals),
            _ => view.encode_coeff_i64(b, col, k, idx, vals[idx] as i64),
        }
    });
    rep.case(op, &key, true);
    rep.sample_for_op(op, || desc.clone());
    if let Err(p) = r {
        rep.violate(op, desc, format!("panic: {p}"));
        return;
    }
    let after = v.snapshot();
    // other columns untouched; for the single-coefficient form the other coefficients too
    for c in 0..cols {
        for j in 0..vsize {
            let rg = v.range(c, j);
            if c != col {
                if after[rg.clone()] != before[rg] {
                    rep.violate(op, desc, format!("column {c} (not the target) modified at limb {j}"));
                    return;
                }
            } else if op == "encode_coeff_i64" {
                for i in 0..n {
                    if i != idx && after[rg.start + 8 * i..rg.start + 8 * i + 8] != before[rg.start + 8 * i..rg.start + 8 * i + 8] {
                        rep.violate(op, desc, format!("coefficient {i} (not the target {idx}) modified at limb {j}"));
                        return;
                    }
                }
            }
        }
    }
    let w = vsize * b + 8;
    let coeffs: Vec<usize> = (0..n).collect();
    for &i in &coeffs {
        let limbs = v.coeff_limbs(col, i);
        // value on the torus must be v * 2^-k
        let got = limbs_value_i64(&limbs, b, w);
        let want = big(vals[i]) << (w - k);
        if centre(&(got - want), w) != big(0) {
            rep.violate(op, desc, format!("coefficient {i}: limbs {limbs:?} do not represent {} * 2^-{k}", vals[i]));
            return;
        }
        let (lo, hi) = (-(1i64 << (b - 1)), 1i64 << (b - 1));
        if limbs.iter().any(|x| *x < lo || *x >= hi) {
            rep.violate(op, desc, format!("coefficient {i}: encoded digits not normalised: {limbs:?}"));
            return;
        }
    }
    // decode at the same precision
    let m = pow2(k);
    let fits_small = |x: i128| k >= 2 && x.unsigned_abs() < (1u128 << (k - 2).min(126));
    if k <= 62 {
        let mut out = vec![0i64; n];
        let r = guarded(|| v.rview().decode_vec_i64(b, col, k, &mut out));
        rep.case("decode_vec_i64", &key, true);
        if let Err(p) = r {
            rep.violate("decode_vec_i64", desc.clone(), format!("panic: {p}"));
            return;
        }
        for &i in &coeffs {
            let d = (big(out[i] as i128) - big(vals[i])) % &m;
            if d != big(0) || (fits_small(vals[i]) && out[i] as i128 != vals[i]) {
                rep.violate("decode_vec_i64", desc.clone(), format!("coefficient {i}: encoded {} decoded {} (k={k})", vals[i], out[i]));
                return;
            }
            let one = guarded(|| v.rview().decode_coeff_i64(b, col, k, i));
            match one {
                Ok(x) if x == out[i] => {}
                Ok(x) => {
                    rep.violate("decode_coeff_i64", desc.clone(), format!("coefficient {i}: decode_coeff {} != decode_vec {}", x, out[i]));
                    return;
                }
                Err(p) => {
                    rep.violate("decode_coeff_i64", desc.clone(), format!("panic: {p}"));
                    return;
                }
            }
        }
    }
    if k <= 126 {
        let mut out = vec![0i128; n];
        let r = guarded(|| v.rview().decode_vec_i128(b, col, k, &mut out));
        rep.case("decode_vec_i128", &key, true);
        if let Err(p) = r {
            rep.violate("decode_vec_i128", desc.clone(), format!("panic: {p}"));
            return;
        }
        for &i in &coeffs {
            let d = (big(out[i]) - big(vals[i])) % &m;
            if d != big(0) || (fits_small(vals[i]) && out[i] != vals[i]) {
                rep.violate("decode_vec_i128", desc.clone(), format!("coefficient {i}: encoded {} decoded {} (k={k})", vals[i], out[i]));
                return;
            }
        }
    }
    // arbitrary precision decoding equals the exact rational value of the limbs
    {
        use dashu_float::{FBig, round::mode::HalfEven};
        let mut out: Vec<FBig<HalfEven>> = vec![FBig::<HalfEven>::ZERO; n];
        let r = guarded(|| v.rview().decode_vec_float(b, col, &mut out));
        rep.case("decode_vec_float", &key, true);
        if let Err(p) = r {
            rep.violate("decode_vec_float", desc.clone(), format!("panic: {p}"));
            return;
        }
        let wf = vsize * b;
        for i in 0..n {
            let limbs = v.coeff_limbs(col, i);
            let exact = limbs_value_i64(&limbs, b, wf); // value * 2^wf
            // out[i] * 2^wf must equal `exact` (tolerance 2^-200 relative to one unit)
            let scaled = out[i].clone() << (wf as isize);
            let diff = scaled - FBig::<HalfEven>::from(exact.clone());
            let tiny = FBig::<HalfEven>::from(1) >> 200isize;
            let absd = if diff < FBig::<HalfEven>::ZERO { -diff } else { diff };
            if absd > tiny {
                rep.violate("decode_vec_float", desc.clone(), format!("coefficient {i}: limbs {limbs:?} decoded to {} (exact value*2^{wf} = {exact})", out[i]));
                return;
            }
        }
    }
}
