// C18 — serialisation round-trips, and rejects damaged input without corruption.
// Technique: fault enumeration over the byte stream of every serialisable type. The oracle is independent of the
// reader under test: (a) a model of the wire format (c18_grammar.rs), (b) the receiver's state before the read,
// (c) arithmetic on the receiver's dimensions in u128, (d) the exit status of child processes / ASan.
//
// Modes (`--mode`):
//   ""            rel / dbg: everything in-process under catch_unwind; receivers whose invariants are broken are
//                 never touched; header values that size an allocation run in a child with RLIMIT_AS
//   asan-touch    (ASan build) finds the cases that leave a receiver with broken invariants and re-runs each one in
//                 its own child (`asan-one`) where the buffers ARE touched, so that ASan observes the access
//   asan-one      one case (`--case unit:value:family`), touching the receiver whatever its state
//   child         one allocation-sizing case (`--case unit:value:family`) under RLIMIT_AS

use std::collections::BTreeMap;

use poulpy_bin_fhe::bdd_arithmetic::{BDDKey, BDDKeyLayout};
use poulpy_bin_fhe::blind_rotation::{BlindRotationKey, BlindRotationKeyCompressed, BlindRotationKeyLayout, CGGI};
use poulpy_bin_fhe::circuit_bootstrapping::{CircuitBootstrappingKey, CircuitBootstrappingKeyLayout};
use poulpy_core::layouts::*;
use poulpy_core::{Distribution, GetDistributionMut};
use poulpy_hal::layouts::{DataView, FillUniform, MatZnx, ReaderFrom, ScalarZnx, VecZnx, WriterTo, ZnxInfos, ZnxView, ZnxViewMut};
use poulpy_hal::source::Source;
use util::{Cfg, J, Report, Rng, fnv, guarded};

include!("../c18_grammar.rs");
include!("../c18_subjects.rs");

// ---------------------------------------------------------------------------------------------------
#[derive(Clone, Copy, PartialEq, Eq, Debug)]
enum Src {
    Api,       // alloc + fill through the public API
    ApiShrunk, // same, then the active limb count set below the capacity (stream has max_size > size)
    Synth,     // stream synthesised from the grammar: random payloads, seeds, free scalars, distribution
}
impl Src {
    fn name(self) -> &'static str {
        match self {
            Src::Api => "api",
            Src::ApiShrunk => "api_shrunk",
            Src::Synth => "synth",
        }
    }
}

#[derive(Clone, Copy, PartialEq, Eq, Debug)]
enum Rk {
    Same,    // capacity = the source's capacity
    Exact,   // capacity = the source's ACTIVE size (differs from Same only for shrunk sources)
    Larger,  // two more limbs
    Shrunk,  // source's capacity, active size 1
    Smaller, // one limb less than the source's active size: insufficient
    /// a re-used object of another shape with the byte capacity of the source's active size: half the ring degree, twice the limbs
    /// (the reader may accept or reject it; whatever it does, the receiver must stay consistent with its buffer)
    Reshaped,
}
const RKS: [Rk; 6] = [Rk::Same, Rk::Exact, Rk::Larger, Rk::Shrunk, Rk::Smaller, Rk::Reshaped];
impl Rk {
    fn name(self) -> &'static str {
        match self {
            Rk::Same => "same",
            Rk::Exact => "exact",
            Rk::Larger => "larger",
            Rk::Shrunk => "shrunk",
            Rk::Smaller => "smaller",
            Rk::Reshaped => "reshaped",
        }
    }
}

#[derive(Clone, Copy, PartialEq, Eq, Debug)]
enum Mode {
    Normal,
    AsanTouch,
    AsanOne,
    Child,
}

#[derive(Clone, Debug)]
enum Outcome {
    Ok(usize),
    Err(String, usize), // message, bytes the reader had consumed when it gave up
    Panic(String, usize), // message, bytes consumed when it panicked
}
impl Outcome {
    fn short(&self) -> String {
        match self {
            Outcome::Ok(c) => format!("ok(consumed={c})"),
            Outcome::Err(e, _) => format!("err({})", e.chars().take(100).collect::<String>()),
            Outcome::Panic(p, _) => format!("panic({})", p.chars().take(160).collect::<String>()),
        }
    }
    fn tag(&self) -> &'static str {
        match self {
            Outcome::Ok(_) => "ok",
            Outcome::Err(..) => "err",
            Outcome::Panic(..) => "panic",
        }
    }
}

#[derive(Clone, Copy, PartialEq, Eq)]
enum Expect {
    MustOk,
    MustErr,
    Either,
}

/// a receiver seen through its own re-serialisation
struct Obs {
    bytes: Vec<u8>,
    parsed: Option<Parsed>,
    err: Option<String>,
    direct_mismatch: Option<String>,
}

fn observe<T: Subject>(x: &T) -> Obs {
    let mut bytes = Vec::new();
    let r = guarded(|| x.w(&mut bytes));
    let mut o = Obs { bytes: Vec::new(), parsed: None, err: None, direct_mismatch: None };
    match r {
        Err(p) => o.err = Some(format!("write_to panicked: {p}")),
        Ok(Err(e)) => o.err = Some(format!("write_to failed: {e}")),
        Ok(Ok(())) => match parse(T::grammar(), &bytes) {
            Ok(p) => {
                if let Some(d) = x.direct() {
                    for (i, dl) in d.iter().enumerate() {
                        if i >= p.leaves.len() || p.leaves[i].dims != dl.dims {
                            o.direct_mismatch =
                                Some(format!("leaf {i}: fields {:?} but written header {:?}", dl.dims, p.leaves.get(i).map(|l| l.dims.clone())));
                        }
                    }
                }
                o.parsed = Some(p);
            }
            Err(e) => o.err = Some(format!("written stream does not follow the documented format: {e}")),
        },
    }
    o.bytes = bytes;
    o
}

fn prod128(xs: &[u64]) -> Option<u128> {
    let mut p: u128 = 1;
    for x in xs {
        p = p.checked_mul(*x as u128)?;
    }
    Some(p)
}

/// bytes implied by the dimensions of a leaf (None = beyond u128), using `size_like` for the limb count
fn leaf_bytes(l: &Leaf, use_max: bool) -> Option<u128> {
    let d = &l.dims;
    let p = match l.kind {
        LK::Vec => prod128(&[d[0], d[1], if use_max { d[3] } else { d[2] }]),
        LK::Scalar => prod128(&[d[0], d[1]]),
        LK::Mat => prod128(&[d[0], d[1], d[2], d[3], d[4]]),
    }?;
    p.checked_mul(8)
}

/// buffer length of every leaf of a freshly allocated object: the library pads each allocation to a multiple of
/// 64 bytes (`alloc_aligned`); cross-checked against `data.len()` for the types whose buffers are reachable
fn capacities(p: &Parsed) -> Vec<u128> {
    p.leaves.iter().map(|l| leaf_bytes(l, true).unwrap_or(u128::MAX).next_multiple_of(64)).collect()
}

#[derive(Default)]
struct Inv {
    broken: Vec<String>,
    maxsize_only: bool,
    overflow: bool,
    seed_only: bool,
}

fn check_inv(post: &Parsed, caps: &[u128], seeds_tied: bool) -> Inv {
    let mut inv = Inv::default();
    let mut size_broken = false;
    let mut max_broken = false;
    let mut seed_broken = false;
    if post.leaves.len() != caps.len() {
        inv.broken.push(format!("{} buffers before, {} after", caps.len(), post.leaves.len()));
        return inv;
    }
    for (l, cap) in post.leaves.iter().zip(caps) {
        let a = leaf_bytes(l, false);
        match a {
            Some(a) if a <= *cap => {}
            _ => {
                size_broken = true;
                if a.is_none_or(|a| a >= 1u128 << 64) {
                    inv.overflow = true;
                }
                inv.broken.push(format!("{}: dims {:?} need {} bytes > buffer {}", l.path, l.dims, a.map(|a| a.to_string()).unwrap_or("2^128+".into()), cap));
            }
        }
        if l.kind == LK::Vec {
            if l.dims[2] > l.dims[3] {
                max_broken = true;
                inv.broken.push(format!("{}: size {} > max_size {}", l.path, l.dims[2], l.dims[3]));
            }
            let m = leaf_bytes(l, true);
            match m {
                Some(m) if m <= *cap => {}
                _ => {
                    max_broken = true;
                    inv.broken.push(format!(
                        "{}: n*cols*max_size*8 = {} > buffer {} (n={} cols={} max_size={})",
                        l.path,
                        m.map(|a| a.to_string()).unwrap_or("2^128+".into()),
                        cap,
                        l.dims[0],
                        l.dims[1],
                        l.dims[3]
                    ));
                }
            }
        }
        if seeds_tied {
            if let Some(fi) = l.seed_field {
                let want = prod128(&[l.dims[2], l.dims[3]]);
                if want != Some(post.fields[fi].val as u128) {
                    seed_broken = true;
                    inv.broken.push(format!("{}: {} seeds but rows*cols_in = {}*{}", l.path, post.fields[fi].val, l.dims[2], l.dims[3]));
                }
            }
        }
    }
    inv.maxsize_only = max_broken && !size_broken && !seed_broken;
    inv.seed_only = seed_broken && !size_broken && !max_broken;
    inv
}

fn seeds_tied(p: &Parsed) -> bool {
    p.leaves.iter().all(|l| match l.seed_field {
        Some(fi) => prod128(&[l.dims[2], l.dims[3]]) == Some(p.fields[fi].val as u128),
        None => true,
    })
}

fn jlist(v: &[String]) -> J {
    J::A(v.iter().map(|s| J::S(s.clone())).collect())
}

// ---------------------------------------------------------------------------------------------------
struct Ctx<'a> {
    cfg: &'a Cfg,
    rep: &'a mut Report,
    mode: Mode,
    unit: u64,
    only_unit: Option<u64>,
    only_val: Option<(u64, u64)>, // (value index, family)
    only_type: Option<(u64, u64)>, // (type index, first unit of that type): lets a child skip the other types
    type_idx: u64,
    type_base: u64,
    emitted: BTreeMap<String, u32>,
    asan_seen: BTreeMap<String, u32>,
    asan_children: u32,
    full_sweep_max: usize,
}

impl<'a> Ctx<'a> {
    fn take_unit(&mut self) -> Option<u64> {
        let u = self.unit;
        self.unit += 1;
        let mine = match self.only_unit {
            Some(t) => u == t,
            // hashed, so that the periodic structure of the grid (1 + #fields units per block) does not load shards unevenly
            None => (u.wrapping_mul(0x9e3779b97f4a7c15) >> 32) % self.cfg.nshards == self.cfg.shard,
        };
        if mine { Some(u) } else { None }
    }
    fn emit(&mut self, class: &str, ty: &str, mut desc: J, detail: String) {
        let op = format!("{class}:{ty}");
        desc.put("class", class);
        let c = self.emitted.entry(op.clone()).or_insert(0);
        *c += 1;
        self.rep.count(&format!("viol:{class}"), 1);
        if *c <= 3 {
            self.rep.violate(&op, desc, detail);
        } else {
            self.rep.violation_count += 1;
            self.rep.count("violations_not_itemised", 1);
        }
    }
}

/// one finding of `judge`
struct Finding {
    class: String,
    detail: String,
}

struct Verdict {
    findings: Vec<Finding>,
    pristine: bool, // receiver metadata identical to before the read
    broken: bool,   // invariants broken
    post_meta: Vec<(String, u64)>,
}

fn panic_class(msg: &str) -> &'static str {
    if msg.contains("overflow") && (msg.contains("multiply") || msg.contains("add") || msg.contains("subtract")) {
        "header_product_overflow"
    } else if msg.contains("capacity overflow") || msg.contains("alloc") {
        "panic_allocation"
    } else {
        "panic_in_read_from"
    }
}

/// Decide what the property says about one read of `fed` (the bytes given to the reader).
fn judge<T: Subject>(
    recv: &mut T,
    outcome: &Outcome,
    pre: &Parsed,
    caps: &[u128],
    tied: bool,
    fed: &[u8],
    expect: Expect,
    accept_name: &str,
    touch: bool,
    force_touch: bool,
) -> Verdict {
    let mut f: Vec<Finding> = Vec::new();
    let post = observe(recv);
    let mut v = Verdict { findings: Vec::new(), pristine: false, broken: false, post_meta: Vec::new() };
    match outcome {
        Outcome::Panic(p, _) => f.push(Finding { class: panic_class(p).into(), detail: format!("read_from panicked: {p}") }),
        Outcome::Err(e, _) => {
            if expect == Expect::MustOk {
                f.push(Finding { class: "valid_stream_rejected".into(), detail: format!("read_from failed on a valid stream: {e}") });
            }
        }
        Outcome::Ok(_) => {
            if expect == Expect::MustErr {
                f.push(Finding { class: accept_name.into(), detail: "read_from returned Ok".into() });
            }
        }
    }
    if let Some(m) = &post.direct_mismatch {
        f.push(Finding { class: "writer_header_mismatch".into(), detail: m.clone() });
    }
    let Some(pp) = &post.parsed else {
        let e = post.err.clone().unwrap_or_default();
        let class = if e.contains("overflow") { "header_product_overflow" } else { "dims_inconsistent_with_buffer" };
        f.push(Finding { class: class.into(), detail: format!("after {} the receiver can no longer be serialised: {e}", outcome.tag()) });
        v.broken = true;
        v.findings = f;
        return v;
    };
    // Which objects of the stream had been read completely when the reader gave up? The format model walks the
    // bytes that were fed; an object is complete when it ends before the reader's position (for an end-of-input
    // error: at or before it, since everything before the end had been accepted).
    let (consumed, eof) = match outcome {
        Outcome::Err(e, c) => (*c, e.contains("failed to fill whole buffer")),
        Outcome::Panic(_, c) => (*c, false),
        _ => (0, false),
    };
    let fed_parsed = parse_partial(T::grammar(), fed);
    let post_meta = pp.meta();
    let pre_meta = pre.meta();
    v.pristine = post_meta == pre_meta;
    // ---- invariants (either outcome)
    let inv = check_inv(pp, caps, tied && matches!(outcome, Outcome::Ok(_)));
    if !inv.broken.is_empty() {
        v.broken = true;
        let class = if inv.overflow {
            "header_product_overflow"
        } else if inv.maxsize_only {
            "vec_znx_max_size_unchecked"
        } else if inv.seed_only {
            "seed_count_inconsistent"
        } else {
            "dims_inconsistent_with_buffer"
        };
        f.push(Finding { class: class.into(), detail: format!("after {}: {}", outcome.tag(), inv.broken.join("; ")) });
    }
    // ---- metadata unchanged on failure
    if !matches!(outcome, Outcome::Ok(_)) && !v.pristine {
        let mut by_class: BTreeMap<&'static str, Vec<String>> = BTreeMap::new();
        if post_meta.len() != pre_meta.len() {
            by_class.entry("wrapper_metadata_changed_on_error").or_default().push(format!("{} header fields before, {} after", pre_meta.len(), post_meta.len()));
        } else {
            for (i, ((n0, v0), (_n1, v1))) in pre_meta.iter().zip(post_meta.iter()).enumerate() {
                if v0 == v1 {
                    continue;
                }
                let role = pp.fields[i].role;
                let is_leaf = pp.fields[i].leaf != usize::MAX;
                let completed = fed_parsed
                    .fields
                    .iter()
                    .find(|sf| &sf.name == n0)
                    .and_then(|sf| fed_parsed.scopes.get(sf.scope))
                    .map(|sc| sc.1 != usize::MAX && if eof { sc.1 <= consumed } else { sc.1 < consumed })
                    .unwrap_or(false);
                let class = if completed {
                    "container_partial_commit"
                } else if role == Role::SeedCount {
                    "seed_len_unchecked_alloc"
                } else if is_leaf {
                    "leaf_metadata_changed_on_error"
                } else {
                    "wrapper_metadata_changed_on_error"
                };
                by_class.entry(class).or_default().push(format!("{n0}:{v0}->{v1}"));
            }
        }
        for (class, ch) in by_class {
            let extra = if class == "seed_len_unchecked_alloc" { " (seed vector re-allocated from the stream's count before validation)" } else { "" };
            f.push(Finding { class: class.into(), detail: format!("{} left changed metadata{extra}: {}", outcome.tag(), ch.join(", ")) });
        }
    }
    // ---- seeds unchanged on failure: a compressed object whose read failed must not pair its old bodies with the
    // stream's mask seeds. Decided only when the header fields are unchanged (same structure before and after);
    // seeds of a sub-object that had been read completely are the container's partial commit (F6b), as above.
    if !matches!(outcome, Outcome::Ok(_)) && v.pristine && pp.seed_vals.len() == pre.seed_vals.len() {
        let mut own = 0usize;
        let mut part = 0usize;
        for ((sc0, s0), (_sc1, s1)) in pre.seed_vals.iter().zip(pp.seed_vals.iter()) {
            if s0 == s1 {
                continue;
            }
            let path = pre.scopes.get(*sc0).map(|sc| sc.2.clone());
            let completed = path
                .and_then(|p| fed_parsed.scopes.iter().find(|sc| sc.2 == p))
                .map(|sc| sc.1 != usize::MAX && if eof { sc.1 <= consumed } else { sc.1 < consumed })
                .unwrap_or(false);
            if completed {
                part += 1;
            } else {
                own += 1;
            }
        }
        if own > 0 {
            f.push(Finding {
                class: "seed_changed_on_error".into(),
                detail: format!("{} left the header fields unchanged but overwrote {own} of {} mask seeds of an object that was not read completely", outcome.tag(), pre.seed_vals.len()),
            });
        }
        if part > 0 {
            f.push(Finding { class: "container_partial_commit".into(), detail: format!("{} left {part} seeds of completely read sub-objects changed", outcome.tag()) });
        }
    }
    // ---- exercise
    if (touch && !v.broken) || force_touch {
        let r = guarded(|| recv.touch());
        if let Err(p) = r {
            if !v.broken {
                f.push(Finding { class: "panic_in_accessor_after_read".into(), detail: format!("invariants hold but an accessor panicked: {p}") });
            }
        }
        // a second serialisation must still work
        if !v.broken {
            let again = observe(recv);
            if again.bytes != post.bytes {
                f.push(Finding { class: "accessors_changed_receiver".into(), detail: "re-serialisation differs after read-only accessors".into() });
            }
        }
    }
    v.post_meta = post_meta;
    v.findings = f;
    v
}

/// in-memory reader whose position survives a panic of the code that reads from it
struct CountingReader<'a> {
    b: &'a [u8],
    pos: usize,
}
impl<'a> std::io::Read for CountingReader<'a> {
    fn read(&mut self, buf: &mut [u8]) -> std::io::Result<usize> {
        let n = buf.len().min(self.b.len() - self.pos);
        buf[..n].copy_from_slice(&self.b[self.pos..self.pos + n]);
        self.pos += n;
        Ok(n)
    }
}

fn do_read<T: Subject>(recv: &mut T, bytes: &[u8]) -> Outcome {
    let mut r = CountingReader { b: bytes, pos: 0 };
    let res = guarded(|| recv.r(&mut r));
    match res {
        Err(p) => Outcome::Panic(p, r.pos),
        Ok(Err(e)) => Outcome::Err(e.to_string(), r.pos),
        Ok(Ok(())) => Outcome::Ok(r.pos),
    }
}

// ---------------------------------------------------------------------------------------------------
struct Source_<T> {
    orig: T,
    stream: Vec<u8>,
    parsed: Parsed,
    size: usize, // active limb count of the source
    lossy_dist: bool,
}

fn src_rng(seed: u64, name: &str, si: usize, tag: &str) -> Rng {
    Rng::new(seed.wrapping_mul(0x9e3779b97f4a7c15), fnv(&format!("c18-{name}-{si}-{tag}")))
}

fn build_source<T: Subject>(seed: u64, si: usize, sh: &Shape, src: Src) -> Result<Option<Source_<T>>, String> {
    let mut rng = src_rng(seed, T::NAME, si, "src");
    let mut orig = guarded(|| T::alloc(sh, false)).map_err(|p| format!("alloc panicked: {p}"))?;
    let filled = orig.fill(&mut rng);
    let mut size = sh.limbs;
    match src {
        Src::Api => {
            if !filled {
                return Ok(None);
            }
        }
        Src::ApiShrunk => {
            if !filled || !T::SHRINKABLE || sh.limbs < 2 {
                return Ok(None);
            }
            size = sh.limbs - 1;
            orig.shrink(size);
        }
        Src::Synth => {}
    }
    let o = observe(&orig);
    let Some(parsed) = o.parsed else {
        return Err(format!("source object: {}", o.err.unwrap_or_default()));
    };
    if let Some(m) = o.direct_mismatch {
        return Err(format!("writer_header_mismatch: {m}"));
    }
    let mut stream = o.bytes;
    let mut lossy = false;
    if src == Src::Synth {
        for (off, len, _k) in &parsed.regions {
            rng.fill_bytes(&mut stream[*off..*off + *len]);
        }
        for f in &parsed.fields {
            let v: Option<u64> = match f.role {
                Role::Free => Some(if f.w == 8 { rng.next_u64() } else { rng.below(1 << 16) }),
                Role::Dist => Some(dist_word(&random_dist(&mut rng))),
                _ => None,
            };
            if let Some(v) = v {
                stream[f.off..f.off + f.w].copy_from_slice(&v.to_le_bytes()[..f.w]);
            }
        }
        let mut o2 = guarded(|| T::alloc(sh, false)).map_err(|p| format!("alloc panicked: {p}"))?;
        match do_read(&mut o2, &stream) {
            Outcome::Ok(c) if c == stream.len() => {}
            other => return Err(format!("valid synthesised stream not accepted by a fresh object of the same layout: {}", other.short())),
        }
        let parsed2 = parse(T::grammar(), &stream).map_err(|e| format!("harness: synthesised stream unparsable: {e}"))?;
        return Ok(Some(Source_ { orig: o2, stream, parsed: parsed2, size, lossy_dist: false }));
    }
    for f in &parsed.fields {
        if f.role == Role::Dist {
            let tag = f.val >> 56;
            if tag == 1 || tag == 3 {
                lossy = true;
            }
        }
    }
    Ok(Some(Source_ { orig, stream, parsed, size, lossy_dist: lossy }))
}

fn recv_shape<T: Subject>(sh: &Shape, src_size: usize, rk: Rk) -> Option<Shape> {
    let mut rs = sh.clone();
    match rk {
        Rk::Same => {}
        Rk::Exact => {
            if src_size == sh.limbs {
                return None;
            }
            rs.limbs = src_size;
        }
        Rk::Larger => rs.limbs += 2,
        Rk::Shrunk => {
            if !T::SHRINKABLE || sh.limbs < 2 {
                return None;
            }
        }
        Rk::Smaller => {
            if src_size < 2 {
                return None;
            }
            rs.limbs = src_size - 1;
        }
        Rk::Reshaped => {
            if sh.n < 4 {
                return None;
            }
            rs.n = sh.n / 2;
            rs.limbs = 2 * src_size;
        }
    }
    if !T::ok(&rs) {
        return None;
    }
    Some(rs)
}

fn make_recv<T: Subject>(seed: u64, si: usize, rs: &Shape, rk: Rk) -> T {
    let mut rng = src_rng(seed, T::NAME, si, &format!("recv-{}", rk.name()));
    let mut r = T::alloc(rs, true);
    r.fill(&mut rng);
    if rk == Rk::Shrunk {
        r.shrink(1);
    }
    r
}

fn base_desc<T: Subject>(cx: &Ctx, si: usize, sh: &Shape, src: Src, rk: Rk, rs: &Shape, unit: u64) -> J {
    jo! {
        "type" => T::NAME, "shape_index" => si, "shape" => sh.desc(), "src" => src.name(), "recv" => rk.name(),
        "recv_limbs" => rs.limbs, "seed" => cx.cfg.seed, "tier" => if cx.cfg.thorough { "thorough" } else { "quick" },
        "unit" => unit, "debug_assertions" => cfg!(debug_assertions)
    }
}

// ---------------------------------------------------------------------------------------------------
// (1) round trip + (2) truncation sweep : one unit per (type, shape, source kind, receiver kind)
// ---------------------------------------------------------------------------------------------------
fn roundtrip_and_truncate<T: Subject>(cx: &mut Ctx, unit: u64, si: usize, sh: &Shape, src: Src, s: &Source_<T>, rk: Rk, rs: &Shape) {
    let seed = cx.cfg.seed;
    let desc0 = base_desc::<T>(cx, si, sh, src, rk, rs, unit);
    let mut recv: T = make_recv(seed, si, rs, rk);
    let pre_obs = observe(&recv);
    let Some(pre) = pre_obs.parsed else {
        cx.rep.inconclusive.push(format!("c18: pristine receiver of {} not observable: {:?}", T::NAME, pre_obs.err));
        return;
    };
    let caps = capacities(&pre);
    if let Some(d) = recv.direct() {
        for (dl, c) in d.iter().zip(&caps) {
            if dl.data_len as u128 != *c {
                cx.rep.inconclusive.push(format!("c18: capacity model wrong for {}: data.len()={} model={}", T::NAME, dl.data_len, c));
                return;
            }
        }
    }
    let tied = seeds_tied(&pre) && seeds_tied(&s.parsed);
    let total = s.stream.len();

    // ---- round trip
    // "sufficient capacity" is decided on the real buffer lengths (padding can make a one-limb-smaller receiver sufficient)
    let sufficient = s.parsed.leaves.len() == caps.len() && s.parsed.leaves.iter().zip(&caps).all(|(l, c)| (l.len as u128) <= *c);
    let expect = if rk == Rk::Reshaped {
        Expect::Either
    } else if sufficient {
        Expect::MustOk
    } else {
        Expect::MustErr
    };
    let out = do_read(&mut recv, &s.stream);
    let key = format!("{si}/{}/{}", src.name(), rk.name());
    cx.rep.case(&format!("roundtrip:{}", T::NAME), &key, sh.n >= 2);
    let v = judge(&mut recv, &out, &pre, &caps, tied, &s.stream, expect, "insufficient_receiver_accepted", true, cx.mode == Mode::AsanOne);
    if cx.mode == Mode::AsanOne {
        println!("C18ONE outcome={} broken={} touched=1", out.tag(), v.broken);
        return;
    }
    if cx.mode == Mode::AsanTouch {
        if v.broken {
            let mut d = desc0.clone();
            d.put("kind", "roundtrip");
            d.put("field", "");
            asan_probe::<T>(cx, &d, unit, 0, &Mutation { family: 9, value: 0, in_child: false }, &v.findings);
        }
        return;
    }
    let mut findings = v.findings;
    if let Outcome::Ok(consumed) = out {
        if consumed != total {
            findings.push(Finding { class: "reader_consumed_wrong_length".into(), detail: format!("consumed {consumed} of {total} bytes") });
        }
        if !v.broken && expect == Expect::MustOk {
            // byte comparison of all fields (max_size only has to be consistent unless the receiver is the same shape)
            let post = observe(&recv);
            let mut a = post.bytes.clone();
            if rk != Rk::Same && a.len() == s.stream.len() {
                for f in &s.parsed.fields {
                    if f.role == Role::MaxSize {
                        a[f.off..f.off + 8].copy_from_slice(&s.stream[f.off..f.off + 8]);
                    }
                }
            }
            if a != s.stream {
                let at = a.iter().zip(&s.stream).position(|(x, y)| x != y).unwrap_or(a.len().min(s.stream.len()));
                let fld = s.parsed.fields.iter().find(|f| f.off <= at && at < f.off + f.w).map(|f| f.name.clone()).unwrap_or("payload".into());
                findings.push(Finding {
                    class: "roundtrip_mismatch".into(),
                    detail: format!("write(read(write(x))) differs from write(x) at byte {at} ({fld}); lengths {} vs {}", a.len(), s.stream.len()),
                });
            } else {
                cx.rep.count("roundtrip_equal", 1);
            }
            if rk == Rk::Same {
                if src == Src::ApiShrunk {
                    // the derived PartialEq compares the whole buffer, including limbs beyond the active size
                    cx.rep.count("partialeq_skipped_inactive_limbs", 1);
                } else if s.lossy_dist {
                    cx.rep.count("partialeq_skipped_lossy_probability", 1);
                } else if let Some(eq) = recv.eqv(&s.orig) {
                    if !eq {
                        findings.push(Finding { class: "roundtrip_partialeq_false".into(), detail: "receiver != original (PartialEq)".into() });
                    } else {
                        cx.rep.count("roundtrip_partialeq_true", 1);
                    }
                }
            }
        }
    }
    if expect == Expect::MustErr && matches!(out, Outcome::Err(..)) {
        cx.rep.count("insufficient_receiver_rejected", 1);
    }
    // the reader must stop exactly at the end of the object: a valid stream followed by other data reads the same
    if expect == Expect::MustOk && matches!(out, Outcome::Ok(_)) && !v.broken {
        let mut longer = s.stream.clone();
        longer.extend_from_slice(&[0xA5u8; 40]);
        let mut r2: T = make_recv(seed, si, rs, rk);
        let o2 = do_read(&mut r2, &longer);
        cx.rep.case(&format!("roundtrip:{}", T::NAME), &format!("{key}/trailing"), sh.n >= 2);
        let same = observe(&r2).bytes == observe(&recv).bytes;
        if !matches!(o2, Outcome::Ok(c) if c == total) || !same {
            findings.push(Finding { class: "reader_consumed_wrong_length".into(), detail: format!("valid stream followed by 40 more bytes: {} (object is {total} bytes), same result: {same}", o2.short()) });
        } else {
            cx.rep.count("trailing_bytes_left_unread", 1);
        }
    }
    for f in findings {
        let mut d = desc0.clone();
        d.put("kind", "roundtrip");
        d.put("outcome", out.short());
        cx.emit(&f.class, T::NAME, d, f.detail);
    }
    cx.rep.sample_for_op(&format!("roundtrip:{}", T::NAME), || {
        let mut d = desc0.clone();
        d.put("kind", "roundtrip");
        d.put("stream_bytes", total);
        d.put("header_fields", s.parsed.fields.len());
        d.put("outcome", out.short());
        d
    });

    if cx.mode != Mode::Normal {
        return;
    }
    // ---- truncation sweep
    let offsets: Vec<usize> = if total <= cx.full_sweep_max {
        cx.rep.count("truncation_full_sweeps", 1);
        (0..total).collect()
    } else {
        cx.rep.count("truncation_structured_sweeps", 1);
        let mut keep = vec![false; total];
        let mut interior = vec![false; total];
        for (off, len, _k) in &s.parsed.regions {
            for i in (*off + 9).min(off + len)..(off + len).saturating_sub(9).max(*off) {
                interior[i] = true;
            }
        }
        for i in 0..total {
            if !interior[i] {
                keep[i] = true;
            }
        }
        let mut rng = src_rng(seed, T::NAME, si, "trunc-sample");
        for (off, len, _k) in &s.parsed.regions {
            if *len > 18 {
                for _ in 0..24 {
                    keep[off + 9 + rng.below((*len - 18) as u64) as usize] = true;
                }
            }
        }
        (0..total).filter(|i| keep[*i]).collect()
    };
    let mut recv: T = make_recv(seed, si, rs, rk);
    let mut dirty = false;
    // class -> (count, first offset, last offset, first detail, first outcome)
    let mut agg: BTreeMap<String, (u64, usize, usize, String, String)> = BTreeMap::new();
    let mut rejected = 0u64;
    let opname = format!("truncate:{}", T::NAME);
    for &t in &offsets {
        if dirty {
            recv = make_recv(seed, si, rs, rk);
            dirty = false;
        }
        let out = do_read(&mut recv, &s.stream[..t]);
        let v = judge(&mut recv, &out, &pre, &caps, tied, &s.stream[..t], Expect::MustErr, "truncated_stream_accepted", true, false);
        if matches!(out, Outcome::Err(..)) {
            rejected += 1;
        }
        if !v.pristine || v.broken {
            dirty = true;
        }
        for f in v.findings {
            let e = agg.entry(f.class.clone()).or_insert((0, t, t, f.detail.clone(), out.short()));
            e.0 += 1;
            e.2 = t;
        }
    }
    // one distinct case per sweep (hashing every offset would make the report files huge); every truncation point
    // is an oracle evaluation
    cx.rep.case(&opname, &format!("{key}/{}offsets", offsets.len()), true);
    let extra = offsets.len().saturating_sub(1) as u64;
    cx.rep.evaluations += extra;
    *cx.rep.per_op.entry(opname.clone()).or_insert(0) += extra;
    cx.rep.count("truncation_points", offsets.len() as i128);
    cx.rep.count("truncations_rejected", rejected as i128);
    for (class, (count, first, last, detail, outcome)) in agg {
        let mut d = desc0.clone();
        d.put("kind", "truncate");
        d.put("stream_bytes", total);
        d.put("offsets_tried", offsets.len());
        d.put("first_offset", first);
        d.put("last_offset", last);
        d.put("offsets_violating", count);
        d.put("outcome", outcome);
        cx.emit(&class, T::NAME, d, format!("truncate@{first}: {detail}"));
    }
}

// ---------------------------------------------------------------------------------------------------
// (3) header-field mutations : one unit per (type, shape, source kind, receiver kind, field)
// ---------------------------------------------------------------------------------------------------
#[derive(Clone, Debug)]
struct Mutation {
    family: u64, // 0 = set, 1 = set + len fix-up, 2 = seed count with seeds inserted/removed
    value: u64,
    in_child: bool,
}

fn mask(w: usize) -> u64 {
    if w >= 8 { u64::MAX } else { (1u64 << (8 * w)) - 1 }
}

fn mutations(p: &Parsed, fi: usize) -> Vec<Mutation> {
    let f = &p.fields[fi];
    let v = f.val;
    let m = mask(f.w);
    let mut vals: Vec<u64> = match f.w {
        8 => vec![0, 1, 2, 1 << 31, (1 << 32) - 1, 1 << 32, 1 << 61, (1 << 61) + 1, 1 << 62, 1 << 63, u64::MAX, v.wrapping_sub(1), v.wrapping_add(1)],
        4 => vec![0, 1, 2, 1 << 16, 1 << 31, (1 << 32) - 1, v.wrapping_sub(1) & m, v.wrapping_add(1) & m],
        _ => vec![0, 1, 2, 255, v ^ 1],
    };
    match f.role {
        Role::Dist => vals.extend([6u64 << 56, 7u64 << 56, 0xFFu64 << 56, v ^ (1 << 56), (1u64 << 56) | 0x3FE0_0000_0000_00, 4u64 << 56]),
        Role::Len => vals.extend([v.wrapping_add(8), v.wrapping_sub(8), v.wrapping_mul(2), v / 2]),
        Role::SeedCount => vals.extend([v + 2, 1 << 20, 1 << 26]),
        Role::Dim => {
            let l = &p.leaves[f.leaf];
            let idx = fi - l.first_field;
            let mut others: Vec<u64> = l.dims.clone();
            others.remove(idx);
            if l.kind == LK::Vec {
                others.remove(2); // max_size (after removing a dim before it, it sits at index 2)
            }
            if let Some(c) = prod128(&others).and_then(|c| c.checked_mul(8)) {
                if c > 0 && c < (1u128 << 64) {
                    let tz = c.trailing_zeros();
                    let d = 1u128 << (64 - tz);
                    if let Ok(x) = u64::try_from(v as u128 + d) {
                        vals.push(x); // the product wraps to the same byte length
                    }
                }
            }
        }
        _ => {}
    }
    let mut out: Vec<Mutation> = Vec::new();
    let mut seen = std::collections::BTreeSet::new();
    for x in vals {
        let x = x & m;
        if x == v || !seen.insert(x) {
            continue;
        }
        let in_child = f.role == Role::SeedCount && x > (1 << 16);
        out.push(Mutation { family: 0, value: x, in_child });
    }
    if f.role == Role::Dim {
        let n0 = out.len();
        for i in 0..n0 {
            out.push(Mutation { family: 1, value: out[i].value, in_child: false });
        }
    }
    if f.role == Role::SeedCount {
        out.push(Mutation { family: 2, value: v + 1, in_child: false });
        if v >= 1 {
            out.push(Mutation { family: 2, value: v - 1, in_child: false });
        }
    }
    out
}

/// the mutated stream (None when the mutation degenerates to another one)
fn apply_mutation(p: &Parsed, stream: &[u8], fi: usize, mu: &Mutation, rng: &mut Rng) -> Option<Vec<u8>> {
    let f = &p.fields[fi];
    let mut s = stream.to_vec();
    s[f.off..f.off + f.w].copy_from_slice(&mu.value.to_le_bytes()[..f.w]);
    match mu.family {
        0 => {}
        1 => {
            let l = &p.leaves[f.leaf];
            let idx = fi - l.first_field;
            let mut d = l.dims.clone();
            d[idx] = mu.value;
            let mut prod: u64 = 8;
            for (i, x) in d.iter().enumerate() {
                if l.kind == LK::Vec && i == 3 {
                    continue;
                }
                prod = prod.wrapping_mul(*x);
            }
            if prod == l.len {
                return None;
            }
            let lf = &p.fields[l.first_field + l.nfields - 1];
            s[lf.off..lf.off + 8].copy_from_slice(&prod.to_le_bytes());
        }
        _ => {
            let end_of_seeds = f.off + 4 + 32 * f.val as usize;
            if mu.value > f.val {
                let mut extra = [0u8; 32];
                rng.fill_bytes(&mut extra);
                s.splice(end_of_seeds..end_of_seeds, extra.iter().copied());
            } else {
                s.drain(end_of_seeds - 32..end_of_seeds);
            }
        }
    }
    Some(s)
}

fn family_name(f: u64) -> &'static str {
    match f {
        0 => "set",
        1 => "set+len_fixup",
        9 => "none(valid stream)",
        _ => "seed_count+seeds_fixup",
    }
}

fn mutate_field<T: Subject>(cx: &mut Ctx, unit: u64, si: usize, sh: &Shape, src: Src, s: &Source_<T>, rk: Rk, rs: &Shape, fi: usize) {
    let seed = cx.cfg.seed;
    let fld = s.parsed.fields[fi].clone();
    let mut desc0 = base_desc::<T>(cx, si, sh, src, rk, rs, unit);
    desc0.put("kind", "mutate");
    desc0.put("field_index", fi);
    desc0.put("field", fld.name.as_str());
    desc0.put("field_role", fld.role.name());
    desc0.put("field_offset", fld.off);
    desc0.put("field_width", fld.w);
    desc0.put("orig", fld.val);
    let mut recv: T = make_recv(seed, si, rs, rk);
    let pre_obs = observe(&recv);
    let Some(pre) = pre_obs.parsed else {
        return;
    };
    let caps = capacities(&pre);
    let tied = seeds_tied(&pre) && seeds_tied(&s.parsed);
    let muts = mutations(&s.parsed, fi);
    let mut rng = src_rng(seed, T::NAME, si, &format!("mut-{fi}"));
    let opname = format!("mutate:{}", T::NAME);
    let key0 = format!("{si}/{}/{}/{}", src.name(), rk.name(), fld.name);
    // (class, family) -> (values, first detail, first outcome)
    let mut agg: BTreeMap<(String, u64), (Vec<u64>, String, String)> = BTreeMap::new();
    let mut dirty = false;
    for (vi, mu) in muts.iter().enumerate() {
        if let Some((ov, ofam)) = cx.only_val {
            if ov != vi as u64 || ofam != mu.family {
                continue;
            }
        }
        let Some(ms) = apply_mutation(&s.parsed, &s.stream, fi, mu, &mut rng) else {
            continue;
        };
        // ---- streams in which a reader meets a large seed count: never in this process
        let predicted = max_seed_len(T::grammar(), &ms);
        if predicted > (1 << 16) && cx.mode != Mode::Child {
            if cx.mode == Mode::Normal {
                cx.rep.case(&opname, &format!("{key0}/{}/{}", mu.family, mu.value), true);
                run_in_child::<T>(cx, &desc0, unit, vi as u64, mu, predicted);
            }
            continue;
        }
        if dirty {
            recv = make_recv(seed, si, rs, rk);
            dirty = false;
        }
        let out = do_read(&mut recv, &ms);
        if cx.mode == Mode::Child {
            // report without re-serialising a receiver that may hold a giant seed vector
            let sc = recv.seed_counts();
            println!(
                "C18CHILD outcome={} seed_counts={} msg={}",
                out.tag(),
                sc.map(|v| v.iter().map(|x| x.to_string()).collect::<Vec<_>>().join("+")).unwrap_or("unknown".into()),
                out.short().replace('\n', " ")
            );
            return;
        }
        cx.rep.case(&opname, &format!("{key0}/{}/{}", mu.family, mu.value), true);
        let force = cx.mode == Mode::AsanOne;
        let v = judge(&mut recv, &out, &pre, &caps, tied, &ms, Expect::Either, "", true, force);
        if cx.mode == Mode::AsanOne {
            println!("C18ONE outcome={} broken={} touched=1", out.tag(), v.broken);
            return;
        }
        match out {
            Outcome::Err(..) => cx.rep.count("mutations_rejected", 1),
            Outcome::Ok(_) => cx.rep.count(if v.broken { "mutations_accepted_inconsistent" } else { "mutations_accepted_consistent" }, 1),
            Outcome::Panic(..) => cx.rep.count("mutations_panicked", 1),
        }
        if !v.pristine || v.broken {
            dirty = true;
        }
        if cx.mode == Mode::AsanTouch && v.broken {
            asan_probe::<T>(cx, &desc0, unit, vi as u64, mu, &v.findings);
        }
        for f in v.findings {
            let e = agg.entry((f.class.clone(), mu.family)).or_insert((Vec::new(), f.detail.clone(), out.short()));
            e.0.push(mu.value);
        }
    }
    if cx.mode == Mode::AsanTouch {
        return; // the rel/dbg runs report the in-process classes; this mode only adds what ASan sees
    }
    for ((class, fam), (values, detail, outcome)) in agg {
        let mut d = desc0.clone();
        d.put("family", family_name(fam));
        d.put("injected", J::A(values.iter().map(|x| J::I(*x as i128)).collect()));
        d.put("values_tried", muts.len());
        d.put("outcome", outcome);
        cx.emit(&class, T::NAME, d, format!("{}={}: {detail}", fld.name, values[0]));
    }
}

// ---------------------------------------------------------------------------------------------------
// child processes
// ---------------------------------------------------------------------------------------------------
struct ChildResult {
    code: Option<i32>,
    signal: Option<i32>,
    stdout: String,
    stderr: String,
}

fn spawn_self(cx: &Ctx, mode: &str, case: &str) -> Result<ChildResult, String> {
    use std::os::unix::process::ExitStatusExt;
    let exe = std::env::current_exe().map_err(|e| e.to_string())?;
    let mut cmd = std::process::Command::new(exe);
    cmd.arg("c18")
        .args(["--seed", &cx.cfg.seed.to_string()])
        .args(["--shard", "0/1"])
        .args(["--tier", if cx.cfg.thorough { "thorough" } else { "quick" }])
        .args(["--scale", &format!("{}", cx.cfg.scale)])
        .args(["--mode", mode])
        .args(["--case", case]);
    if cfg!(feature = "asan") {
        let cur = std::env::var("ASAN_OPTIONS").unwrap_or_default();
        let mut o = cur.clone();
        for (k, v) in [("max_allocation_size_mb", "4096"), ("allocator_may_return_null", "1"), ("detect_leaks", "0"), ("halt_on_error", "1"), ("exitcode", "98")] {
            if !cur.contains(k) {
                if !o.is_empty() {
                    o.push(':');
                }
                o.push_str(&format!("{k}={v}"));
            }
        }
        cmd.env("ASAN_OPTIONS", o);
    }
    cmd.env("RUST_BACKTRACE", "0");
    let out = cmd.output().map_err(|e| e.to_string())?;
    Ok(ChildResult {
        code: out.status.code(),
        signal: out.status.signal(),
        stdout: String::from_utf8_lossy(&out.stdout).into_owned(),
        stderr: String::from_utf8_lossy(&out.stderr).into_owned(),
    })
}

fn run_in_child<T: Subject>(cx: &mut Ctx, desc0: &J, unit: u64, vi: u64, mu: &Mutation, predicted: u64) {
    let case = format!("{unit}:{vi}:{}:{}:{}", mu.family, cx.type_idx, cx.type_base);
    cx.rep.count("child_runs", 1);
    let r = match spawn_self(cx, "child", &case) {
        Ok(r) => r,
        Err(e) => {
            cx.rep.inconclusive.push(format!("c18: cannot spawn child for case {case}: {e}"));
            return;
        }
    };
    let mut d = desc0.clone();
    d.put("family", family_name(mu.family));
    d.put("injected", J::A(vec![J::I(mu.value as i128)]));
    d.put("child_case", case.as_str());
    d.put("seed_len_read_by_a_format_following_reader", predicted);
    d.put("would_allocate_bytes", predicted as i128 * 32);
    let line = r.stdout.lines().find(|l| l.starts_with("C18CHILD ")).map(|s| s.to_string());
    if let Some(line) = line {
        // the child survived: did the receiver end up with the stream's seed count?
        let sc = line.split("seed_counts=").nth(1).unwrap_or("unknown").split_whitespace().next().unwrap_or("unknown").to_string();
        let msg = line.split(" msg=").nth(1).unwrap_or("").to_string();
        let outcome = line.split_whitespace().nth(1).unwrap_or("").to_string();
        d.put("outcome", outcome.as_str());
        d.put("seed_counts_after", sc.as_str());
        let attempted = sc.split('+').any(|x| x.parse::<u64>().ok() == Some(predicted));
        if outcome == "outcome=panic" {
            cx.emit(panic_class(&msg), T::NAME, d, format!("read_from panicked in the child: {msg}"));
        } else if attempted && outcome != "outcome=ok" {
            cx.emit(
                "seed_len_unchecked_alloc",
                T::NAME,
                d,
                format!("seed_len={predicted}: {} bytes allocated from an unchecked header field (seed vector has {predicted} entries after {outcome})", predicted as u128 * 32),
            );
        } else {
            cx.rep.count("child_survived_unobservable", 1);
        }
        return;
    }
    let alloc_msg = r.stderr.lines().find(|l| l.contains("memory allocation of") || l.contains("AddressSanitizer") || l.contains("capacity overflow")).map(|s| s.trim().to_string());
    if r.signal.is_some() || r.code.is_some_and(|c| c != 0) {
        d.put("outcome", "abort");
        d.put("child_signal", r.signal.unwrap_or(0));
        d.put("child_code", r.code.unwrap_or(-1));
        match alloc_msg {
            Some(m) => cx.emit(
                "seed_len_unchecked_alloc",
                T::NAME,
                d,
                format!("seed_len={predicted}: process aborted while allocating {} bytes from an unchecked header field: {m}", predicted as u128 * 32),
            ),
            None => cx.rep.inconclusive.push(format!(
                "c18: child for case {case} died (signal {:?} code {:?}) without an allocation message: {}",
                r.signal,
                r.code,
                r.stderr.chars().rev().take(300).collect::<String>().chars().rev().collect::<String>()
            )),
        }
    } else {
        cx.rep.inconclusive.push(format!("c18: child for case {case} printed no result line"));
    }
}

fn asan_probe<T: Subject>(cx: &mut Ctx, desc0: &J, unit: u64, vi: u64, mu: &Mutation, findings: &[Finding]) {
    if !T::TOUCHABLE {
        cx.rep.count("asan_touch_skipped_no_accessor", 1);
        return;
    }
    let class0 = findings.iter().map(|f| f.class.clone()).next().unwrap_or_default();
    let role = desc0.clone();
    let fname = match &role {
        J::O(o) => o.iter().find(|(k, _)| k == "field").map(|(_, v)| v.render()).unwrap_or_default(),
        _ => String::new(),
    };
    let leafname = fname.trim_matches('"').rsplit('.').next().unwrap_or("").to_string();
    let key = format!("{}:{class0}:{leafname}:{}", T::NAME, mu.family);
    let c = cx.asan_seen.entry(key).or_insert(0);
    *c += 1;
    if *c > 1 || cx.asan_children >= 48 {
        return;
    }
    cx.asan_children += 1;
    let case = format!("{unit}:{vi}:{}:{}:{}", mu.family, cx.type_idx, cx.type_base);
    cx.rep.count("asan_touch_children", 1);
    let r = match spawn_self(cx, "asan-one", &case) {
        Ok(r) => r,
        Err(e) => {
            cx.rep.inconclusive.push(format!("c18: cannot spawn asan child: {e}"));
            return;
        }
    };
    let mut d = desc0.clone();
    d.put("family", family_name(mu.family));
    d.put("injected", J::A(vec![J::I(mu.value as i128)]));
    d.put("child_case", case.as_str());
    d.put("in_process_class", class0.as_str());
    if let Some(pos) = r.stderr.find("ERROR: AddressSanitizer:") {
        let head: String = r.stderr[pos..].lines().take(1).collect();
        let frame = r.stderr[pos..].lines().filter(|l| l.contains("poulpy")).take(3).map(|l| l.trim().to_string()).collect::<Vec<_>>().join(" | ");
        d.put("asan", head.as_str());
        d.put("outcome", "asan_report");
        cx.emit("asan_report_after_read", T::NAME, d, format!("{head} — {frame}"));
    } else if r.signal.is_some() {
        d.put("outcome", "crash");
        d.put("child_signal", r.signal.unwrap_or(0));
        cx.emit("crash_after_read", T::NAME, d, format!("touching the receiver killed the process with signal {:?}", r.signal));
    } else if r.stdout.contains("C18ONE ") {
        cx.rep.count("asan_touch_silent", 1);
    } else {
        cx.rep.inconclusive.push(format!("c18: asan child {case} gave no verdict (code {:?})", r.code));
    }
}

// ---------------------------------------------------------------------------------------------------
// shapes
// ---------------------------------------------------------------------------------------------------
fn shape0() -> Shape {
    Shape { n: 8, cols: 2, limbs: 3, rows: 2, cols_in: 2, base2k: 12, rank_in: 1, rank_out: 1, dnum: 2, dsize: 1, n_lwe: 3, opt: false }
}

fn shapes_for<T: Subject>(cfg: &Cfg) -> Vec<Shape> {
    let b = shape0();
    let mut v: Vec<Shape> = match T::FAMILY {
        0 => vec![b.clone(), Shape { n: 1, cols: 1, limbs: 2, ..b.clone() }, Shape { n: 16, cols: 3, limbs: 4, ..b.clone() }],
        1 => vec![Shape { limbs: 2, ..b.clone() }, Shape { n: 1, cols: 1, limbs: 2, ..b.clone() }],
        2 => vec![b.clone(), Shape { n: 4, rows: 1, cols_in: 1, cols: 3, limbs: 2, ..b.clone() }],
        3 => vec![Shape { n: 7, ..b.clone() }, Shape { n: 15, limbs: 2, ..b.clone() }],
        4 => vec![b.clone(), Shape { n: 16, rank_out: 2, limbs: 2, ..b.clone() }],
        5 => vec![b.clone(), Shape { rank_in: 2, rank_out: 2, dnum: 1, dsize: 2, limbs: 4, ..b.clone() }],
        6 => vec![Shape { rank_in: 2, rank_out: 2, ..b.clone() }, Shape { n: 4, dnum: 1, limbs: 2, ..b.clone() }],
        _ => vec![Shape { dnum: 1, limbs: 2, ..b.clone() }, Shape { n: 4, n_lwe: 2, rank_out: 2, rank_in: 2, dnum: 2, limbs: 3, opt: true, ..b.clone() }],
    };
    let extra = if cfg.thorough { (250.0 * cfg.scale).round() as usize } else { (6.0 * cfg.scale).round() as usize };
    let mut rng = Rng::new(cfg.seed.wrapping_mul(0x9e3779b97f4a7c15), fnv(&format!("c18-shapes-{}", T::NAME)));
    let mut tries = 0;
    while v.len() < 2 + extra + (T::FAMILY == 0) as usize && tries < 1000 {
        tries += 1;
        let small = T::FAMILY == 7;
        let s = Shape {
            n: if small { *rng.pick(&[2usize, 4, 8]) } else { *rng.pick(&[1usize, 2, 4, 8, 16, 32]) },
            cols: rng.usize_in(1, 3),
            limbs: rng.usize_in(1, if small { 3 } else { 5 }),
            rows: rng.usize_in(1, 3),
            cols_in: rng.usize_in(1, 3),
            base2k: rng.usize_in(6, 20) as u32,
            rank_in: rng.usize_in(1, if small { 2 } else { 3 }) as u32,
            rank_out: rng.usize_in(1, if small { 2 } else { 3 }) as u32,
            dnum: rng.usize_in(1, 3) as u32,
            dsize: rng.usize_in(1, 3) as u32,
            n_lwe: rng.usize_in(1, 4) as u32,
            opt: rng.coin(),
        };
        if T::ok(&s) {
            v.push(s);
        }
    }
    v
}

// ---------------------------------------------------------------------------------------------------
fn drive<T: Subject>(cx: &mut Ctx) {
    cx.type_idx += 1;
    if let Some((ti, base)) = cx.only_type {
        if ti != cx.type_idx {
            return;
        }
        cx.unit = base;
    }
    cx.type_base = cx.unit;
    let shapes = shapes_for::<T>(cx.cfg);
    let seed = cx.cfg.seed;
    let mut covered = false;
    for (si, sh) in shapes.iter().enumerate() {
        if !T::ok(sh) {
            continue;
        }
        for src in [Src::Api, Src::ApiShrunk, Src::Synth] {
            let built = guarded(|| build_source::<T>(seed, si, sh, src));
            let s = match built {
                Ok(Ok(Some(s))) => s,
                Ok(Ok(None)) => continue,
                Ok(Err(e)) | Err(e) => {
                    // reported once, by the shard that owns the next unit
                    if let Some(u) = cx.take_unit() {
                        let d = jo! {"type" => T::NAME, "shape_index" => si, "shape" => sh.desc(), "src" => src.name(), "kind" => "source", "seed" => seed, "unit" => u};
                        if e.starts_with("harness:") {
                            cx.rep.inconclusive.push(format!("c18 {}: {e}", T::NAME));
                        } else {
                            cx.emit("source_construction", T::NAME, d, e);
                        }
                    }
                    continue;
                }
            };
            covered = true;
            for rk in RKS {
                let Some(rs) = recv_shape::<T>(sh, s.size, rk) else {
                    continue;
                };
                if let Some(u) = cx.take_unit() {
                    if cx.mode == Mode::Normal || cx.mode == Mode::AsanTouch || (cx.mode == Mode::AsanOne && cx.only_val.is_some_and(|v| v.1 == 9)) {
                        let r = guarded(|| roundtrip_and_truncate::<T>(cx, u, si, sh, src, &s, rk, &rs));
                        if let Err(p) = r {
                            cx.rep.inconclusive.push(format!("c18: harness panic in roundtrip unit {u} ({}): {p}", T::NAME));
                        }
                    }
                }
                if rk == Rk::Exact && src != Src::ApiShrunk {
                    continue;
                }
                for fi in 0..s.parsed.fields.len() {
                    if let Some(u) = cx.take_unit() {
                        let r = guarded(|| mutate_field::<T>(cx, u, si, sh, src, &s, rk, &rs, fi));
                        if let Err(p) = r {
                            cx.rep.inconclusive.push(format!("c18: harness panic in mutation unit {u} ({} field {fi}): {p}", T::NAME));
                        }
                    }
                }
            }
        }
    }
    if covered && cx.only_unit.is_none() && cx.cfg.shard == 0 {
        cx.rep.count("types_covered", 1);
    }
}

fn set_rlimit_as(bytes: u64) {
    unsafe extern "C" {
        fn setrlimit(resource: i32, rlim: *const [u64; 2]) -> i32;
    }
    let lim = [bytes, bytes];
    let nocore = [0u64, 0u64];
    unsafe {
        setrlimit(9 /* RLIMIT_AS */, &lim);
        setrlimit(4 /* RLIMIT_CORE */, &nocore);
    }
}

/// format identity across backends: every backend's encryption output follows the same format model with the same
/// header values, and round-trips through the (backend-independent) reader
fn format_identity(cfg: &Cfg, rep: &mut Report, producers: &[(&'static str, fn(u64) -> Vec<(String, Vec<u8>)>)]) {
    let mut reference: Vec<(String, Vec<(String, u64)>, Vec<u8>)> = Vec::new();
    for (bi, (be, f)) in producers.iter().enumerate() {
        let samples = match guarded(|| f(cfg.seed)) {
            Ok(s) => s,
            Err(p) => {
                rep.inconclusive.push(format!("c18: sample encryption on {be} panicked: {p}"));
                continue;
            }
        };
        for (i, (name, bytes)) in samples.iter().enumerate() {
            let compressed = name.starts_with("GLWECompressed");
            let g: fn(&mut P) -> PRes = if compressed { g_glwe_c } else { g_glwe };
            rep.case("format_identity", &format!("{be}/{name}"), true);
            let desc = jo! {"type" => name.as_str(), "backend" => *be, "kind" => "format_identity", "seed" => cfg.seed, "stream_bytes" => bytes.len()};
            let parsed = match parse(g, bytes) {
                Ok(p) => p,
                Err(e) => {
                    rep.violate("format_differs_across_backends", desc, format!("bytes written from a {be} ciphertext do not follow the documented format: {e}"));
                    continue;
                }
            };
            // round trip through a fresh receiver
            let rank = if name.ends_with('2') { 2u32 } else { 1 };
            let sh = Shape { n: 16, limbs: 4, rank_out: rank, base2k: 9, ..shape0() };
            let back = if compressed {
                let mut r = <GLWECompressed<Vec<u8>> as Subject>::alloc(&sh, false);
                let o = do_read(&mut r, bytes);
                (o, observe(&r).bytes)
            } else {
                let mut r = <GLWE<Vec<u8>> as Subject>::alloc(&sh, false);
                let o = do_read(&mut r, bytes);
                (o, observe(&r).bytes)
            };
            if !matches!(back.0, Outcome::Ok(c) if c == bytes.len()) || &back.1 != bytes {
                rep.violate("roundtrip_mismatch:encrypted", desc.clone(), format!("encrypted object does not round-trip: {}", back.0.short()));
            } else {
                rep.count("encrypted_roundtrip_equal", 1);
            }
            if bi == 0 {
                reference.push((name.clone(), parsed.meta(), bytes.clone()));
            } else if let Some((rn, rmeta, rbytes)) = reference.get(i) {
                if rn != name || rmeta != &parsed.meta() || rbytes.len() != bytes.len() {
                    rep.violate(
                        "format_differs_across_backends",
                        desc,
                        format!("header of {name} on {be} = {:?}, on {} = {:?}", parsed.meta(), producers[0].0, rmeta),
                    );
                } else {
                    rep.count("headers_equal_across_backends", 1);
                    rep.count(if rbytes == bytes { "payload_equal_across_backends" } else { "payload_differs_across_backends" }, 1);
                }
            }
        }
    }
}

pub fn run(cfg: &Cfg, rep: &mut Report, producers: &[(&'static str, fn(u64) -> Vec<(String, Vec<u8>)>)]) {
    let mode = match cfg.mode.as_str() {
        "" | "rel" | "dbg" => Mode::Normal,
        "asan-touch" => Mode::AsanTouch,
        "asan-one" => Mode::AsanOne,
        "child" => Mode::Child,
        other => {
            rep.inconclusive.push(format!("c18: unknown mode {other}"));
            return;
        }
    };
    let mut only_unit = None;
    let mut only_val = None;
    let mut only_type = None;
    if mode == Mode::AsanOne || mode == Mode::Child {
        let c = cfg.extra.get("case").cloned().unwrap_or_default();
        let parts: Vec<u64> = c.split(':').filter_map(|x| x.parse().ok()).collect();
        if parts.len() != 3 && parts.len() != 5 {
            rep.inconclusive.push(format!("c18: --case unit:value:family[:type:type_base] expected, got {c:?}"));
            return;
        }
        only_unit = Some(parts[0]);
        only_val = Some((parts[1], parts[2]));
        if parts.len() == 5 {
            only_type = Some((parts[3], parts[4]));
        }
    }
    // replay of one unit of the grid in the normal mode: `--unit U` (the `unit` field of a violation descriptor)
    if mode == Mode::Normal {
        if let Some(u) = cfg.extra.get("unit").and_then(|u| u.parse::<u64>().ok()) {
            only_unit = Some(u);
        }
    }
    if mode == Mode::Child && !cfg!(feature = "asan") {
        set_rlimit_as(2 << 30);
    }
    if (mode == Mode::AsanTouch || mode == Mode::AsanOne) && !cfg!(feature = "asan") && !cfg.extra.contains_key("force-touch") {
        rep.inconclusive.push("c18: asan-touch modes touch memory behind broken invariants; they need the ASan build (feature `asan`)".into());
        return;
    }
    if mode == Mode::Normal && cfg.shard == 0 && only_unit.is_none() {
        format_identity(cfg, rep, producers);
    }
    let mut cx = Ctx {
        cfg,
        rep,
        mode,
        unit: 0,
        only_unit,
        only_val,
        only_type,
        type_idx: 0,
        type_base: 0,
        emitted: BTreeMap::new(),
        asan_seen: BTreeMap::new(),
        asan_children: 0,
        full_sweep_max: if cfg.thorough { 20_000 } else { 6_000 },
    };
    // hal
    drive::<VecZnx<Vec<u8>>>(&mut cx);
    drive::<ScalarZnx<Vec<u8>>>(&mut cx);
    drive::<MatZnx<Vec<u8>>>(&mut cx);
    // core
    drive::<LWE<Vec<u8>>>(&mut cx);
    drive::<GLWE<Vec<u8>>>(&mut cx);
    drive::<GGLWE<Vec<u8>>>(&mut cx);
    drive::<GGSW<Vec<u8>>>(&mut cx);
    drive::<GLWEPublicKey<Vec<u8>>>(&mut cx);
    drive::<GLWESwitchingKey<Vec<u8>>>(&mut cx);
    drive::<GLWEAutomorphismKey<Vec<u8>>>(&mut cx);
    drive::<GLWETensorKey<Vec<u8>>>(&mut cx);
    drive::<GGLWEToGGSWKey<Vec<u8>>>(&mut cx);
    drive::<LWESwitchingKey<Vec<u8>>>(&mut cx);
    drive::<LWEToGLWEKey<Vec<u8>>>(&mut cx);
    drive::<GLWEToLWEKey<Vec<u8>>>(&mut cx);
    // core, compressed
    drive::<LWECompressed<Vec<u8>>>(&mut cx);
    drive::<GLWECompressed<Vec<u8>>>(&mut cx);
    drive::<GGLWECompressed<Vec<u8>>>(&mut cx);
    drive::<GGSWCompressed<Vec<u8>>>(&mut cx);
    drive::<GLWESwitchingKeyCompressed<Vec<u8>>>(&mut cx);
    drive::<GLWEAutomorphismKeyCompressed<Vec<u8>>>(&mut cx);
    drive::<GLWETensorKeyCompressed<Vec<u8>>>(&mut cx);
    drive::<GGLWEToGGSWKeyCompressed<Vec<u8>>>(&mut cx);
    drive::<LWESwitchingKeyCompressed<Vec<u8>>>(&mut cx);
    drive::<LWEToGLWEKeyCompressed<Vec<u8>>>(&mut cx);
    drive::<GLWEToLWESwitchingKeyCompressed<Vec<u8>>>(&mut cx);
    // bin-fhe
    drive::<BlindRotationKey<Vec<u8>, CGGI>>(&mut cx);
    drive::<BlindRotationKeyCompressed<Vec<u8>, CGGI>>(&mut cx);
    drive::<CircuitBootstrappingKey<Vec<u8>, CGGI>>(&mut cx);
    drive::<BDDKey<Vec<u8>, CGGI>>(&mut cx);
    let units = cx.unit;
    if cx.only_unit.is_none() {
        cx.rep.count("units_total_in_grid", if cfg.shard == 0 { units as i128 } else { 0 });
    }
}
