// C17 — safe API calls never access memory outside their buffers (HAL part).
// The oracle is the sanitizer the binary runs under (ASan with poisoned neighbours, valgrind memcheck, Miri);
// natively, canary guards and whole-buffer diffs are checked. Every case uses an exact-size scratch window,
// operands with spare capacity (size < max_size), 1..3 columns and N from 1 (coefficient ops) / 8 (DFT ops).

/// Views carved out of scratch: a random sequence of public `take_*` calls on a window with an arbitrary start address. Every view
/// must lie inside the window handed over, be disjoint from every other live view, and be aligned for its element type; each view
/// is written and read back through its typed slice (under ASan / memcheck / Miri that access is what the tool observes).
fn run_scratch_carving(cfg: &Cfg, rep: &mut Report) {
    let mut rng = cfg.rng(&format!("c17-carve-{BE_NAME}"));
    let slow = cfg!(debug_assertions) || cfg.mode == "slow";
    let total = if slow { 40 } else { cfg.budget(20_000, 400_000) / 4 };
    for _ in 0..total {
        let off = if rng.coin() { rng.below(64) as usize } else { 8 * rng.below(8) as usize };
        let len = 64 + rng.below(if slow { 2048 } else { 16384 }) as usize;
        let mut g = Guarded::new(off + len, true);
        g.fill_random(&mut rng);
        let gref = g.raw_ref();
        let base = g.bytes().as_ptr() as usize + off;
        let end = base + len;
        let desc = jo! {"backend" => BE_NAME, "op" => "scratch_carving", "window_offset_mod_64" => off, "window_len" => len};
        let mut taken: Vec<(usize, usize, &'static str)> = Vec::new(); // (address, bytes, kind)
        let mut bad: Option<String> = None;
        let r = guarded(|| {
            let win: &mut [u8] = &mut g.bytes_mut()[off..];
            let mut sc: &mut Scratch<BE> = Scratch::<BE>::from_bytes(win);
            for step in 0..12 {
                let avail = sc.available();
                if avail < 64 {
                    break;
                }
                let want = 1 + rng.below((avail as u64 / 2).max(1)) as usize;
                let kind = rng.below(6);
                macro_rules! typed {
                    ($t:ty, $name:expr) => {{
                        let n = (want / std::mem::size_of::<$t>()).max(1);
                        let (sl, rest) = sc.take_slice::<$t>(n);
                        let addr = sl.as_ptr() as usize;
                        if addr % std::mem::align_of::<$t>() != 0 {
                            bad = Some(format!("step {step}: take_slice::<{}>({n}) returned address {addr:#x}, not aligned to {}", $name, std::mem::align_of::<$t>()));
                        }
                        for (i, x) in sl.iter_mut().enumerate() {
                            *x = (i as u8).wrapping_mul(37).wrapping_add(step as u8) as $t;
                        }
                        taken.push((addr, n * std::mem::size_of::<$t>(), $name));
                        sc = rest;
                    }};
                }
                match kind {
                    0 => typed!(u8, "u8"),
                    1 => typed!(i64, "i64"),
                    2 => typed!(f64, "f64"),
                    3 => typed!(i128, "i128"),
                    4 => {
                        let n = 1usize << rng.below(4);
                        let cols = 1 + rng.below(3) as usize;
                        let size = (want / (8 * n * cols)).clamp(1, 8);
                        if VecZnx::<Vec<u8>>::bytes_of(n, cols, size) > avail {
                            continue;
                        }
                        let (mut v, rest) = sc.take_vec_znx(n, cols, size);
                        let addr = v.at(0, 0).as_ptr() as usize;
                        if addr % std::mem::align_of::<i64>() != 0 {
                            bad = Some(format!("step {step}: take_vec_znx({n}, {cols}, {size}) returned address {addr:#x}, not aligned to 8"));
                        }
                        for j in 0..size {
                            for c in 0..cols {
                                v.at_mut(c, j).fill(step as i64 + 1);
                            }
                        }
                        taken.push((addr, 8 * n * cols * size, "vec_znx"));
                        sc = rest;
                    }
                    _ => {
                        let (left, rest) = sc.split_at_mut(want.min(avail / 2).max(1));
                        let (sl, _) = left.take_slice::<u8>(1);
                        sl[0] = 0x5a;
                        taken.push((sl.as_ptr() as usize, 1, "split_at_mut"));
                        sc = rest;
                    }
                }
                if bad.is_some() {
                    break;
                }
            }
        });
        rep.case("scratch_carving", &format!("{BE_NAME}|{off}|{len}|{}", taken.len()), !taken.is_empty());
        rep.count("scratch_views_carved", taken.len() as i128);
        if off % 64 != 0 {
            rep.count("carving_windows_unaligned", 1);
        }
        if let Err(p) = r {
            if p.contains("out of range") || p.contains("out of bounds") || p.contains("misaligned") || p.contains("unaligned") {
                rep.violate("scratch_carving", desc.clone(), format!("panic while carving / touching views: {p}"));
            }
            continue;
        }
        if bad.is_none() {
            let mut sorted = taken.clone();
            sorted.sort();
            for (i, (a, b, k)) in sorted.iter().enumerate() {
                if *a < base || a + b > end {
                    bad = Some(format!("{k} view [{a:#x}, +{b}) lies outside the window [{base:#x}, {end:#x})"));
                    break;
                }
                if i + 1 < sorted.len() && a + b > sorted[i + 1].0 {
                    bad = Some(format!("{k} view [{a:#x}, +{b}) overlaps the {} view at {:#x}", sorted[i + 1].2, sorted[i + 1].0));
                    break;
                }
            }
        }
        if bad.is_none() && !unsafe { gref.guards_intact() } {
            bad = Some("canary guard around the window modified".into());
        }
        if let Some(b) = bad {
            rep.violate("scratch_carving", desc, b);
        }
    }
}

pub fn run(cfg: &Cfg, rep: &mut Report) {
    run_scratch_carving(cfg, rep);
    let mut rng = cfg.rng(&format!("c17-{BE_NAME}"));
    let slow = cfg!(debug_assertions) || cfg.mode == "slow";
    let total = cfg.budget(240_000, 12_000_000) / 4;
    let total = if slow { (total / 24).max(if cfg!(debug_assertions) { 8 } else { 30 }) } else { total };
    let ns_coef: &[usize] = if cfg!(debug_assertions) { &[2, 4, 8, 16] } else { &[1, 2, 4, 8, 16, 32, 64] };
    let ns_dft: &[usize] = if cfg!(debug_assertions) { &[8, 16] } else { &[8, 16, 32, 64, 128] };
    for it in 0..total {
        let op = hal_ops::HAL_OPS[(it as usize + rng.below(5) as usize) % hal_ops::HAL_OPS.len()];
        let n = if hal_ops::op_needs_dft(op) { *rng.pick(ns_dft) } else { *rng.pick(ns_coef) };
        let seed = rng.next_u64();
        // the pairwise convolution query is a known finding of C12 (F23): give that op a generous window here
        let scratch = if op == "cnv_pairwise_apply_dft" { hal_ops::ScratchMode::Generous } else if slow && rng.coin() { hal_ops::ScratchMode::ExactUninit } else { hal_ops::ScratchMode::Exact };
        // one window in four is an arbitrary (not 64-byte aligned) user slice: the library has to re-align what it carves out of it
        let misalign = if rng.below(4) == 0 { [1usize, 8, 16, 24, 32, 40, 56, 63][rng.below(8) as usize] } else { 0 };
        if misalign != 0 {
            rep.count("misaligned_scratch_windows", 1);
        }
        let o = hal_ops::run_case(op, n, seed, &hal_ops::Opts { fill_seed: 0xc17, scratch, poison: true, fold: slow, misalign, ..Default::default() });
        if o.key.is_empty() {
            continue;
        }
        rep.case(op, &o.key, o.nontrivial);
        rep.sample_for_op(&format!("{BE_NAME}:{op}"), || o.desc.clone());
        rep.count("calls_under_monitor", 1);
        if let Some(s) = &o.stray {
            rep.violate(op, o.desc.clone(), format!("memory outside the call's buffers modified: {s}"));
        } else if let Some(p) = &o.panic {
            // an index-out-of-range panic is the safe-Rust face of an out-of-bounds access
            if p.contains("out of range") || p.contains("out of bounds") || p.contains(">= self.") {
                rep.violate(op, o.desc.clone(), format!("bounds panic on an admissible call: {p}"));
            }
        }
    }
}
