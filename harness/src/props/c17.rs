// C17 — safe API calls never access memory outside their buffers (HAL part).
// The oracle is the sanitizer the binary runs under (ASan with poisoned neighbours, valgrind memcheck, Miri);
// natively, canary guards and whole-buffer diffs are checked. Every case uses an exact-size scratch window,
// operands with spare capacity (size < max_size), 1..3 columns and N from 1 (coefficient ops) / 8 (DFT ops).

pub fn run(cfg: &Cfg, rep: &mut Report) {
    let mut rng = cfg.rng(&format!("c17-{BE_NAME}"));
    let slow = cfg!(debug_assertions) || cfg.mode == "slow";
    let total = cfg.budget(240_000, 12_000_000) / 4;
    let total = if slow { (total / 24).max(if cfg!(debug_assertions) { 8 } else { 30 }) } else { total };
    let ns_coef: &[usize] = if cfg!(debug_assertions) { &[2, 4, 8, 16] } else { &[1, 2, 4, 8, 16, 32, 64] };
    let ns_dft: &[usize] = if cfg!(debug_assertions) { &[8, 16] } else { &[8, 16, 32, 64, 128] };
    for it in 0..total {
        let op = hal_ops::HAL_OPS[(it as usize + rng.below(5) as usize) % hal_ops::HAL_OPS.len()];
        let n = if hal_ops::op_needs_dft(op) { *rng.pick(ns_dft) } else { *rng.pick(ns_coef) };
        let seed = rng.next_u64();
        // the pairwise convolution query is a known finding of C12 (F23): give that op a generous window here
        let scratch = if op == "cnv_pairwise_apply_dft" { hal_ops::ScratchMode::Generous } else if slow && rng.coin() { hal_ops::ScratchMode::ExactUninit } else { hal_ops::ScratchMode::Exact };
        let o = hal_ops::run_case(op, n, seed, &hal_ops::Opts { fill_seed: 0xc17, scratch, poison: true, fold: slow, ..Default::default() });
        if o.key.is_empty() {
            continue;
        }
        rep.case(op, &o.key, o.nontrivial);
        rep.sample_for_op(&format!("{BE_NAME}:{op}"), || o.desc.clone());
        rep.count("calls_under_monitor", 1);
        if let Some(s) = &o.stray {
            rep.violate(op, o.desc.clone(), format!("memory outside the call's buffers modified: {s}"));
        } else if let Some(p) = &o.panic {
            // an index-out-of-range panic is the safe-Rust face of an out-of-bounds access
            if p.contains("out of range") || p.contains("out of bounds") || p.contains(">= self.") {
                rep.violate(op, o.desc.clone(), format!("bounds panic on an admissible call: {p}"));
            }
        }
    }
}
