// C03 — the key-switching family preserves the plaintext within the predicted noise.
// Oracle: err = exact phase of the result under the target key (clear secret, big integers) minus the exact image of the exact phase of
// the input under the source key (identity; X -> X^g; partial trace; packed slots; extracted coefficient). Inputs therefore need not be
// encryptions of anything: random normalised limb vectors (incl. extreme digits) are the worst case for the gadget noise.
// Hard bound (false-alarm probability zero): every key row carries |e| <= (bound_xe + 1) * 2^-k_key, every composite digit is at most
// 2^(b-1) (2^(dsize b) - 1)/(2^b - 1), limbs beyond dnum*dsize (mask) / key.size (body) are dropped, each normalisation rounds every
// column by at most one unit of its last limb.

const BOUND_XE: f64 = 6.0 * 3.2;

struct Sk {
    lib: GLWESecret<Vec<u8>>,
    prep: GLWESecretPrepared<DeviceBuf<BE>, BE>,
    clear: ClearSk,
}

fn new_sk(module: &Module<BE>, n: usize, rank: usize, rng: &mut Rng) -> Sk {
    let mut src = Source::new(rng.seed32());
    let mut lib = GLWESecret::alloc(Degree(n as u32), Rank(rank as u32));
    match rng.below(5) {
        0 => lib.fill_binary_prob(0.5, &mut src),
        1 => lib.fill_ternary_hw((n / 2).max(1), &mut src),
        _ => lib.fill_ternary_prob(0.5, &mut src),
    }
    let mut prep = module.glwe_secret_prepared_alloc(Rank(rank as u32));
    module.glwe_secret_prepare(&mut prep, &lib);
    let clear = ClearSk::from_glwe_secret(&lib);
    Sk { lib, prep, clear }
}

#[derive(Clone, Copy, Debug)]
struct KeyShape {
    b: usize,
    size: usize,
    k: usize,
    dsize: usize,
    dnum: usize,
    rank_in: usize,
    rank_out: usize,
}

impl KeyShape {
    fn put(&self, d: &mut J) {
        d.put("key_base2k", self.b);
        d.put("key_size", self.size);
        d.put("key_k", self.k);
        d.put("dsize", self.dsize);
        d.put("dnum", self.dnum);
        d.put("rank_in", self.rank_in);
        d.put("rank_out", self.rank_out);
    }
    fn key(&self) -> String {
        format!("{}.{}.{}.{}.{}.{}.{}", self.b, self.size, self.k, self.dsize, self.dnum, self.rank_in, self.rank_out)
    }
}

/// largest key radix for which every DFT-domain accumulation of the gadget product is inside the backend's exactness domain
fn max_key_b(n: usize, terms: usize) -> usize {
    if !IS_FFT64 {
        return 52;
    }
    // terms * n * 2^(2b-2) * 13 * log2(n) < 2^52
    let l = ((terms * n * 13) as f64).log2() + (log2_usize(n).max(1) as f64).log2();
    let b = ((52.0 - l + 2.0) / 2.0).floor() as usize;
    b.clamp(2, 26)
}

/// a hard bound in torus units together with its key-noise share (the share is calibration bookkeeping only)
#[derive(Clone, Copy, Debug)]
struct B {
    total: f64,
    noise: f64,
}
impl From<f64> for B {
    fn from(x: f64) -> B {
        B { total: x, noise: 0.0 }
    }
}
impl std::ops::Add<f64> for B {
    type Output = B;
    fn add(self, r: f64) -> B {
        B { total: self.total + r, noise: self.noise }
    }
}
impl std::ops::Add<B> for B {
    type Output = B;
    fn add(self, r: B) -> B {
        B { total: self.total + r.total, noise: self.noise + r.noise }
    }
}
impl std::ops::AddAssign<f64> for B {
    fn add_assign(&mut self, r: f64) {
        self.total += r;
    }
}
impl std::ops::Mul<B> for f64 {
    type Output = B;
    fn mul(self, r: B) -> B {
        B { total: self * r.total, noise: self * r.noise }
    }
}

fn p2(e: f64) -> f64 {
    e.exp2()
}

/// number of limbs the input has once expressed in the key radix (the library re-normalises to k = size*base2k)
fn conv_size(a_size: usize, a_b: usize, key_b: usize) -> usize {
    if a_b == key_b { a_size } else { (a_size * a_b).div_ceil(key_b) }
}

/// hard bound on |phase_out(gadget product + body) - phase_in| per coefficient, in torus units, before the output normalisation
fn gadget_bound(n: usize, ks: &KeyShape, a_conv_size: usize, s_in_1: u64, s_out_1: u64) -> B {
    let b = ks.b as f64;
    let rows = ks.dnum.min(a_conv_size.div_ceil(ks.dsize)) as f64;
    let digit = p2(b - 1.0) * (p2(ks.dsize as f64 * b) - 1.0) / (p2(b) - 1.0);
    let e_key = (BOUND_XE + 1.0) * p2(-(ks.k as f64));
    let noise = ks.rank_in as f64 * rows * n as f64 * digit * e_key;
    let trunc_mask = if a_conv_size > ks.dnum * ks.dsize { s_in_1 as f64 * p2(-((ks.dnum * ks.dsize) as f64) * b) } else { 0.0 };
    let trunc_body = if a_conv_size > ks.size { p2(-(ks.size as f64) * b) } else { 0.0 };
    // dsize > 2: the product for digit di keeps key.size - max(dsize-di-2, 0) limbs
    let mut dropped = 0.0;
    for di in 0..ks.dsize {
        let q = (ks.dsize as i64 - di as i64 - 2).max(0) as usize;
        if q > 0 {
            let s_di = ks.size - q;
            dropped += 2.0 * ks.rank_in as f64 * rows * n as f64 * p2(2.0 * b - 2.0) * p2(-((s_di + 1) as f64) * b);
        }
    }
    B { total: noise + trunc_mask + trunc_body + dropped * (1.0 + s_out_1 as f64), noise }
}

fn unit(size: usize, b: usize) -> f64 {
    p2(-((size * b) as f64))
}

fn desc_usize(d: &J, k: &str) -> usize {
    if let J::O(o) = d {
        for (kk, v) in o {
            if kk == k {
                if let J::I(i) = v {
                    return *i as usize;
                }
            }
        }
    }
    0
}

fn bound_is_gadget(op: &str) -> bool {
    !(op.ends_with("_encrypt_sk") || op == "lwe_sample_extract")
}

fn err_ratio(err: &[Big], w: usize, bound: f64) -> (f64, usize, f64) {
    // relative slack for the f64 evaluation of the bound itself
    let bound = bound * (1.0 + 1e-6);
    let mut m = Big::from(0);
    let mut at = 0;
    for (i, e) in err.iter().enumerate() {
        let c = abs(&centre(e, w));
        if c > m {
            m = c;
            at = i;
        }
    }
    let mag = torus_mag(&m, w);
    let ratio = if bound > 0.0 { mag / bound } else if mag == 0.0 { 0.0 } else { f64::INFINITY };
    (ratio, at, mag)
}

/// compare an error polynomial (scaled by 2^w) with a bound in torus units; records the calibration ratio; returns false on violation
fn judge(rep: &mut Report, op: &str, desc: &J, key: &str, err: &[Big], w: usize, bound: impl Into<B>, nontrivial: bool) -> bool {
    let b: B = bound.into();
    let bound = b.total;
    let (ratio, at, mag) = err_ratio(err, w, bound);
    rep.case(op, key, nontrivial);
    rep.sample_for_op(&format!("{BE_NAME}:{op}"), || desc.clone());
    rep.maxf(&format!("worst_ratio:{op}"), ratio);
    rep.maxf("worst_ratio", ratio);
    if b.noise >= 0.5 * bound && bound_is_gadget(op) {
        rep.maxf("worst_ratio_noise_dominated", ratio);
        rep.count("noise_dominated_cases", 1);
    }
    if ratio > 0.85 && ratio <= 1.0 && rep.notes.len() < 12 {
        rep.notes.push(format!("near-bound case ({ratio:.4}) {op}: {}", desc.render()));
    }
    if ratio > 1.0 {
        let mut d = desc.clone();
        d.put("ratio", ratio);
        rep.violate(op, d, format!("coefficient {at}: |phase_target(result) - image(phase_source(input))| = 2^{:.2} exceeds the hard bound 2^{:.2} (ratio {ratio:.3e})", mag.log2(), bound.log2()));
        return false;
    }
    true
}

/// like `judge`, for operations that may read stale scratch: `compute(zero_scratch)` runs the operation and returns the error polynomial.
/// If the garbage-filled run violates the bound, the operation is repeated with a zero-filled window to classify the failure.
fn judge_rerun(rep: &mut Report, op: &str, desc: &J, key: &str, w: usize, bound: impl Into<B>, nontrivial: bool, mut compute: impl FnMut(&mut Report) -> Option<Vec<Big>>) -> bool {
    let bound: B = bound.into();
    let Some(err) = compute(rep) else { return false };
    let (ratio, _, _) = err_ratio(&err, w, bound.total);
    if ratio <= 1.0 {
        return judge(rep, op, desc, key, &err, w, bound, nontrivial);
    }
    ZERO_SCRATCH.with(|z| z.set(true));
    let again = compute(rep);
    ZERO_SCRATCH.with(|z| z.set(false));
    let mut d = desc.clone();
    if let Some(e2) = again {
        let (r2, _, _) = err_ratio(&e2, w, bound.total);
        d.put("ratio_with_zeroed_scratch", r2);
        if r2 <= 1.0 {
            d.put("class", "result_depends_on_scratch_content");
            rep.count("scratch_dependent_results", 1);
        } else if desc_usize(desc, "dsize") >= 3 && matches!(op, "glwe_trace" | "glwe_trace_assign" | "glwe_pack" | "glwe_packer") {
            // chains of glwe_automorphism_add_assign / sub_negate reuse the same scratch region: the stale accumulator of the
            // previous step is what the next step reads, so zeroing the window once does not help
            d.put("class", "automorphism_add_chain_dsize_ge_3");
        }
    }
    judge(rep, op, &d, key, &err, w, bound, nontrivial)
}

fn note_small(rep: &mut Report, op: &str, desc: &J, p: &str) {
    let mut d = desc.clone();
    d.put("class", "scratch_query_too_small");
    d.put("scratch_op", op);
    // recorded under its own op name so that the per-op cap on stored violations never hides functional findings
    rep.violate(&format!("{op}:exact_scratch"), d, format!("panic with a scratch window of exactly the queried size: {p}"));
}

fn note_panic(rep: &mut Report, op: &str, desc: &J, p: &str) {
    rep.violate(op, desc.clone(), format!("panic: {p}"));
}

/// run a library call with an exact-size scratch window; scratch-exhaustion panics are recorded (class scratch_query_too_small) and the
/// call is retried generously; other panics are violations (returns None)
fn lib_call<R>(rep: &mut Report, op: &str, desc: &J, bytes: usize, rng: &mut Rng, f: impl FnMut(&mut Scratch<BE>) -> R) -> Option<R> {
    let mut small: Option<String> = None;
    let r = with_exact_scratch(bytes, rng, f, |p| small = Some(p.to_string()));
    rep.count("exact_scratch_calls", 1);
    if let Some(p) = small {
        note_small(rep, op, desc, &p);
    }
    match r {
        Ok(v) => Some(v),
        Err(p) => {
            note_panic(rep, op, desc, &p);
            None
        }
    }
}

// ---------------------------------------------------------------------------------------------
// keys
// ---------------------------------------------------------------------------------------------
struct SwKey {
    shape: KeyShape,
    key: GLWESwitchingKey<Vec<u8>>,
    prep: GLWESwitchingKeyPrepared<DeviceBuf<BE>, BE>,
}

fn sw_layout(n: usize, s: &KeyShape) -> GLWESwitchingKeyLayout {
    GLWESwitchingKeyLayout {
        n: Degree(n as u32),
        base2k: Base2K(s.b as u32),
        k: TorusPrecision(s.k as u32),
        rank_in: Rank(s.rank_in as u32),
        rank_out: Rank(s.rank_out as u32),
        dnum: Dnum(s.dnum as u32),
        dsize: Dsize(s.dsize as u32),
    }
}

fn base_desc(n: usize, s: &KeyShape) -> J {
    let mut d = jo! {"backend" => BE_NAME, "n" => n};
    s.put(&mut d);
    d
}

/// every row of a switching key must encrypt s_in[c] * 2^-((r+1) dsize b) under s_out within the fresh-encryption bound
fn check_key_rows(rep: &mut Report, op: &str, desc: &J, n: usize, s: &KeyShape, cell: impl Fn(usize, usize) -> Vec<Poly>, s_in: &[Vec<i64>], sk_out: &ClearSk, w: usize) -> bool {
    let e_key = (BOUND_XE + 1.0) * p2(-(s.k as f64));
    for r in 0..s.dnum {
        for c in 0..s.rank_in {
            let ph = phase_of_cols(&cell(r, c), sk_out);
            let sh = w - (r + 1) * s.dsize * s.b;
            let err: Vec<Big> = (0..n).map(|i| &ph[i] - (Big::from(s_in[c][i]) << sh)).collect();
            let mut d = desc.clone();
            d.put("row", r);
            d.put("col", c);
            if !judge(rep, op, &d, &format!("{BE_NAME}|{n}|{}|{r}|{c}", s.key()), &err, w, e_key, true) {
                return false;
            }
        }
    }
    true
}

fn gen_swkey(module: &Module<BE>, n: usize, shape: KeyShape, sk_in: &Sk, sk_out: &Sk, rng: &mut Rng, rep: &mut Report, check_rows: bool) -> Option<SwKey> {
    let lay = sw_layout(n, &shape);
    let enc = EncryptionLayout::new_from_default_sigma(lay).unwrap();
    let desc = base_desc(n, &shape);
    let mut xe = Source::new(rng.seed32());
    let mut xa = Source::new(rng.seed32());
    let mut key = GLWESwitchingKey::alloc_from_infos(&lay);
    let bytes = module.glwe_switching_key_encrypt_sk_tmp_bytes(&lay);
    lib_call(rep, "glwe_switching_key_encrypt_sk", &desc, bytes, rng, |sc| module.glwe_switching_key_encrypt_sk(&mut key, &sk_in.lib, &sk_out.lib, &enc, &mut xe, &mut xa, sc))?;
    if check_rows {
        let w = shape.size * shape.b + 16;
        let ok = check_key_rows(rep, "glwe_switching_key_encrypt_sk", &desc, n, &shape, |r, c| glwe_cols(&key.at(r, c), w), &sk_in.clear.polys, &sk_out.clear, w);
        if !ok {
            return None;
        }
    }
    let mut prep = module.glwe_switching_key_prepared_alloc_from_infos(&lay);
    let bytes = module.glwe_switching_key_prepare_tmp_bytes(&lay);
    lib_call(rep, "glwe_switching_key_prepare", &desc, bytes, rng, |sc| module.glwe_switching_key_prepare(&mut prep, &key, sc))?;
    Some(SwKey { shape, key, prep })
}

struct AtKey {
    shape: KeyShape,
    p: i64,
    key: GLWEAutomorphismKey<Vec<u8>>,
    prep: GLWEAutomorphismKeyPrepared<DeviceBuf<BE>, BE>,
}

fn at_layout(n: usize, s: &KeyShape) -> GLWEAutomorphismKeyLayout {
    GLWEAutomorphismKeyLayout {
        n: Degree(n as u32),
        base2k: Base2K(s.b as u32),
        k: TorusPrecision(s.k as u32),
        rank: Rank(s.rank_in as u32),
        dnum: Dnum(s.dnum as u32),
        dsize: Dsize(s.dsize as u32),
    }
}

fn gen_atkey(module: &Module<BE>, n: usize, shape: KeyShape, p: i64, sk: &Sk, rng: &mut Rng, rep: &mut Report, check_rows: bool) -> Option<AtKey> {
    let lay = at_layout(n, &shape);
    let enc = EncryptionLayout::new_from_default_sigma(lay).unwrap();
    let mut desc = base_desc(n, &shape);
    desc.put("galois", p);
    let mut xe = Source::new(rng.seed32());
    let mut xa = Source::new(rng.seed32());
    let mut key = GLWEAutomorphismKey::alloc_from_infos(&lay);
    let bytes = module.glwe_automorphism_key_encrypt_sk_tmp_bytes(&lay);
    lib_call(rep, "glwe_automorphism_key_encrypt_sk", &desc, bytes, rng, |sc| module.glwe_automorphism_key_encrypt_sk(&mut key, p, &sk.lib, &enc, &mut xe, &mut xa, sc))?;
    if check_rows {
        // rows encrypt s under sigma_{p^-1}(s): a key switch with it followed by sigma_p lands under s again
        let two_n = 2 * n as i64;
        let pm = p.rem_euclid(two_n) as u64;
        let pinv = pow_mod(pm, (n as u64) - 1, two_n as u64) as i64; // exponent of (Z/2NZ)* divides N/2 for N>=4; p^(N-1) = p^-1
        let sk_out = ClearSk { n, polys: sk.clear.polys.iter().map(|s| automorphism_i64(s, pinv)).collect() };
        let w = shape.size * shape.b + 16;
        let ok = check_key_rows(rep, "glwe_automorphism_key_encrypt_sk", &desc, n, &shape, |r, c| glwe_cols(&key.at(r, c), w), &sk.clear.polys, &sk_out, w);
        if !ok {
            return None;
        }
    }
    let mut prep = module.glwe_automorphism_key_prepared_alloc_from_infos(&lay);
    let bytes = module.glwe_automorphism_key_prepare_tmp_bytes(&lay);
    lib_call(rep, "glwe_automorphism_key_prepare", &desc, bytes, rng, |sc| module.glwe_automorphism_key_prepare(&mut prep, &key, sc))?;
    Some(AtKey { shape, p, key, prep })
}

// ---------------------------------------------------------------------------------------------
// shapes
// ---------------------------------------------------------------------------------------------
fn pick_radix(rng: &mut Rng, max_b: usize) -> usize {
    let lo = 3.min(max_b);
    match rng.below(4) {
        0 => max_b,
        _ => rng.usize_in(lo, max_b),
    }
}

/// coefficient-domain radix of inputs / outputs (no DFT-domain constraint)
fn pick_ct_radix(rng: &mut Rng, key_b: usize) -> usize {
    match rng.below(3) {
        0 => key_b,
        1 => (key_b as i64 + rng.i64_in(-3, 3)).clamp(2, 52) as usize,
        _ => rng.usize_in(2, 52),
    }
}

/// a gadget shape for inputs of `a_conv_size` limbs in the key radix: dsize 1..4 (preferring a_size % dsize != 0), dnum smaller / equal /
/// larger than needed, key size and precision with slack, precision not a multiple of the radix
fn pick_shape(rng: &mut Rng, n: usize, a_size: usize, a_b: usize, rank_in: usize, rank_out: usize, force_b: Option<usize>) -> KeyShape {
    let mut dsize = rng.usize_in(1, 4);
    let terms = rank_in * 6 * dsize;
    let max_b = max_key_b(n, terms);
    let b = force_b.unwrap_or_else(|| if rng.below(3) == 0 { a_b.min(max_b) } else { pick_radix(rng, max_b) });
    let acs = conv_size(a_size, a_b, b);
    if acs % dsize == 0 && dsize > 1 && rng.coin() {
        dsize -= 1;
    }
    let needed = acs.div_ceil(dsize);
    let dnum = match rng.below(4) {
        0 => needed.saturating_sub(1).max(1),
        1 => needed + 1,
        _ => needed,
    }
    .clamp(1, 6);
    let size = (dnum * dsize).max(dsize + 1) + rng.below(3) as usize;
    let k = size * b - rng.below(b as u64) as usize;
    KeyShape { b, size, k, dsize, dnum, rank_in, rank_out }
}

fn input_ct(module: &Module<BE>, n: usize, b: usize, size: usize, sk: &Sk, rng: &mut Rng, rep: &mut Report) -> (GLWE<Vec<u8>>, &'static str) {
    let rank = sk.clear.rank();
    if rng.below(5) == 0 {
        // a genuine encryption of a random message (precision not a multiple of the radix)
        let k = size * b - rng.below(b as u64) as usize;
        let lay = GLWELayout { n: Degree(n as u32), base2k: Base2K(b as u32), k: TorusPrecision(k as u32), rank: Rank(rank as u32) };
        let enc = EncryptionLayout::new_from_default_sigma(lay).unwrap();
        let mut pt = GLWEPlaintext::alloc_from_infos(&lay);
        fill_vec_class(&mut pt.data, b, *rng.pick(CT_CLASSES), rng);
        let mut xe = Source::new(rng.seed32());
        let mut xa = Source::new(rng.seed32());
        let mut ct = GLWE::alloc_from_infos(&lay);
        let bytes = module.glwe_encrypt_sk_tmp_bytes(&lay);
        let mut sw = ScratchWin::new(bytes * 2 + 4096);
        if guarded(|| module.glwe_encrypt_sk(&mut ct, &pt, &sk.prep, &enc, &mut xe, &mut xa, sw.scratch())).is_ok() {
            rep.count("inputs_encrypted", 1);
            return (ct, "encrypted");
        }
    }
    let cls = *rng.pick(CT_CLASSES);
    (random_glwe(n, b, size, rank, cls, rng), cls)
}

fn pick_n(rng: &mut Rng) -> usize {
    *rng.pick(&[8usize, 8, 16, 16, 32, 64])
}

// ---------------------------------------------------------------------------------------------
// A. GLWE / GGLWE key switch
// ---------------------------------------------------------------------------------------------
fn ks_desc(n: usize, s: &KeyShape, a_b: usize, a_size: usize, r_b: usize, r_size: usize, cls: &str, form: &str) -> J {
    let mut d = base_desc(n, s);
    d.put("a_base2k", a_b);
    d.put("a_size", a_size);
    d.put("res_base2k", r_b);
    d.put("res_size", r_size);
    d.put("class_a", cls);
    d.put("form", form);
    d.put("a_conv_size", conv_size(a_size, a_b, s.b));
    d.put("dnum_needed", conv_size(a_size, a_b, s.b).div_ceil(s.dsize));
    d
}

fn ks_bound(n: usize, s: &KeyShape, a_b: usize, a_size: usize, r_b: usize, r_size: usize, sk_in: &ClearSk, sk_out: &ClearSk) -> B {
    gadget_bound(n, s, conv_size(a_size, a_b, s.b), sk_in.norm1(), sk_out.norm1()) + (1.0 + sk_out.norm1() as f64) * unit(r_size, r_b)
}

fn run_ks_context(rng: &mut Rng, rep: &mut Report) {
    let n = pick_n(rng);
    let module = cached_module(n);
    let rank_in = rng.usize_in(1, 3);
    let rank_out = if rng.coin() { rank_in } else { rng.usize_in(1, 3) };
    let a_size = rng.usize_in(1, 5);
    // choose the key radix first, then input/output radices around it (three-way mismatch)
    let probe = pick_shape(rng, n, a_size, 8, rank_in, rank_out, None);
    let a_b = pick_ct_radix(rng, probe.b);
    let shape = pick_shape(rng, n, a_size, a_b, rank_in, rank_out, Some(probe.b));
    let sk_in = new_sk(module, n, rank_in, rng);
    let sk_out = new_sk(module, n, rank_out, rng);
    let Some(key) = gen_swkey(module, n, shape, &sk_in, &sk_out, rng, rep, true) else { return };
    // a second key between the same secrets with another gadget shape (metamorphic check)
    let mut shape2 = pick_shape(rng, n, a_size, a_b, rank_in, rank_out, None);
    if shape2.dsize == shape.dsize && shape2.dnum == shape.dnum {
        shape2 = pick_shape(rng, n, a_size, a_b, rank_in, rank_out, None);
    }
    let key2 = gen_swkey(module, n, shape2, &sk_in, &sk_out, rng, rep, false);
    rep.count("keys", 1);
    for _ in 0..4 {
        let (a, cls) = input_ct(module, n, a_b, a_size, &sk_in, rng, rep);
        let r_b = pick_ct_radix(rng, shape.b);
        let r_size = rng.usize_in(1, 5);
        let w = (a_size * a_b).max(r_size * r_b).max(shape.size * shape.b).max(shape2.size * shape2.b) + 64;
        let ph_in = glwe_phase(&a, &sk_in.clear, w);
        let lay_a = a.glwe_layout();
        let lay_r = GLWELayout { n: Degree(n as u32), base2k: Base2K(r_b as u32), k: TorusPrecision((r_size * r_b) as u32), rank: Rank(rank_out as u32) };
        // out-of-place
        let desc = ks_desc(n, &shape, a_b, a_size, r_b, r_size, cls, "into");
        let ckey = format!("{BE_NAME}|{n}|{}|{a_b}|{a_size}|{r_b}|{r_size}|{cls}", shape.key());
        let bytes = module.glwe_keyswitch_tmp_bytes(&lay_r, &lay_a, &sw_layout(n, &shape));
        let mut res = random_glwe(n, r_b, r_size, rank_out, "uniform", rng);
        let a_before = a.clone();
        let Some(()) = lib_call(rep, "glwe_keyswitch", &desc, bytes, rng, |sc| module.glwe_keyswitch(&mut res, &a, &key.prep, sc)) else { continue };
        if a != a_before {
            rep.violate("glwe_keyswitch", desc.clone(), "input ciphertext modified".into());
        }
        let ph_out = glwe_phase(&res, &sk_out.clear, w);
        let bound = ks_bound(n, &shape, a_b, a_size, r_b, r_size, &sk_in.clear, &sk_out.clear);
        let err = poly_sub(&ph_out, &ph_in);
        judge(rep, "glwe_keyswitch", &desc, &ckey, &err, w, bound, cls != "zero");
        // metamorphic: another gadget shape must give the same plaintext above both noise floors
        if let Some(k2) = &key2 {
            let desc2 = ks_desc(n, &shape2, a_b, a_size, r_b, r_size, cls, "into");
            let bytes2 = module.glwe_keyswitch_tmp_bytes(&lay_r, &lay_a, &sw_layout(n, &shape2));
            let mut res2 = random_glwe(n, r_b, r_size, rank_out, "uniform", rng);
            if lib_call(rep, "glwe_keyswitch", &desc2, bytes2, rng, |sc| module.glwe_keyswitch(&mut res2, &a, &k2.prep, sc)).is_some() {
                let ph2 = glwe_phase(&res2, &sk_out.clear, w);
                let b2 = ks_bound(n, &shape2, a_b, a_size, r_b, r_size, &sk_in.clear, &sk_out.clear);
                let mut d = desc.clone();
                d.put("dsize_2", shape2.dsize);
                d.put("dnum_2", shape2.dnum);
                d.put("key_base2k_2", shape2.b);
                d.put("key_k_2", shape2.k);
                judge(rep, "glwe_keyswitch:gadget_shape_independence", &d, &format!("{ckey}|{}", shape2.key()), &poly_sub(&ph_out, &ph2), w, bound + b2, true);
            }
        }
        // in place (same rank, result layout = input layout)
        if rank_in == rank_out {
            let desc = ks_desc(n, &shape, a_b, a_size, a_b, a_size, cls, "assign");
            let bytes = module.glwe_keyswitch_tmp_bytes(&lay_a, &lay_a, &sw_layout(n, &shape));
            let mut r2 = a.clone();
            if lib_call(rep, "glwe_keyswitch_assign", &desc, bytes, rng, |sc| {
                r2 = a.clone();
                module.glwe_keyswitch_assign(&mut r2, &key.prep, sc)
            })
            .is_some()
            {
                let ph_out = glwe_phase(&r2, &sk_out.clear, w);
                let bound = ks_bound(n, &shape, a_b, a_size, a_b, a_size, &sk_in.clear, &sk_out.clear);
                judge(rep, "glwe_keyswitch_assign", &desc, &format!("{ckey}|assign"), &poly_sub(&ph_out, &ph_in), w, bound, cls != "zero");
            }
        }
    }
    // GGLWE key switch: every cell of a (random-limb) GGLWE whose output rank is the key's input rank is switched like a GLWE
    {
        let r0 = rng.usize_in(1, 2);
        let g_dsize = rng.usize_in(1, 2);
        let g_size = a_size.max(g_dsize + 1);
        let g_dnum = rng.usize_in(1, (g_size / g_dsize).min(3));
        let mk = |rank_o: usize, dnum: usize| {
            GGLWE::alloc(Degree(n as u32), Base2K(a_b as u32), TorusPrecision((g_size * a_b) as u32), Rank(r0 as u32), Rank(rank_o as u32), Dnum(dnum as u32), Dsize(g_dsize as u32))
        };
        let shape_g = if conv_size(g_size, a_b, shape.b) == conv_size(a_size, a_b, shape.b) { Some(shape) } else { None };
        if let Some(shape) = shape_g {
            let mut a = mk(rank_in, g_dnum);
            let cls = *rng.pick(CT_CLASSES);
            for r in 0..g_dnum {
                for c in 0..r0 {
                    let mut cell = a.at_mut(r, c);
                    fill_vec_class(cell.data_mut(), a_b, cls, rng);
                }
            }
            let res_dnum = rng.usize_in(1, g_dnum);
            let assign = rank_in == rank_out && rng.coin();
            let op = if assign { "gglwe_keyswitch_assign" } else { "gglwe_keyswitch" };
            let mut desc = ks_desc(n, &shape, a_b, g_size, a_b, g_size, cls, if assign { "assign" } else { "into" });
            desc.put("gglwe_rank_in", r0);
            desc.put("gglwe_dnum", g_dnum);
            desc.put("gglwe_dsize", g_dsize);
            desc.put("res_dnum", res_dnum);
            let mut res = if assign { a.clone() } else { mk(rank_out, res_dnum) };
            let bytes = module.gglwe_keyswitch_tmp_bytes(&res, &a, &sw_layout(n, &shape));
            let template = res.clone();
            if lib_call(rep, op, &desc, bytes, rng, |sc| {
                res = template.clone();
                if assign { module.gglwe_keyswitch_assign(&mut res, &key.prep, sc) } else { module.gglwe_keyswitch(&mut res, &a, &key.prep, sc) }
            })
            .is_some()
            {
                let w = (g_size * a_b).max(shape.size * shape.b) + 64;
                let rows = if assign { g_dnum } else { res_dnum };
                let bound = ks_bound(n, &shape, a_b, g_size, a_b, g_size, &sk_in.clear, &sk_out.clear);
                'cells: for r in 0..rows {
                    for c in 0..r0 {
                        let pi = glwe_phase(&a.at(r, c), &sk_in.clear, w);
                        let po = glwe_phase(&res.at(r, c), &sk_out.clear, w);
                        let mut d = desc.clone();
                        d.put("row", r);
                        d.put("col", c);
                        if !judge(rep, op, &d, &format!("{BE_NAME}|{n}|{}|{a_b}|{g_size}|{r0}|{g_dnum}|{g_dsize}|{r}|{c}", shape.key()), &poly_sub(&po, &pi), w, bound, true) {
                            break 'cells;
                        }
                    }
                }
            }
        }
    }
}

// ---------------------------------------------------------------------------------------------
// B. automorphisms: every Galois element of (Z/2NZ)* for N <= 64, all eight forms
// ---------------------------------------------------------------------------------------------
const AUTO_FORMS: &[&str] = &[
    "glwe_automorphism",
    "glwe_automorphism_assign",
    "glwe_automorphism_add",
    "glwe_automorphism_add_assign",
    "glwe_automorphism_sub",
    "glwe_automorphism_sub_negate",
    "glwe_automorphism_sub_assign",
    "glwe_automorphism_sub_negate_assign",
];

/// image of the input phase x under each form: sigma(x), sigma(x)+x, sigma(x)-x, x-sigma(x)
fn auto_image(form: &str, x: &Poly, p: i64) -> Poly {
    let s = automorphism_big(x, p);
    match form {
        "glwe_automorphism" | "glwe_automorphism_assign" => s,
        "glwe_automorphism_add" | "glwe_automorphism_add_assign" => poly_add(&s, x),
        "glwe_automorphism_sub" | "glwe_automorphism_sub_assign" => poly_sub(&s, x),
        _ => poly_sub(x, &s),
    }
}

fn auto_bound(n: usize, s: &KeyShape, form: &str, a_b: usize, a_size: usize, r_b: usize, r_size: usize, sk: &ClearSk) -> B {
    let s1 = sk.norm1();
    let acs = conv_size(a_size, a_b, s.b);
    let mut b = gadget_bound(n, s, acs, s1, s1) + (1.0 + s1 as f64) * unit(r_size, r_b);
    if !(form == "glwe_automorphism" || form == "glwe_automorphism_assign") {
        // the input is added column-wise to an accumulator of key.size limbs: its mask columns are truncated as well
        if acs > s.size {
            b += s1 as f64 * unit(s.size, s.b);
        }
    }
    b
}

fn run_auto_form(module: &Module<BE>, n: usize, key: &AtKey, sk: &Sk, form: &'static str, a_b: usize, a_size: usize, rng: &mut Rng, rep: &mut Report, via: &str) {
    let assign = form.ends_with("_assign");
    let rank = key.shape.rank_in;
    let (r_b, r_size) = if assign { (a_b, a_size) } else { (pick_ct_radix(rng, key.shape.b), rng.usize_in(1, 5)) };
    let (a, cls) = input_ct(module, n, a_b, a_size, sk, rng, rep);
    let w = (a_size * a_b).max(r_size * r_b).max(key.shape.size * key.shape.b) + 64;
    let ph_in = glwe_phase(&a, &sk.clear, w);
    let mut desc = ks_desc(n, &key.shape, a_b, a_size, r_b, r_size, cls, if assign { "assign" } else { "into" });
    desc.put("galois", key.p);
    desc.put("galois_mod_2n", key.p.rem_euclid(2 * n as i64));
    desc.put("via", via);
    let lay_a = a.glwe_layout();
    let lay_r = GLWELayout { n: Degree(n as u32), base2k: Base2K(r_b as u32), k: TorusPrecision((r_size * r_b) as u32), rank: Rank(rank as u32) };
    let klay = at_layout(n, &key.shape);
    let bytes = if assign { module.glwe_automorphism_tmp_bytes(&lay_a, &lay_a, &klay) } else { module.glwe_automorphism_tmp_bytes(&lay_r, &lay_a, &klay) };
    let want = auto_image(form, &ph_in, key.p);
    let bound = auto_bound(n, &key.shape, form, a_b, a_size, r_b, r_size, &sk.clear);
    let ckey = format!("{BE_NAME}|{n}|{}|{}|{a_b}|{a_size}|{r_b}|{r_size}|{cls}", key.shape.key(), key.p.rem_euclid(2 * n as i64));
    let garbage = random_glwe(n, r_b, r_size, rank, "uniform", rng);
    let mut rng2 = rng.clone();
    judge_rerun(rep, form, &desc, &ckey, w, bound, cls != "zero", |rep| {
        let mut res = garbage.clone();
        lib_call(rep, form, &desc, bytes, &mut rng2, |sc| {
            if assign {
                res = a.clone();
            }
            match form {
                "glwe_automorphism" => module.glwe_automorphism(&mut res, &a, &key.prep, sc),
                "glwe_automorphism_assign" => module.glwe_automorphism_assign(&mut res, &key.prep, sc),
                "glwe_automorphism_add" => module.glwe_automorphism_add(&mut res, &a, &key.prep, sc),
                "glwe_automorphism_add_assign" => module.glwe_automorphism_add_assign(&mut res, &key.prep, sc),
                "glwe_automorphism_sub" => module.glwe_automorphism_sub(&mut res, &a, &key.prep, sc),
                "glwe_automorphism_sub_negate" => module.glwe_automorphism_sub_negate(&mut res, &a, &key.prep, sc),
                "glwe_automorphism_sub_assign" => module.glwe_automorphism_sub_assign(&mut res, &key.prep, sc),
                _ => module.glwe_automorphism_sub_negate_assign(&mut res, &key.prep, sc),
            }
        })?;
        Some(poly_sub(&glwe_phase(&res, &sk.clear, w), &want))
    });
}

/// composition of automorphism keys (GGLWE automorphism): `glwe_automorphism_key_automorphism(res, key(p0), key(p1))` must be a key for
/// p0*p1 — its recorded Galois element, every row (decrypted under sigma_{(p0 p1)^-1}(s)) and its use in `glwe_automorphism`
fn run_atk_compose(module: &Module<BE>, n: usize, k0: &AtKey, k1: &AtKey, sk: &Sk, rng: &mut Rng, rep: &mut Report) {
    let shape = k0.shape;
    let lay = at_layout(n, &shape);
    let two_n = 2 * n as i64;
    let want_p = ((k0.p as i128 * k1.p as i128).rem_euclid(two_n as i128)) as i64;
    let bytes = module.glwe_automorphism_key_automorphism_tmp_bytes(&lay, &lay, &lay);
    let s1 = sk.clear.norm1();
    for form in ["glwe_automorphism_key_automorphism", "glwe_automorphism_key_automorphism_assign"] {
        let mut desc = base_desc(n, &shape);
        desc.put("galois_a", k0.p.rem_euclid(two_n));
        desc.put("galois_key", k1.p.rem_euclid(two_n));
        desc.put("galois_product", want_p);
        desc.put("product_wraps_n", want_p >= n as i64);
        let mut res = if form.ends_with("_assign") { k0.key.clone() } else { GLWEAutomorphismKey::alloc_from_infos(&lay) };
        let done = lib_call(rep, form, &desc, bytes, rng, |sc| {
            if form.ends_with("_assign") {
                module.glwe_automorphism_key_automorphism_assign(&mut res, &k1.prep, sc)
            } else {
                module.glwe_automorphism_key_automorphism(&mut res, &k0.key, &k1.prep, sc)
            }
        });
        if done.is_none() {
            continue;
        }
        rep.count("atk_compositions", 1);
        if want_p >= n as i64 {
            rep.count("atk_compositions_product_ge_n", 1);
        }
        let ckey = format!("{BE_NAME}|{n}|{}|{}|{}", shape.key(), k0.p.rem_euclid(two_n), k1.p.rem_euclid(two_n));
        rep.case(&format!("{form}:galois"), &ckey, true);
        if res.p().rem_euclid(two_n) != want_p {
            let mut d = desc.clone();
            d.put("got", res.p());
            rep.violate(&format!("{form}:galois"), d, format!("composed key records Galois element {} but sigma_{} o sigma_{} = sigma_{want_p} (mod {two_n})", res.p(), k0.p, k1.p));
            continue;
        }
        // rows: s_c * 2^-((r+1) dsize b) under sigma_{p^-1}(s); error = fresh row error + one key switch of a key.size-limb input + normalisation
        let pinv = pow_mod(want_p as u64, (n as u64) - 1, two_n as u64) as i64;
        let sk_out = ClearSk { n, polys: sk.clear.polys.iter().map(|x| automorphism_i64(x, pinv)).collect() };
        let w = shape.size * shape.b + 16;
        let row_bound = gadget_bound(n, &shape, shape.size, s1, s1) + (1.0 + s1 as f64) * unit(shape.size, shape.b) + (BOUND_XE + 1.0) * p2(-(shape.k as f64));
        let mut rows_ok = true;
        'rows: for r in 0..shape.dnum {
            for c in 0..shape.rank_in {
                let ph = phase_of_cols(&glwe_cols(&res.at(r, c), w), &sk_out);
                let sh = w - (r + 1) * shape.dsize * shape.b;
                let err: Vec<Big> = (0..n).map(|i| &ph[i] - (Big::from(sk.clear.polys[c][i]) << sh)).collect();
                let mut d = desc.clone();
                d.put("row", r);
                d.put("col", c);
                if !judge(rep, &format!("{form}:rows"), &d, &format!("{ckey}|{r}|{c}"), &err, w, row_bound, true) {
                    rows_ok = false;
                    break 'rows;
                }
            }
        }
        if !rows_ok {
            continue;
        }
        // use: the composed key must act as sigma_{p0 p1}; its rows carry row_bound instead of the fresh-encryption error
        let mut prep = module.glwe_automorphism_key_prepared_alloc_from_infos(&lay);
        let pb = module.glwe_automorphism_key_prepare_tmp_bytes(&lay);
        if lib_call(rep, "glwe_automorphism_key_prepare", &desc, pb, rng, |sc| module.glwe_automorphism_key_prepare(&mut prep, &res, sc)).is_none() {
            continue;
        }
        let (a_b, a_size) = (shape.b, rng.usize_in(1, shape.size.min(5)));
        let (a, cls) = input_ct(module, n, a_b, a_size, sk, rng, rep);
        let w2 = shape.size * shape.b + 64;
        let ph_in = glwe_phase(&a, &sk.clear, w2);
        let rows = shape.dnum.min(a_size.div_ceil(shape.dsize)) as f64;
        let digit = p2(shape.b as f64 - 1.0) * (p2((shape.dsize * shape.b) as f64) - 1.0) / (p2(shape.b as f64) - 1.0);
        let fresh = gadget_bound(n, &shape, a_size, s1, s1);
        let use_bound = fresh.total + shape.rank_in as f64 * rows * n as f64 * digit * row_bound.total + (1.0 + s1 as f64) * unit(a_size, a_b);
        if use_bound >= 0.125 {
            rep.count("atk_compose_use_bound_vacuous", 1);
            continue;
        }
        let mut out = random_glwe(n, a_b, a_size, shape.rank_in, "uniform", rng);
        let ab = module.glwe_automorphism_tmp_bytes(&a.glwe_layout(), &a.glwe_layout(), &lay);
        let mut d = desc.clone();
        d.put("a_size", a_size);
        d.put("class_a", cls);
        if lib_call(rep, "glwe_automorphism", &d, ab, rng, |sc| module.glwe_automorphism(&mut out, &a, &prep, sc)).is_none() {
            continue;
        }
        let err = poly_sub(&glwe_phase(&out, &sk.clear, w2), &automorphism_big(&ph_in, want_p));
        judge(rep, &format!("{form}:use"), &d, &format!("{ckey}|{a_size}|{cls}"), &err, w2, use_bound, cls != "zero");
        rep.count("atk_compose_used", 1);
    }
}

/// Galois arithmetic of the module, checked against modular arithmetic done here
fn check_galois_arith(module: &Module<BE>, n: usize, rep: &mut Report) {
    let two_n = 2 * n as i64;
    for i in -(n as i64)..=(n as i64) {
        let g = module.galois_element(i);
        let want = if i == 0 { 1 } else { (pow_mod(5, i.unsigned_abs(), two_n as u64) as i64 * i.signum()).rem_euclid(two_n) };
        let desc = jo! {"backend" => BE_NAME, "n" => n, "generator" => i, "got" => g};
        rep.case("galois_element", &format!("{n}|{i}"), true);
        if g.rem_euclid(two_n) != want {
            rep.violate("galois_element", desc, format!("galois_element({i}) = {g}, expected {want} mod {two_n}"));
        }
    }
    for g in all_galois_elements(n) {
        let inv = module.galois_element_inv(g);
        rep.case("galois_element_inv", &format!("{n}|{g}"), true);
        if (inv as i128 * g as i128).rem_euclid(two_n as i128) != 1 {
            rep.violate("galois_element_inv", jo! {"backend" => BE_NAME, "n" => n, "galois" => g, "got" => inv}, format!("galois_element_inv({g}) = {inv}: product is not 1 mod {two_n}"));
        }
    }
}

fn run_auto(cfg: &Cfg, rng: &mut Rng, rep: &mut Report) {
    // seed-independent grid over (N, Galois element), sharded; each grid point gets one key and all eight forms
    let mut idx = 0u64;
    let reps = if cfg.thorough { 100 } else { 4 };
    for n in [8usize, 16, 32, 64] {
        let module = cached_module(n);
        if idx % cfg.nshards == cfg.shard {
            check_galois_arith(module, n, rep);
        }
        // enumerate units as signed generator powers: g = +-5^i, i in [0, N/2)
        for i in 0..(n as i64 / 2) {
            for neg in [false, true] {
                idx += 1;
                if idx % cfg.nshards != cfg.shard {
                    continue;
                }
                for _ in 0..reps {
                    let (p, via) = if neg { if i == 0 { (-1, "literal") } else { (module.galois_element(-i), "generator_power") } } else { (module.galois_element(i), "generator_power") };
                    let (p, via) = if rng.below(3) == 0 { (module.galois_element_inv(p), "galois_element_inv") } else { (p, via) };
                    let rank = rng.usize_in(1, 3);
                    let a_size = rng.usize_in(1, 5);
                    let probe = pick_shape(rng, n, a_size, 8, rank, rank, None);
                    let a_b = pick_ct_radix(rng, probe.b);
                    let shape = pick_shape(rng, n, a_size, a_b, rank, rank, Some(probe.b));
                    let sk = new_sk(module, n, rank, rng);
                    let check_rows = rng.below(4) == 0;
                    let Some(key) = gen_atkey(module, n, shape, p, &sk, rng, rep, check_rows) else { continue };
                    rep.count("keys", 1);
                    rep.count("galois_elements", 1);
                    for form in AUTO_FORMS {
                        run_auto_form(module, n, &key, &sk, form, a_b, a_size, rng, rep, via);
                    }
                    // every other key is also composed with a second key of the same shape for a random unit of (Z/2NZ)*
                    if rng.below(2) == 0 {
                        let units = all_galois_elements(n);
                        let p1 = *rng.pick(&units);
                        if let Some(key1) = gen_atkey(module, n, shape, p1, &sk, rng, rep, false) {
                            run_atk_compose(module, n, &key, &key1, &sk, rng, rep);
                        }
                    }
                }
            }
        }
    }
}

// ---------------------------------------------------------------------------------------------
// C/D. trace, packing, packer
// ---------------------------------------------------------------------------------------------
struct TraceCtx {
    n: usize,
    sk: Sk,
    shape: KeyShape,
    keys: HashMap<i64, GLWEAutomorphismKeyPrepared<DeviceBuf<BE>, BE>>,
}

fn new_trace_ctx(module: &Module<BE>, n: usize, rank: usize, work_size: usize, work_b_hint: usize, rng: &mut Rng, rep: &mut Report) -> Option<TraceCtx> {
    // keys sized for ciphertexts of `work_size` limbs (dnum equal or larger than needed: the trace is a long chain of key switches)
    let mut shape = pick_shape(rng, n, work_size, work_b_hint, rank, rank, None);
    let acs = conv_size(work_size, work_b_hint, shape.b);
    shape.dnum = acs.div_ceil(shape.dsize).clamp(1, 6);
    shape.size = (shape.dnum * shape.dsize).max(shape.dsize + 1) + 1;
    shape.k = shape.size * shape.b - rng.below(shape.b as u64) as usize;
    let sk = new_sk(module, n, rank, rng);
    let mut keys = HashMap::new();
    for p in module.glwe_trace_galois_elements() {
        let k = gen_atkey(module, n, shape, p, &sk, rng, rep, false)?;
        keys.insert(p, k.prep);
    }
    rep.count("keys", keys.len() as i128);
    Some(TraceCtx { n, sk, shape, keys })
}

/// keep the coefficients whose index is a multiple of n / 2^skip
fn trace_image(x: &Poly, skip: usize) -> Poly {
    let n = x.len();
    let step = n >> skip.min(log2_usize(n));
    (0..n).map(|i| if i % step == 0 { x[i].clone() } else { Big::from(0) }).collect()
}

/// the defining recursion x <- (x + sigma_{p_i}(x)) / 2 for i = skip..log N on a lifted representative (w has spare low bits)
fn trace_recursion(x: &Poly, skip: usize, gal: &[i64]) -> Poly {
    let mut y = x.clone();
    for i in skip..gal.len() {
        let s = automorphism_big(&y, gal[i]);
        y = y.iter().zip(&s).map(|(a, b)| (a + b) >> 1).collect();
    }
    y
}

/// one trace / packing level: halving (one rounding per column), one key switch with normalisation, one fused addition
fn level_bound(n: usize, s: &KeyShape, work_b: usize, work_size: usize, s1: u64, roundings: f64) -> B {
    let acs = conv_size(work_size, work_b, s.b);
    let mut b = gadget_bound(n, s, acs, s1, s1) + roundings * (1.0 + s1 as f64) * unit(work_size, work_b);
    if acs > s.size {
        b += s1 as f64 * unit(s.size, s.b);
    }
    b
}

fn run_trace(rng: &mut Rng, rep: &mut Report) {
    let n = pick_n(rng);
    let module = cached_module(n);
    let log_n = log2_usize(n);
    let rank = rng.usize_in(1, 3);
    let a_size = rng.usize_in(2, 5);
    let a_b_hint = rng.usize_in(4, 20);
    let Some(ctx) = new_trace_ctx(module, n, rank, a_size, a_b_hint, rng, rep) else { return };
    let gal = module.glwe_trace_galois_elements();
    let s1 = ctx.sk.clear.norm1();
    let klay = at_layout(n, &ctx.shape);
    // oracle self-test: the closed form (projection) equals the defining recursion
    for skip in 0..=log_n {
        let x: Poly = (0..n).map(|_| Big::from(rng.next_i64()) << 64).collect();
        if trace_recursion(&x, skip, &gal) != trace_image(&x, skip) {
            rep.inconclusive.push(format!("trace oracle self-test failed for n={n} skip={skip}"));
            return;
        }
    }
    for skip in 0..=log_n {
        for assign in [false, true] {
            let a_b = if rng.coin() { ctx.shape.b } else { a_b_hint };
            let (a, cls) = input_ct(module, n, a_b, a_size, &ctx.sk, rng, rep);
            let (r_b, r_size) = if assign { (a_b, a_size) } else { (if rng.coin() { a_b } else { pick_ct_radix(rng, ctx.shape.b) }, rng.usize_in(1, 5)) };
            let op = if assign { "glwe_trace_assign" } else { "glwe_trace" };
            let mut desc = ks_desc(n, &ctx.shape, a_b, a_size, r_b, r_size, cls, if assign { "assign" } else { "into" });
            desc.put("skip", skip);
            let lay_a = a.glwe_layout();
            let lay_r = GLWELayout { n: Degree(n as u32), base2k: Base2K(r_b as u32), k: TorusPrecision((r_size * r_b) as u32), rank: Rank(rank as u32) };
            let bytes = if assign { module.glwe_trace_tmp_bytes(&lay_a, &lay_a, &klay) } else { module.glwe_trace_tmp_bytes(&lay_r, &lay_a, &klay) };
            // working ciphertext: key radix, precision max(k_a, k_res)
            let work_bits = (a_size * a_b).max(r_size * r_b);
            let work_size = work_bits.div_ceil(ctx.shape.b);
            let w = work_bits.max(ctx.shape.size * ctx.shape.b) + 64;
            let steps = (log_n - skip) as f64;
            let bound = steps * level_bound(n, &ctx.shape, ctx.shape.b, work_size, s1, 3.0) + 2.0 * (1.0 + s1 as f64) * unit(r_size, r_b);
            let ph_in = glwe_phase(&a, &ctx.sk.clear, w);
            let want = trace_image(&ph_in, skip);
            let ckey = format!("{BE_NAME}|{n}|{}|{a_b}|{a_size}|{r_b}|{r_size}|{skip}|{assign}|{cls}", ctx.shape.key());
            let garbage = random_glwe(n, r_b, r_size, rank, "uniform", rng);
            let mut rng2 = rng.clone();
            judge_rerun(rep, op, &desc, &ckey, w, bound, skip < log_n, |rep| {
                let mut res = garbage.clone();
                lib_call(rep, op, &desc, bytes, &mut rng2, |sc| {
                    if assign {
                        res = a.clone();
                        module.glwe_trace_assign(&mut res, skip, &ctx.keys, sc)
                    } else {
                        module.glwe_trace(&mut res, skip, &a, &ctx.keys, sc)
                    }
                })?;
                Some(poly_sub(&glwe_phase(&res, &ctx.sk.clear, w), &want))
            });
        }
    }
}

fn bit_reverse(x: usize, bits: usize) -> usize {
    if bits == 0 { 0 } else { x.reverse_bits() >> (usize::BITS as usize - bits) }
}

fn run_pack(rng: &mut Rng, rep: &mut Report) {
    let n = *rng.pick(&[8usize, 16, 16, 32]);
    let module = cached_module(n);
    let log_n = log2_usize(n);
    let rank = rng.usize_in(1, 2);
    let ct_size = rng.usize_in(2, 4);
    let ct_b_hint = rng.usize_in(6, 18);
    let Some(ctx) = new_trace_ctx(module, n, rank, ct_size, ct_b_hint, rng, rep) else { return };
    let ct_b = if rng.coin() { ctx.shape.b } else { ct_b_hint };
    let s1 = ctx.sk.clear.norm1();
    let klay = at_layout(n, &ctx.shape);
    let lay_ct = GLWELayout { n: Degree(n as u32), base2k: Base2K(ct_b as u32), k: TorusPrecision((ct_size * ct_b) as u32), rank: Rank(rank as u32) };
    // wide enough for every ciphertext radix/size used below (<= 5 limbs of <= 52 bits)
    let w = (ct_size * ct_b).max(ctx.shape.size * ctx.shape.b).max(5 * 52) + 64 + 8;
    // per level: two halvings, two re-normalisations, one key switch (+ its normalisation), fused add/sub
    let lvl = level_bound(n, &ctx.shape, ct_b, ct_size, s1, 8.0);
    // ---- glwe_pack: random subset of the slots on the output grid
    {
        let log_gap = rng.usize_in(0, log_n.min(2));
        let gap = 1usize << log_gap;
        let slots: Vec<usize> = (0..n / gap).map(|j| j * gap).filter(|_| rng.below(3) != 0).collect();
        let slots = if slots.is_empty() { vec![gap * rng.below((n / gap) as u64) as usize] } else { slots };
        let cls = *rng.pick(CT_CLASSES);
        let mut cts: Vec<GLWE<Vec<u8>>> = slots.iter().map(|_| random_glwe(n, ct_b, ct_size, rank, cls, rng)).collect();
        let mut want = zero_poly(n);
        for (t, j) in slots.iter().enumerate() {
            want[*j] = glwe_phase(&cts[t], &ctx.sk.clear, w)[0].clone();
        }
        let (r_b, r_size) = if rng.coin() { (ct_b, ct_size) } else { (pick_ct_radix(rng, ctx.shape.b), rng.usize_in(2, 4)) };
        let lay_r = GLWELayout { n: Degree(n as u32), base2k: Base2K(r_b as u32), k: TorusPrecision((r_size * r_b) as u32), rank: Rank(rank as u32) };
        let mut desc = ks_desc(n, &ctx.shape, ct_b, ct_size, r_b, r_size, cls, "into");
        desc.put("log_gap_out", log_gap);
        desc.put("slots", slots.iter().map(|x| *x as i64).collect::<Vec<i64>>());
        let bytes = module.glwe_pack_tmp_bytes(&lay_r, &klay).max(module.glwe_pack_tmp_bytes(&lay_ct, &klay));
        let garbage = random_glwe(n, r_b, r_size, rank, "uniform", rng);
        let template = cts.clone();
        let work_size = ((ct_size * ct_b).max(r_size * r_b)).div_ceil(ctx.shape.b);
        let bound = (log_n - log_gap) as f64 * lvl + log_gap as f64 * level_bound(n, &ctx.shape, ctx.shape.b, work_size, s1, 3.0) + 4.0 * (1.0 + s1 as f64) * (unit(r_size, r_b) + unit(ct_size, ct_b));
        let ckey = format!("{BE_NAME}|{n}|{}|{ct_b}|{ct_size}|{r_b}|{r_size}|{log_gap}|{:?}", ctx.shape.key(), slots);
        let mut rng2 = rng.clone();
        judge_rerun(rep, "glwe_pack", &desc, &ckey, w, bound, true, |rep| {
            let mut res = garbage.clone();
            lib_call(rep, "glwe_pack", &desc, bytes, &mut rng2, |sc| {
                cts = template.clone();
                let mut map: HashMap<usize, &mut GLWE<Vec<u8>>> = HashMap::new();
                for (t, ct) in cts.iter_mut().enumerate() {
                    map.insert(slots[t], ct);
                }
                module.glwe_pack(&mut res, map, log_gap, &ctx.keys, sc)
            })?;
            Some(poly_sub(&glwe_phase(&res, &ctx.sk.clear, w), &want))
        });
    }
    // ---- GLWEPacker: N >> log_batch sequential adds (some empty), bit-reversed output
    {
        let log_batch = rng.usize_in(0, (log_n - 1).min(2));
        let m_bits = log_n - log_batch;
        let count = n >> log_batch;
        let cls = *rng.pick(CT_CLASSES);
        // inputs in the accumulators' radix: `combine` subtracts them from an accumulator (glwe_sub asserts equal radices)
        let in_b = ct_b;
        let inputs: Vec<Option<GLWE<Vec<u8>>>> = (0..count).map(|_| if rng.below(3) != 0 { Some(random_glwe(n, in_b, ct_size, rank, cls, rng)) } else { None }).collect();
        let mut want = zero_poly(n);
        let stride = 1usize << m_bits;
        for (k, inp) in inputs.iter().enumerate() {
            if let Some(ct) = inp {
                let ph = glwe_phase(ct, &ctx.sk.clear, w);
                for m in 0..(1usize << log_batch) {
                    want[m * stride + bit_reverse(k, m_bits)] = ph[m * stride].clone();
                }
            }
        }
        let (r_b, r_size) = if rng.coin() { (ct_b, ct_size) } else { (pick_ct_radix(rng, ctx.shape.b), rng.usize_in(2, 4)) };
        let mut desc = ks_desc(n, &ctx.shape, in_b, ct_size, r_b, r_size, cls, "packer");
        desc.put("log_batch", log_batch);
        desc.put("acc_base2k", ct_b);
        desc.put("present", inputs.iter().map(|x| x.is_some() as i64).collect::<Vec<i64>>());
        let bytes = poulpy_core::glwe_packer_tmp_bytes(module, &lay_ct, &klay);
        let garbage = random_glwe(n, r_b, r_size, rank, "uniform", rng);
        let bound = m_bits as f64 * lvl + 4.0 * (1.0 + s1 as f64) * (unit(r_size, r_b) + unit(ct_size, ct_b));
        let ckey = format!("{BE_NAME}|{n}|{}|{ct_b}|{in_b}|{ct_size}|{r_b}|{r_size}|{log_batch}|{:?}", ctx.shape.key(), inputs.iter().map(|x| x.is_some()).collect::<Vec<_>>());
        let mut rng2 = rng.clone();
        judge_rerun(rep, "glwe_packer", &desc, &ckey, w, bound, inputs.iter().any(|x| x.is_some()), |rep| {
            let mut res = garbage.clone();
            lib_call(rep, "glwe_packer", &desc, bytes, &mut rng2, |sc| {
                let mut packer = poulpy_core::GLWEPacker::alloc(&lay_ct, log_batch);
                for inp in inputs.iter() {
                    poulpy_core::glwe_packer_add(module, &mut packer, inp.as_ref(), &ctx.keys, sc);
                }
                poulpy_core::glwe_packer_flush(module, &mut packer, &mut res, sc);
            })?;
            Some(poly_sub(&glwe_phase(&res, &ctx.sk.clear, w), &want))
        });
    }
}

// ---------------------------------------------------------------------------------------------
// E. LWE key switch, LWE <-> GLWE conversion, sample extraction
// ---------------------------------------------------------------------------------------------
fn new_lwe_sk(n_lwe: usize, rng: &mut Rng) -> LWESecret<Vec<u8>> {
    let mut src = Source::new(rng.seed32());
    let mut sk = LWESecret::alloc(Degree(n_lwe as u32));
    match rng.below(3) {
        0 => sk.fill_binary_prob(0.5, &mut src),
        _ => sk.fill_ternary_prob(0.5, &mut src),
    }
    sk
}

fn random_lwe(n_lwe: usize, b: usize, size: usize, cls: &str, rng: &mut Rng) -> LWE<Vec<u8>> {
    let mut ct = LWE::alloc(Degree(n_lwe as u32), Base2K(b as u32), TorusPrecision((size * b) as u32));
    fill_vec_class(ct.data_mut(), b, cls, rng);
    ct
}

fn norm1(s: &[i64]) -> u64 {
    s.iter().map(|x| x.unsigned_abs()).sum()
}

fn run_lwe(rng: &mut Rng, rep: &mut Report) {
    let n = pick_n(rng);
    let module = cached_module(n);
    let a_size = rng.usize_in(1, 5);
    // LWE keys have dsize 1
    let max_b = max_key_b(n, 3 * 6);
    let kb = pick_radix(rng, max_b);
    let mk_shape = |rng: &mut Rng, a_b: usize, rank_in: usize, rank_out: usize| {
        let acs = conv_size(a_size, a_b, kb);
        let dnum = match rng.below(4) {
            0 => acs.saturating_sub(1).max(1),
            1 => acs + 1,
            _ => acs,
        }
        .clamp(1, 6);
        let size = dnum.max(2) + rng.below(3) as usize;
        KeyShape { b: kb, size, k: size * kb - rng.below(kb as u64) as usize, dsize: 1, dnum, rank_in, rank_out }
    };
    // ---- sample extraction (no key): LWE of dimension n_lwe <= N from a rank-1 GLWE; the LWE secret is read off the GLWE secret
    {
        let n_lwe = if rng.coin() { n } else { rng.usize_in(1, n) };
        let b = rng.usize_in(2, 52);
        let r_size = rng.usize_in(1, 5);
        let cls = *rng.pick(CT_CLASSES);
        let a = random_glwe(n, b, a_size, 1, cls, rng);
        // secret S with S[N-j] = 0 for j >= n_lwe; s_lwe[0] = S[0], s_lwe[j] = -S[N-j]
        let s_lwe: Vec<i64> = (0..n_lwe).map(|_| rng.i64_in(-1, 1)).collect();
        let mut s_poly = vec![0i64; n];
        s_poly[0] = s_lwe[0];
        for j in 1..n_lwe {
            s_poly[n - j] = -s_lwe[j];
        }
        let sk = ClearSk { n, polys: vec![s_poly] };
        let mut res = random_lwe(n_lwe, b, r_size, "uniform", rng);
        let desc = jo! {"backend" => BE_NAME, "op" => "lwe_sample_extract", "n" => n, "n_lwe" => n_lwe, "a_base2k" => b, "a_size" => a_size, "res_size" => r_size, "class_a" => cls};
        let key = format!("{BE_NAME}|{n}|{n_lwe}|{b}|{a_size}|{r_size}|{cls}");
        match guarded(|| module.lwe_sample_extract(&mut res, &a)) {
            Err(p) => note_panic(rep, "lwe_sample_extract", &desc, &p),
            Ok(()) => {
                let w = a_size.max(r_size) * b + 64;
                let pg = glwe_phase(&a, &sk, w);
                let pl = lwe_phase(&res, &s_lwe, w);
                let bound = if a_size > r_size { (1.0 + norm1(&s_lwe) as f64) * unit(r_size, b) } else { 0.0 };
                judge(rep, "lwe_sample_extract", &desc, &key, &[&pl - &pg[0]], w, bound, cls != "zero");
            }
        }
    }
    // ---- LWE -> LWE key switch
    {
        let n_in = rng.usize_in(1, n);
        let n_out = rng.usize_in(1, n);
        let a_b = pick_ct_radix(rng, kb);
        let shape = mk_shape(rng, a_b, 1, 1);
        let sk_in = new_lwe_sk(n_in, rng);
        let sk_out = new_lwe_sk(n_out, rng);
        let lay = LWESwitchingKeyLayout { n: Degree(n as u32), base2k: Base2K(kb as u32), k: TorusPrecision(shape.k as u32), dnum: Dnum(shape.dnum as u32) };
        let enc = EncryptionLayout::new_from_default_sigma(lay).unwrap();
        let mut desc = base_desc(n, &shape);
        desc.put("n_lwe_in", n_in);
        desc.put("n_lwe_out", n_out);
        let mut xe = Source::new(rng.seed32());
        let mut xa = Source::new(rng.seed32());
        let mut ksk = LWESwitchingKey::alloc_from_infos(&lay);
        let bytes = module.lwe_switching_key_encrypt_sk_tmp_bytes(&lay);
        if lib_call(rep, "lwe_switching_key_encrypt_sk", &desc, bytes, rng, |sc| module.lwe_switching_key_encrypt_sk(&mut ksk, &sk_in, &sk_out, &enc, &mut xe, &mut xa, sc)).is_some() {
            let mut prep = module.lwe_switching_key_prepared_alloc_from_infos(&lay);
            let bytes = module.lwe_switching_key_prepare_tmp_bytes(&lay);
            if lib_call(rep, "lwe_switching_key_prepare", &desc, bytes, rng, |sc| module.lwe_switching_key_prepare(&mut prep, &ksk, sc)).is_some() {
                rep.count("keys", 1);
                for _ in 0..3 {
                    let cls = *rng.pick(CT_CLASSES);
                    let a = random_lwe(n_in, a_b, a_size, cls, rng);
                    let r_b = pick_ct_radix(rng, kb);
                    let r_size = rng.usize_in(1, 5);
                    let mut res = random_lwe(n_out, r_b, r_size, "uniform", rng);
                    let mut d = desc.clone();
                    d.put("a_base2k", a_b);
                    d.put("a_size", a_size);
                    d.put("res_base2k", r_b);
                    d.put("res_size", r_size);
                    d.put("class_a", cls);
                    let la = LWELayout { n: Degree(n_in as u32), k: TorusPrecision((a_size * a_b) as u32), base2k: Base2K(a_b as u32) };
                    let lr = LWELayout { n: Degree(n_out as u32), k: TorusPrecision((r_size * r_b) as u32), base2k: Base2K(r_b as u32) };
                    let bytes = module.lwe_keyswitch_tmp_bytes(&lr, &la, &lay);
                    if lib_call(rep, "lwe_keyswitch", &d, bytes, rng, |sc| module.lwe_keyswitch(&mut res, &a, &prep, sc)).is_some() {
                        let w = (a_size * a_b).max(r_size * r_b).max(shape.size * kb) + 64;
                        let pi = lwe_phase(&a, sk_in.raw(), w);
                        let po = lwe_phase(&res, sk_out.raw(), w);
                        let (s_in_1, s_out_1) = (norm1(sk_in.raw()), norm1(sk_out.raw()));
                        let bound = gadget_bound(n, &shape, conv_size(a_size, a_b, kb), s_in_1, s_out_1) + (1.0 + s_out_1 as f64) * unit(r_size, r_b);
                        judge(rep, "lwe_keyswitch", &d, &format!("{BE_NAME}|{n}|{}|{n_in}|{n_out}|{a_b}|{a_size}|{r_b}|{r_size}|{cls}", shape.key()), &[&po - &pi], w, bound, cls != "zero");
                    }
                }
            }
        }
    }
    // ---- LWE -> GLWE
    {
        let n_lwe = rng.usize_in(1, n);
        let rank_out = rng.usize_in(1, 3);
        let a_b = pick_ct_radix(rng, kb);
        let shape = mk_shape(rng, a_b, 1, rank_out);
        let sk_lwe = new_lwe_sk(n_lwe, rng);
        let sk_glwe = new_sk(module, n, rank_out, rng);
        let lay = LWEToGLWEKeyLayout { n: Degree(n as u32), base2k: Base2K(kb as u32), k: TorusPrecision(shape.k as u32), dnum: Dnum(shape.dnum as u32), rank_out: Rank(rank_out as u32) };
        let enc = EncryptionLayout::new_from_default_sigma(lay).unwrap();
        let mut desc = base_desc(n, &shape);
        desc.put("n_lwe", n_lwe);
        let mut xe = Source::new(rng.seed32());
        let mut xa = Source::new(rng.seed32());
        let mut ksk = LWEToGLWEKey::alloc_from_infos(&lay);
        let bytes = module.lwe_to_glwe_key_encrypt_sk_tmp_bytes(&lay);
        if lib_call(rep, "lwe_to_glwe_key_encrypt_sk", &desc, bytes, rng, |sc| module.lwe_to_glwe_key_encrypt_sk(&mut ksk, &sk_lwe, &sk_glwe.prep, &enc, &mut xe, &mut xa, sc)).is_some() {
            let mut prep = module.lwe_to_glwe_key_prepared_alloc_from_infos(&lay);
            let bytes = module.lwe_to_glwe_key_prepare_tmp_bytes(&lay);
            if lib_call(rep, "lwe_to_glwe_key_prepare", &desc, bytes, rng, |sc| module.lwe_to_glwe_key_prepare(&mut prep, &ksk, sc)).is_some() {
                rep.count("keys", 1);
                for _ in 0..3 {
                    let cls = *rng.pick(CT_CLASSES);
                    let a = random_lwe(n_lwe, a_b, a_size, cls, rng);
                    let r_b = pick_ct_radix(rng, kb);
                    let r_size = rng.usize_in(1, 5);
                    let mut res = random_glwe(n, r_b, r_size, rank_out, "uniform", rng);
                    let mut d = desc.clone();
                    d.put("a_base2k", a_b);
                    d.put("a_size", a_size);
                    d.put("res_base2k", r_b);
                    d.put("res_size", r_size);
                    d.put("class_a", cls);
                    let la = LWELayout { n: Degree(n_lwe as u32), k: TorusPrecision((a_size * a_b) as u32), base2k: Base2K(a_b as u32) };
                    let lr = res.glwe_layout();
                    let bytes = module.glwe_from_lwe_tmp_bytes(&lr, &la, &lay);
                    if lib_call(rep, "glwe_from_lwe", &d, bytes, rng, |sc| module.glwe_from_lwe(&mut res, &a, &prep, sc)).is_some() {
                        let w = (a_size * a_b).max(r_size * r_b).max(shape.size * kb) + 64;
                        let pi = lwe_phase(&a, sk_lwe.raw(), w);
                        let po = glwe_phase(&res, &sk_glwe.clear, w);
                        let bound = gadget_bound(n, &shape, conv_size(a_size, a_b, kb), norm1(sk_lwe.raw()), sk_glwe.clear.norm1()) + (1.0 + sk_glwe.clear.norm1() as f64) * unit(r_size, r_b);
                        // the LWE plaintext lands in the constant coefficient; the other coefficients are unspecified
                        judge(rep, "glwe_from_lwe", &d, &format!("{BE_NAME}|{n}|{}|{n_lwe}|{a_b}|{a_size}|{r_b}|{r_size}|{cls}", shape.key()), &[&po[0] - &pi], w, bound, cls != "zero");
                    }
                }
            }
        }
    }
    // ---- GLWE -> LWE at every index
    {
        let n_lwe = rng.usize_in(1, n);
        let rank_in = rng.usize_in(1, 3);
        let a_b = pick_ct_radix(rng, kb);
        let shape = mk_shape(rng, a_b, rank_in, 1);
        let sk_lwe = new_lwe_sk(n_lwe, rng);
        let sk_glwe = new_sk(module, n, rank_in, rng);
        let lay = GLWEToLWEKeyLayout { n: Degree(n as u32), base2k: Base2K(kb as u32), k: TorusPrecision(shape.k as u32), rank_in: Rank(rank_in as u32), dnum: Dnum(shape.dnum as u32) };
        let enc = EncryptionLayout::new_from_default_sigma(lay).unwrap();
        let mut desc = base_desc(n, &shape);
        desc.put("n_lwe", n_lwe);
        let mut xe = Source::new(rng.seed32());
        let mut xa = Source::new(rng.seed32());
        let mut ksk = GLWEToLWEKey::alloc_from_infos(&lay);
        let bytes = module.glwe_to_lwe_key_encrypt_sk_tmp_bytes(&lay);
        if lib_call(rep, "glwe_to_lwe_key_encrypt_sk", &desc, bytes, rng, |sc| module.glwe_to_lwe_key_encrypt_sk(&mut ksk, &sk_lwe, &sk_glwe.lib, &enc, &mut xe, &mut xa, sc)).is_some() {
            let mut prep = module.glwe_to_lwe_key_prepared_alloc_from_infos(&lay);
            let bytes = module.glwe_to_lwe_key_prepare_tmp_bytes(&lay);
            if lib_call(rep, "glwe_to_lwe_key_prepare", &desc, bytes, rng, |sc| module.glwe_to_lwe_key_prepare(&mut prep, &ksk, sc)).is_some() {
                rep.count("keys", 1);
                let (a, cls) = input_ct(module, n, a_b, a_size, &sk_glwe, rng, rep);
                let r_b = pick_ct_radix(rng, kb);
                let r_size = rng.usize_in(1, 5);
                let w = (a_size * a_b).max(r_size * r_b).max(shape.size * kb) + 64;
                let pi = glwe_phase(&a, &sk_glwe.clear, w);
                let lr = LWELayout { n: Degree(n_lwe as u32), k: TorusPrecision((r_size * r_b) as u32), base2k: Base2K(r_b as u32) };
                let la = a.glwe_layout();
                let bytes = module.lwe_from_glwe_tmp_bytes(&lr, &la, &lay);
                let bound = gadget_bound(n, &shape, conv_size(a_size, a_b, kb), sk_glwe.clear.norm1(), norm1(sk_lwe.raw())) + (1.0 + norm1(sk_lwe.raw()) as f64) * unit(r_size, r_b);
                let idxs: Vec<usize> = if n <= 16 { (0..n).collect() } else { (0..12).map(|_| rng.below(n as u64) as usize).chain([0, n - 1]).collect() };
                for idx in idxs {
                    let mut res = random_lwe(n_lwe, r_b, r_size, "uniform", rng);
                    let mut d = desc.clone();
                    d.put("a_base2k", a_b);
                    d.put("a_size", a_size);
                    d.put("res_base2k", r_b);
                    d.put("res_size", r_size);
                    d.put("class_a", cls);
                    d.put("index", idx);
                    if lib_call(rep, "lwe_from_glwe", &d, bytes, rng, |sc| module.lwe_from_glwe(&mut res, &a, idx, &prep, sc)).is_some() {
                        let po = lwe_phase(&res, sk_lwe.raw(), w);
                        judge(rep, "lwe_from_glwe", &d, &format!("{BE_NAME}|{n}|{}|{n_lwe}|{a_b}|{a_size}|{r_b}|{r_size}|{idx}|{cls}", shape.key()), &[&po - &pi[idx]], w, bound, cls != "zero");
                    }
                }
            }
        }
    }
}

// ---------------------------------------------------------------------------------------------
// F. GGSW key switch / automorphism: column 0 of every row is key-switched, the other columns are rebuilt with the tensor key
// ---------------------------------------------------------------------------------------------
fn run_ggsw(rng: &mut Rng, rep: &mut Report) {
    let n = pick_n(rng);
    let module = cached_module(n);
    let rank = rng.usize_in(1, 2);
    let auto = rng.coin();
    let g_dsize = rng.usize_in(1, 2);
    let a_size = rng.usize_in(g_dsize + 1, 5);
    let a_dnum = rng.usize_in(1, (a_size / g_dsize).min(3));
    let probe = pick_shape(rng, n, a_size, 8, rank, rank, None);
    let a_b = pick_ct_radix(rng, probe.b).max(3);
    let kshape = pick_shape(rng, n, a_size, a_b, rank, rank, Some(probe.b));
    let assign = rng.coin();
    let r_size = if assign { a_size } else { rng.usize_in(g_dsize + 1, 5) };
    let r_dnum = if assign { a_dnum } else { rng.usize_in(1, a_dnum.min(r_size / g_dsize)) };
    // tensor key sized for the result cells
    let mut tshape = pick_shape(rng, n, r_size, a_b, rank, rank, None);
    let acs_t = conv_size(r_size, a_b, tshape.b);
    tshape.dnum = acs_t.div_ceil(tshape.dsize).clamp(1, 6);
    tshape.size = (tshape.dnum * tshape.dsize).max(tshape.dsize + 1) + rng.below(2) as usize;
    tshape.k = tshape.size * tshape.b - rng.below(tshape.b as u64) as usize;
    let sk_in = new_sk(module, n, rank, rng);
    let sk_out = if auto { None } else { Some(new_sk(module, n, rank, rng)) };
    let sk_t = sk_out.as_ref().unwrap_or(&sk_in);
    let p = if auto { *rng.pick(&all_galois_elements(n)) } else { 1 };
    let mut desc = ks_desc(n, &kshape, a_b, a_size, a_b, r_size, "uniform", if assign { "assign" } else { "into" });
    desc.put("ggsw_rank", rank);
    desc.put("ggsw_dsize", g_dsize);
    desc.put("a_dnum", a_dnum);
    desc.put("res_dnum", r_dnum);
    desc.put("tsk_base2k", tshape.b);
    desc.put("tsk_size", tshape.size);
    desc.put("tsk_k", tshape.k);
    desc.put("tsk_dsize", tshape.dsize);
    desc.put("tsk_dnum", tshape.dnum);
    desc.put("galois", p);
    if r_dnum < a_dnum {
        desc.put("class", "res_dnum_lt_a_dnum");
    }
    // keys
    let swk = if auto { None } else { gen_swkey(module, n, kshape, &sk_in, sk_t, rng, rep, false) };
    let atk = if auto { gen_atkey(module, n, kshape, p, &sk_in, rng, rep, false) } else { None };
    if swk.is_none() && atk.is_none() {
        return;
    }
    let tlay = GGLWEToGGSWKeyLayout { n: Degree(n as u32), base2k: Base2K(tshape.b as u32), k: TorusPrecision(tshape.k as u32), rank: Rank(rank as u32), dnum: Dnum(tshape.dnum as u32), dsize: Dsize(tshape.dsize as u32) };
    let tenc = EncryptionLayout::new_from_default_sigma(tlay).unwrap();
    let mut xe = Source::new(rng.seed32());
    let mut xa = Source::new(rng.seed32());
    let mut tsk = GGLWEToGGSWKey::alloc_from_infos(&tlay);
    let bytes = poulpy_core::api::GGLWEToGGSWKeyEncryptSk::gglwe_to_ggsw_key_encrypt_sk_tmp_bytes(module, &tlay);
    if lib_call(rep, "gglwe_to_ggsw_key_encrypt_sk", &desc, bytes, rng, |sc| poulpy_core::api::GGLWEToGGSWKeyEncryptSk::gglwe_to_ggsw_key_encrypt_sk(module, &mut tsk, &sk_t.lib, &tenc, &mut xe, &mut xa, sc)).is_none() {
        return;
    }
    let mut tprep = module.gglwe_to_ggsw_key_prepared_alloc_from_infos(&tlay);
    let bytes = module.gglwe_to_ggsw_key_prepare_tmp_bytes(&tlay);
    if lib_call(rep, "gglwe_to_ggsw_key_prepare", &desc, bytes, rng, |sc| module.gglwe_to_ggsw_key_prepare(&mut tprep, &tsk, sc)).is_none() {
        return;
    }
    rep.count("keys", 2);
    let mk = |size: usize, dnum: usize| GGSW::alloc(Degree(n as u32), Base2K(a_b as u32), TorusPrecision((size * a_b) as u32), Rank(rank as u32), Dnum(dnum as u32), Dsize(g_dsize as u32));
    let mut a = mk(a_size, a_dnum);
    let cls = *rng.pick(CT_CLASSES);
    for r in 0..a_dnum {
        for c in 0..=rank {
            let mut cell = a.at_mut(r, c);
            fill_vec_class(cell.data_mut(), a_b, cls, rng);
        }
    }
    let op = match (auto, assign) {
        (false, false) => "ggsw_keyswitch",
        (false, true) => "ggsw_keyswitch_assign",
        (true, false) => "ggsw_automorphism",
        (true, true) => "ggsw_automorphism_assign",
    };
    let template = if assign { a.clone() } else { mk(r_size, r_dnum) };
    let klay_sw = sw_layout(n, &kshape);
    let klay_at = at_layout(n, &kshape);
    let bytes = if auto { module.ggsw_automorphism_tmp_bytes(&template, &a, &klay_at, &tlay) } else { module.ggsw_keyswitch_tmp_bytes(&template, &a, &klay_sw, &tlay) };
    let mut res = template.clone();
    let r = lib_call(rep, op, &desc, bytes, rng, |sc| {
        res = template.clone();
        match op {
            "ggsw_keyswitch" => module.ggsw_keyswitch(&mut res, &a, &swk.as_ref().unwrap().prep, &tprep, sc),
            "ggsw_keyswitch_assign" => module.ggsw_keyswitch_assign(&mut res, &swk.as_ref().unwrap().prep, &tprep, sc),
            "ggsw_automorphism" => module.ggsw_automorphism(&mut res, &a, &atk.as_ref().unwrap().prep, &tprep, sc),
            _ => module.ggsw_automorphism_assign(&mut res, &atk.as_ref().unwrap().prep, &tprep, sc),
        }
    });
    if r.is_none() {
        return;
    }
    let w = (a_size * a_b).max(r_size * a_b).max(kshape.size * kshape.b).max(tshape.size * tshape.b) + 64;
    let s1 = sk_t.clear.norm1();
    let b0 = ks_bound(n, &kshape, a_b, a_size, a_b, r_size, &sk_in.clear, &sk_t.clear);
    for row in 0..r_dnum {
        let pin = glwe_phase(&a.at(row, 0), &sk_in.clear, w);
        let want0 = if auto { automorphism_big(&pin, p) } else { pin };
        let p0 = glwe_phase(&res.at(row, 0), &sk_t.clear, w);
        let mut d = desc.clone();
        d.put("row", row);
        d.put("cell_col", 0);
        let ckey = format!("{BE_NAME}|{n}|{}|{}|{a_b}|{a_size}|{r_size}|{rank}|{g_dsize}|{a_dnum}|{r_dnum}|{row}|{p}", kshape.key(), tshape.key());
        if !judge(rep, op, &d, &format!("{ckey}|0"), &poly_sub(&p0, &want0), w, b0, true) {
            return;
        }
        for c in 1..=rank {
            let sc = &sk_t.clear.polys[c - 1];
            let sc1 = norm1(sc);
            let want = negacyclic_mul_big_small(&p0, sc);
            let pc = glwe_phase(&res.at(row, c), &sk_t.clear, w);
            let mut bound = gadget_bound(n, &tshape, acs_t, s1 * sc1, s1) + (1.0 + s1 as f64) * unit(r_size, a_b);
            if acs_t > tshape.size {
                bound += sc1 as f64 * unit(tshape.size, tshape.b);
            }
            let mut d = desc.clone();
            d.put("row", row);
            d.put("cell_col", c);
            if !judge(rep, &format!("{op}:expand_rows"), &d, &format!("{ckey}|{c}"), &poly_sub(&pc, &want), w, bound, true) {
                return;
            }
        }
    }
}

pub fn run(cfg: &Cfg, rep: &mut Report) {
    let mut rng = cfg.rng(&format!("c03-{BE_NAME}"));
    let nb = if cfg!(feature = "avx") { 4 } else { 2 };
    let want = |m: &str| cfg.mode.is_empty() || cfg.mode == m;
    if want("ks") {
        for _ in 0..cfg.budget(24_000, 720_000) / nb {
            run_ks_context(&mut rng, rep);
        }
    }
    if want("auto") {
        run_auto(cfg, &mut rng, rep);
    }
    if want("trace") {
        for _ in 0..cfg.budget(6_000, 180_000) / nb {
            run_trace(&mut rng, rep);
        }
    }
    if want("pack") {
        for _ in 0..cfg.budget(5_000, 150_000) / nb {
            run_pack(&mut rng, rep);
        }
    }
    if want("ggsw") {
        for _ in 0..cfg.budget(9_000, 270_000) / nb {
            run_ggsw(&mut rng, rep);
        }
    }
    if want("lwe") {
        for _ in 0..cfg.budget(12_000, 360_000) / nb {
            run_lwe(&mut rng, rep);
        }
    }
}
